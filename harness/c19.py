"""C19 — runs in one process are independent of each other.

Implementation: snowfakery.generate_data / snowfakery.data_generator.generate called back to back in
ONE process; model: coq/theories/Isolation.v (the process-wide state `proc` and how a run reads and
writes it; the iteration loop, stopping criteria, continuation ids and the with-blocks of a run).

One case = one sequence of 2..8 JOBS (recipe + continuation file in / out + stopping criterion +
user options + how the application object is made).  The sequence runs in a dedicated process that
has imported snowfakery and run nothing (the model's proc0); every job also runs alone in its own
pristine process on the same inputs (the continuation file the sequence produced included).
Three checks per case:
  * property oracle (implementation only): output of job i in the sequence == its output alone
    (deterministic recipes: identical rows, error class and continuation file written; unique-id /
    random / clock fields: structure, plus distinctness of unique ids over the whole sequence and
    freshness of `now`; ids start right after the run's OWN continuation file);
  * correspondence: the model predicts, run after run, the observations of the process-touching
    operations (ids, memoised counters, (context,index) of every unique id, date-parse results,
    version mode, which dataset file a relative path opened) through its own iteration loop AND the
    visible part of the process state after the run (context counter, cache_info of the two date
    caches, whether the RowHistory context variable was replaced, the application's options dict,
    working directory, sys.path, imported local plugin modules, rep_count / starting_id of the
    application object);
  * state-diff audit: all snowfakery.* module objects, all live classes, context variables and
    process-level locations are fingerprinted before and after each run; a changed location that is
    neither in the model's `proc` record nor in the whitelist is "unmodelled process state" = a
    disagreement with the model.

Pristine processes: `fresh: "spawn"` starts a new interpreter per run (PYTHONPATH = common.REPO);
`fresh: "fork"` forks the pool worker, which has imported snowfakery and never runs a recipe itself
(checked with the same fingerprint before every fork; a worker that is not pristine falls back to
spawn).  Never compared: timestamps (only "inside the window of run j"), addresses, messages, the
date a continuation file was written on."""
import collections
import contextvars
import datetime
import decimal
import enum
import functools
import hashlib
import io
import itertools
import json
import os
import pathlib
import random
import re
import signal
import string
import subprocess
import sys
import tempfile
import types

from . import common as C
from . import sfcore

PROP = "C19"
MODEL = "Isolation"
SHARD = 60
CASE_TIMEOUT = 120
RULE = ("cases: sequences of 2..8 JOBS run back to back in one pristine process through generate / "
        "generate_data, each job also alone in its own pristine process on the same inputs (files as they are "
        "then, the continuation file the sequence produced).  A job = recipe + run parameters: fresh or "
        "CONTINUED from the continuation file an earlier job of the sequence wrote (chains of 2-3 links, "
        "interleaved with other runs and other chains), optionally writing one; stopping criterion = "
        "iterations or target_number (n, table) on fresh and continued runs; user options (option-controlled "
        "counts: a first link that makes NO row of a table, so its continuation file lacks the table the next "
        "link is stopped by); application object new per run, made by the API, or ONE object reused by all "
        "runs.  Recipes: (a) process-programs (templates over the shared tables A B C P whose fields are "
        "unique_id / UniqueId.unique_id / unique_alpha_code, date / datetime with string, native and clock "
        "keys, named and unnamed Counters.NumberCounter, Counters.DateCounter, random_reference + attribute "
        "load, version probe, failing formulas, Dataset.iterate with a RELATIVE path (stream recipe / recipe "
        "FILE in another directory / missing file / wrong extension), a local plugin module (found, not "
        "found, raising at import), parse failures, unknown stop table), (b) SF-core recipes of "
        "sfcore.gen_recipe, (c) hand-written plugin recipes (Dataset.iterate/shuffle, random_reference "
        "unique, nicknames + variables, just_once, names that only a continued run evaluates, counters with "
        "parent, fake, random_number, broken YAML, unfilled reference); sequences repeat a recipe with "
        "probability 1/2; optional shared plugin_options dict.  non-trivial: >= 2 runs reached execution "
        "and the sequence exercises at least one stateful mechanism (unique id, date cache, memoised "
        "plugin value, row history, dataset, continued run, target number, reused application object, failing "
        "predecessor, repeated recipe); distinct by case hash")
TRUSTED = ["harness/c19.py: state walker (module globals, ALL live classes of the package with their class-level "
           "attributes, function defaults / closure cells / attributes, every lru_cache's cache_info, the context "
           "variables of the current context, cwd / sys.path / environ / std streams / threads / logging root / umask, "
           "curated Faker and jinja2 module state) and its whitelist",
           "harness/c19.py: pristine-process plumbing (fork of an idle pool worker / subprocess spawn)",
           "harness/c19.py: decoding of unique ids to (context, index) with the implementation's own "
           "unscramble_number and baseconv",
           "harness/c19.py: the translation of a process-program job into the model's one-iteration operation "
           "list, criterion and continuation ids (id_manager.last_used_ids read from the continuation file)"]
ASSUMPTIONS = ["dateutil / the isinstance branches behind parse_date and parse_datetimespec are functions of the "
               "key for keys that do not read the clock (Section variables parse_d / parse_dt; instantiated per "
               "case with the values observed in the fresh processes)",
               "the file system and the import system are functions of (directory, name) during a case (Section "
               "variables read_file / load_plugin; instantiated with the files the harness puts under the case root)",
               "the clock is an input of a run (env); `now` values are only located in the time window of a run",
               "the model's proc record lists every location that survives a run: NOT proved, audited on every "
               "run by the state-diff walker (state kept inside third-party libraries is audited only at the "
               "curated locations: Faker's shared random generators and global seed, jinja2 / faker / dateutil / "
               "yaml memo tables)",
               "an embedding application that reuses its SnowfakeryApplication object is OUTSIDE the independence "
               "theorems (hypothesis e_new_app = true \\/ same p_app): open finding C19-app-object-reused",
               "C19_uid_values_distinct relies on C13's value pipeline (UniqueId.v)"]
EXHAUSTIVE = {"quick": False, "thorough": False}

F_ALPHA = "C19-K5-alpha-codes-repeat-across-runs"
F_APP = "C19-app-object-reused"
LOCAL_PLUGINS = {"c19_plug": "Doubler", "c19_bad": "Broken"}     # module -> class, under other/plugins

CSV_TEXT = "a,b\n1,x\n2,y\n3,z\n4,w\n5,v\n"
PLUGIN_TEXT = ("from snowfakery import SnowfakeryPlugin\n\n\nclass Doubler(SnowfakeryPlugin):\n"
               "    class Functions:\n        def double(self, x):\n            return int(x) * 2\n")
BAD_PLUGIN_TEXT = "raise ValueError('this plugin module cannot be imported')\n"
PLUGIN_RECIPE = "- plugin: c19_plug.Doubler\n- object: T\n  count: 2\n  fields:\n    n: ${{Doubler.double(id + 20)}}\n"
CSV_OTHER = "a,b\n91,ox\n92,oy\n93,oz\n"        # data.csv of the OTHER directory
SHARED_OPTS = {"pid": 7}          # a non-empty options dict owned by the embedding application

# =============================================================================== state walker
_SCALARS = (type(None), bool, int, float, complex, str, bytes, datetime.date, datetime.time,
            datetime.timedelta, datetime.tzinfo, decimal.Decimal, pathlib.PurePath, re.Pattern, enum.Enum,
            range, frozenset)
_SKIP_MODULE_KEYS = {"__builtins__", "__cached__", "__spec__", "__loader__", "__doc__", "__file__", "__path__",
                     "__package__", "__name__"}
_SKIP_CLASS_KEYS = {"__dict__", "__weakref__", "__doc__", "__module__", "__qualname__", "__annotations__",
                    "__abstractmethods__", "_abc_impl", "__slots__", "__parameters__", "__orig_bases__",
                    "__match_args__", "__firstlineno__", "__static_attributes__"}
PREFIX = "snowfakery"


def _h(s):
    return hashlib.sha256(s.encode("utf-8", "replace")).hexdigest()[:12]


def _is_sf_class(cls):
    if not isinstance(cls, type):
        return False
    m = getattr(cls, "__module__", "")
    return isinstance(m, str) and m.split(".")[0] == PREFIX


_LRU_TYPE = type(functools.lru_cache()(lambda: None))


def _all_sf_classes():
    """every live class defined in a snowfakery.* module (object.__subclasses__ closure)"""
    out, seen, todo = [], set(), [object]
    while todo:
        c = todo.pop()
        try:
            subs = type.__subclasses__(c)
        except Exception:
            continue
        for s in subs:
            if id(s) in seen:
                continue
            seen.add(id(s))
            todo.append(s)
            if _is_sf_class(s):
                out.append(s)
    return sorted(out, key=lambda c: (c.__module__, c.__qualname__))


def _umask():
    m = os.umask(0)
    os.umask(m)
    return oct(m)


def _is_lru(v):
    # by type, never by hasattr: objects of the package may answer any attribute (PluginResult)
    return isinstance(v, _LRU_TYPE)


class Walker:
    """Fingerprints of every location reachable from the snowfakery.* modules."""

    def fp(self, v, depth=0, stack=()):
        if isinstance(v, _SCALARS):
            r = repr(v)
            return type(v).__name__ + ":" + (r if len(r) < 60 else _h(r))
        if id(v) in stack or depth > 6:
            return "<cycle/deep>"
        stack = stack + (id(v),)
        if isinstance(v, (list, tuple, collections.deque)):
            return type(v).__name__ + "[" + ",".join(self.fp(x, depth + 1, stack) for x in v) + "]"
        if isinstance(v, set):
            return "set{" + ",".join(sorted(self.fp(x, depth + 1, stack) for x in v)) + "}"
        if isinstance(v, collections.ChainMap):
            return "ChainMap" + self.fp(v.maps, depth + 1, stack)
        if isinstance(v, (dict, types.MappingProxyType)):
            items = sorted((self.fp(k, depth + 1, stack), self.fp(x, depth + 1, stack)) for k, x in list(v.items()))
            return type(v).__name__ + "{" + ",".join(a + "=" + b for a, b in items) + "}"
        if isinstance(v, itertools.count):
            return repr(v)
        if isinstance(v, random.Random):
            return "Random:" + _h(repr(v.getstate()))
        if isinstance(v, contextvars.ContextVar):
            try:
                x = v.get()
                return "ContextVar(set:%s@%x)" % (type(x).__name__, id(x))
            except LookupError:
                return "ContextVar(unset)"
        if _is_lru(v):
            ci = v.cache_info()
            return "lru(currsize=%d,misses=%d)" % (ci.currsize, ci.misses)
        if isinstance(v, (types.FunctionType, types.BuiltinFunctionType, types.MethodType, type, types.ModuleType,
                          staticmethod, classmethod, property, functools.partial)):
            return "ref:" + type(v).__name__ + ":" + str(getattr(v, "__qualname__", getattr(v, "__name__", "?")))
        if _is_sf_class(type(v)):
            parts = []
            try:
                d = object.__getattribute__(v, "__dict__")
            except Exception:
                d = None
            if isinstance(d, dict):
                for k in sorted(d, key=str):
                    parts.append(str(k) + "=" + self.fp(d[k], depth + 1, stack))
            for cls in type(v).__mro__:
                for s in vars(cls).get("__slots__", ()) or ():
                    if isinstance(s, str) and s not in ("__dict__", "__weakref__"):
                        try:
                            x = object.__getattribute__(v, s)
                        except Exception:
                            continue
                        parts.append(s + "=" + self.fp(x, depth + 1, stack))
            return "obj:" + type(v).__qualname__ + "(" + ",".join(parts) + ")"
        return "foreign:%s.%s@%x" % (type(v).__module__, type(v).__qualname__, id(v))

    def add(self, loc, v):
        try:
            f = self.fp(v)
        except Exception as e:      # an object that cannot be inspected still has an identity
            f = "uninspectable:%s:%s@%x" % (type(e).__name__, type(v).__name__, id(v))
        self.locs[loc] = f if len(f) <= 80 else _h(f)

    def walk_function(self, loc, f, seen):
        if id(f) in seen:
            return
        seen.add(id(f))
        if _is_lru(f):
            self.add(loc + ".<lru_cache>", f)
            f = f.__wrapped__
        f = getattr(f, "__func__", f)
        if not isinstance(f, types.FunctionType):
            return
        for i, d in enumerate(f.__defaults__ or ()):
            self.add(f"{loc}.__defaults__[{i}]", d)
        for k, d in (f.__kwdefaults__ or {}).items():
            self.add(f"{loc}.__kwdefaults__[{k}]", d)
        if f.__closure__:
            for name, cell in zip(f.__code__.co_freevars, f.__closure__):
                try:
                    c = cell.cell_contents
                except ValueError:
                    self.locs[f"{loc}.<closure:{name}>"] = "<empty>"
                    continue
                self.add(f"{loc}.<closure:{name}>", c)
                if isinstance(c, types.FunctionType) or _is_lru(c):
                    self.walk_function(f"{loc}.<closure:{name}>", c, seen)
        for k, x in sorted(f.__dict__.items()):
            if k == "__wrapped__":
                self.walk_function(loc + ".__wrapped__", x, seen)
            else:
                self.add(f"{loc}.<attr:{k}>", x)

    def walk_class(self, loc, cls, seen):
        if id(cls) in seen:
            return
        seen.add(id(cls))
        for k, v in sorted(vars(cls).items(), key=lambda kv: kv[0]):
            if k not in _SKIP_CLASS_KEYS:
                self.walk_value(f"{loc}.{k}", v, seen)

    def walk_value(self, loc, v, seen):
        if isinstance(v, types.ModuleType):
            return
        if isinstance(v, type):
            if _is_sf_class(v):
                self.walk_class(loc, v, seen)
            else:
                self.locs[loc] = "ref:type:" + v.__qualname__
            return
        if isinstance(v, property):
            for nm in ("fget", "fset", "fdel"):
                g = getattr(v, nm)
                if g is not None:
                    self.walk_function(f"{loc}.{nm}", g, seen)
            return
        if isinstance(v, (types.FunctionType, staticmethod, classmethod)) or _is_lru(v):
            self.add(loc, v)
            self.walk_function(loc, v, seen)
            return
        self.add(loc, v)

    def snapshot(self):
        self.locs = {}
        seen = set()
        mods = sorted(n for n in list(sys.modules) if n == PREFIX or n.startswith(PREFIX + "."))
        for mn in mods:
            m = sys.modules.get(mn)
            if m is None:
                continue
            for k, v in sorted(vars(m).items()):
                if k in _SKIP_MODULE_KEYS:
                    continue
                if isinstance(v, (types.FunctionType, type)) and getattr(v, "__module__", None) != mn:
                    continue        # defined elsewhere: walked at its home
                self.walk_value(f"{mn}:{k}", v, seen)
        # every live class of the package, however it is (not) reachable from a module namespace: local
        # classes, classes whose module attribute was rebound, nested classes (class-level dicts / lists /
        # sets / counters are fingerprinted by content: a class attribute is process state)
        for cls in _all_sf_classes():
            if id(cls) not in seen:
                # identified by the object: the next run may make another class of the same name
                self.walk_class(f"{cls.__module__}:<class {cls.__qualname__}@{id(cls):x}>", cls, seen)
        # every context variable that has a value in the current context (whoever holds the ContextVar)
        try:
            decimal.getcontext()        # creates the thread's default decimal context if it is not there yet
            for var, val in contextvars.copy_context().items():
                if _is_sf_class(type(val)):
                    self.locs[f"<process>:contextvar:{var.name}"] = "set:%s@%x" % (type(val).__name__, id(val))
                else:
                    self.locs[f"<process>:contextvar:{var.name}"] = "foreign:" + _h(repr(val))
        except Exception:
            pass
        self.third_party()
        # process-level locations outside the package that Snowfakery code touches
        self.locs["<process>:cwd"] = os.getcwd()
        self.locs["<process>:sys.path"] = _h(repr(sys.path))
        self.locs["<process>:os.environ"] = _h(repr(sorted(os.environ.items())))
        self.locs["<process>:recursionlimit"] = str(sys.getrecursionlimit())
        self.locs["<process>:decimal.context"] = _h(repr(decimal.getcontext()))
        try:
            import locale
            self.locs["<process>:locale"] = str(locale.setlocale(locale.LC_ALL))
        except Exception:
            self.locs["<process>:locale"] = "?"
        import warnings
        self.locs["<process>:warnings.filters"] = _h(repr([(f[0], str(f[1]), str(f[2]), str(f[3]), f[4])
                                                           for f in warnings.filters]))
        import threading
        import logging
        self.locs["<process>:threads"] = str(threading.active_count())
        self.locs["<process>:std streams"] = "%x/%x/%x" % (id(sys.stdin), id(sys.stdout), id(sys.stderr))
        self.locs["<process>:sys.meta_path"] = _h(repr([type(x).__name__ if not isinstance(x, type) else x.__name__
                                                         for x in sys.meta_path]))
        self.locs["<process>:sys.path_hooks"] = str(len(sys.path_hooks))
        self.locs["<process>:logging.root"] = "%s/%d/%s" % (logging.root.level, len(logging.root.handlers),
                                                            logging.root.manager.disable)
        self.locs["<process>:tempfile.tempdir"] = repr(tempfile.tempdir)
        try:
            self.locs["<process>:umask"] = _umask()
        except Exception:
            pass
        return {"mods": mods, "locs": dict(self.locs)}

    def third_party(self):
        """Curated module-level state of the libraries a run goes through (locations that exist in the
        installed versions only; a missing name is skipped)."""
        def get(modname, *path):
            m = sys.modules.get(modname)
            for a in path:
                if m is None:
                    return None
                m = getattr(m, a, None)
            return m
        g = get("faker.generator", "Generator")
        if g is not None:
            self.locs["<faker>:Generator._global_seed"] = _h(repr(getattr(g, "_global_seed", None)))
            self.locs["<faker>:Generator._is_seeded"] = repr(getattr(g, "_is_seeded", None))
        for nm in ("random", "mod_random"):
            r = get("faker.generator", nm)
            if isinstance(r, random.Random):
                self.locs[f"<faker>:generator.{nm}"] = "Random:" + _h(repr(r.getstate()))
        fc = get("faker.proxy", "Faker")
        if fc is not None:
            for k, v in sorted(vars(fc).items()):
                if isinstance(v, (dict, list, set)) and not k.startswith("__"):
                    self.locs[f"<faker>:Faker.{k}"] = _h(self.fp(v))
        # memo tables of pure constructors / pure functions: only their growth is recorded
        for modname in ("jinja2.environment", "jinja2.lexer", "jinja2.utils", "jinja2.nativetypes", "jinja2.compiler",
                        "faker.utils.loading", "faker.utils.distribution", "faker.config", "faker.factory",
                        "dateutil.parser._parser", "dateutil.tz.tz", "dateutil.tz._common", "yaml.resolver",
                        "yaml.constructor", "yaml.representer"):
            m = sys.modules.get(modname)
            if m is None:
                continue
            for k, v in sorted(vars(m).items()):
                try:
                    if _is_lru(v):
                        ci = v.cache_info()
                        self.locs[f"<memo>:{modname}.{k}"] = "lru(currsize=%d)" % ci.currsize
                    elif k.startswith("_") and k.endswith("cache") and hasattr(v, "__len__"):
                        self.locs[f"<memo>:{modname}.{k}"] = "len=%d" % len(v)
                except Exception:
                    continue


# locations of the model's `proc` record (coq/theories/Isolation.v)
MODELLED = [
    (re.compile(r"^snowfakery\.standard_plugins\.UniqueId:UniqueNumericIdGenerator\.context_uniqifier$"), "p_uid"),
    (re.compile(r"^snowfakery\.template_funcs:(parse_date|_parse_date_text)(\.<lru_cache>)?$"), "p_dates"),
    (re.compile(r"^snowfakery\.template_funcs:(_parse_datetimespec|_parse_datetime_text)(\.<lru_cache>)?$"), "p_dts"),
    (re.compile(r"^snowfakery\.utils\.scrambled_numbers:(mask_for_key|randomizer)(\.<lru_cache>)?$"), "p_masks"),
    (re.compile(r"^snowfakery\.[A-Za-z_.]+:RowHistoryCV$"), "p_rowhist"),
    (re.compile(r"^<process>:contextvar:RowHistory$"), "p_rowhist"),
]
# justified whitelist: not run state
WHITELIST = [
    (re.compile(r"__warningregistry__"), "warnings registry"),
    (re.compile(r"\.yaml_(multi_)?representers$"), "yaml representer registry (filled when a plugin module is imported)"),
    (re.compile(r"\.__slotnames__$"), "copyreg slot-name memo put on a class when an instance is first pickled "
                                      "(a function of the class definition)"),
    (re.compile(r"^<memo>:"), "third-party memo table of a pure constructor / function keyed by all its arguments "
                              "(jinja2 lexer and spontaneous-environment caches, faker / dateutil / yaml lru caches)"),
]
# third-party random generators: may only move when the recipe calls random functions
RANDOM_LOCS = re.compile(r"^<faker>:generator\.(random|mod_random)$")


def classify_changes(before, after):
    """-> (modelled {field: n}, whitelisted {reason: n}, unmodelled [[loc, before, after]])"""
    modelled, white, unmodelled = collections.Counter(), collections.Counter(), []
    old_mods = set(before["mods"])
    a, b = before["locs"], after["locs"]
    if before["mods"] != after["mods"]:
        white["import cache (sys.modules)"] += 1
    for loc in sorted(set(a) | set(b)):
        if a.get(loc) == b.get(loc):
            continue
        mn = loc.split(":", 1)[0]
        if mn not in old_mods and not mn.startswith("<"):
            white["module imported during the run"] += 1
            continue
        if ":<class " in loc and (loc not in a or loc not in b):
            # a class object that no module namespace leads to (a function-local class, made by a run
            # for its own objects) appeared or was collected; a change INSIDE a surviving one is reported
            white["function-local class object created / collected during the run"] += 1
            continue
        for rx, name in MODELLED:
            if rx.search(loc):
                modelled[name] += 1
                break
        else:
            for rx, why in WHITELIST:
                if rx.search(loc):
                    white[why] += 1
                    break
            else:
                unmodelled.append([loc, a.get(loc), b.get(loc)])
    return dict(modelled), dict(white), unmodelled


# =============================================================================== process-programs
DATE_KEYS = [("s", "2020-01-05", True), ("s", "2021-02-03", True), ("s", "March 4, 2019", True),
             ("d", "2020-01-05", True), ("d", "2022-12-31", True),
             ("s", "garbage", False), ("s", "2020-13-45", False)]
DT_KEYS = [("s", "2020-01-05T10:00:00", True), ("s", "2021-02-03 04:05:06+02:00", True),
           ("d", "2020-01-05T10:00:00", True), ("s", "2020-01-05", True),
           ("s", "now", True), ("s", "now", True), ("s", "today", True),
           ("s", "-30d", True), ("s", "+1y", True), ("s", "-1w+2h", True),
           ("s", "not a time", False)]
COUNTER_NAMES = {"foo": (5, 2), "bar": (1, 1), "baz": (10, 10)}
TABLES = ["A", "B", "C", "P"]


_REL = re.compile(r"([+-]\d+y)?([+-]\d+M)?([+-]\d+w)?([+-]\d+d)?([+-]\d+h)?([+-]\d+m)?([+-]\d+s)?", re.ASCII)


def clock_kind(tag, key):
    """keys parse_datetimespec answers from the clock (never cached): now | today | rel | None"""
    if tag != "s":
        return None
    if key in ("now", "today"):
        return key
    if key and _REL.fullmatch(key):
        return "rel"
    return None


def rel_offset(key):
    """offset of a relative spec as the code computes it (Faker's own _parse_timedelta)"""
    try:
        from faker.providers.date_time import Provider
        return datetime.timedelta(seconds=Provider._parse_timedelta(key))
    except Exception:
        return None


def model_key(tag, key):
    return key if tag == "s" else "d:" + key


def boundary_key(rid):
    return "2020-01-%02dT%02d:00:00" % (rid % 28 + 1, rid // 28)


def gen_prog(rng, fail_p=0.22, weights=None):
    w = dict(lit=2, idplus=2, uid=3, puid=1.5, alpha=1.5, date=3, datetime=3, dtbetween=1.2, counter=3,
             datecounter=1.2, lazy=1.2, version=1, dsrel=0.7)
    if weights:
        w.update(weights)
    kinds, ws = zip(*w.items())
    nt = rng.randint(1, 3)
    templates = []
    for ti in range(nt):
        table = rng.choice(TABLES)
        fields = []
        for fi in range(rng.randint(0, 4)):
            k = rng.choices(kinds, ws)[0]
            if k == "lit":
                fields.append(["lit", rng.choice([0, 1, 5, 42])])
            elif k == "idplus":
                fields.append(["idplus", rng.randint(1, 9)])
            elif k in ("uid", "puid", "alpha", "version"):
                fields.append([k])
            elif k == "date":
                tag, key, valid = rng.choice(DATE_KEYS[:5] if rng.random() < 0.9 else DATE_KEYS)
                fields.append(["date", tag, key, valid])
            elif k in ("datetime", "dtbetween"):
                tag, key, valid = rng.choice([x for x in DT_KEYS if x[2]] if rng.random() < 0.9 else DT_KEYS)
                fields.append([k, tag, key, valid])
            elif k == "counter":
                if rng.random() < 0.55:
                    name = rng.choice(sorted(COUNTER_NAMES))
                    fields.append(["counter", name, *COUNTER_NAMES[name]])
                else:
                    fields.append(["counter", None, rng.choice([1, 5, 100]), rng.choice([1, 2, 10])])
            elif k == "datecounter":
                tag, key, valid = rng.choice([x for x in DATE_KEYS if x[0] == "s" and x[2]])
                fields.append(["datecounter", key])
            elif k == "dsrel":
                fields.append(["dsrel", rng.choice(["data.csv"] * 6 + ["no_such_file.csv", "data.txt"])])
            elif k == "lazy":
                prev = [t for t in templates if t["count"] >= 1 and t["table"] != table]
                if prev:
                    tgt = rng.choice(prev)
                    if not any(f[0] == "tag" for f in tgt["fields"]):
                        tgt["fields"].append(["tag", rng.randint(100, 999)])
                    tag = next(f[1] for f in tgt["fields"] if f[0] == "tag")
                    # every template of that table must carry the same tag (a random row is loaded)
                    for t in templates:
                        if t["table"] == tgt["table"]:
                            t["fields"] = [f for f in t["fields"] if f[0] != "tag"] + [["tag", tag]]
                    fields.append(["lazy", tgt["table"], tag])
        templates.append({"table": table, "count": rng.choice([1, 1, 2, 2, 3, 0]), "fields": fields})
        if rng.random() < 0.3:          # `count: ${{n<ti>}}` with the count as the option's default
            templates[-1]["count_opt"] = f"n{ti}"
    # a template that repeats an earlier table must agree on its tag, else the lazy load is ambiguous
    tags = {}
    for t in templates:
        for f in t["fields"]:
            if f[0] == "tag":
                tags[t["table"]] = f[1]
    for t in templates:
        if t["table"] in tags and not any(f[0] == "tag" for f in t["fields"]):
            t["fields"].append(["tag", tags[t["table"]]])
    spec = {"k": "prog", "version": rng.choice([None, None, 2, 3]), "templates": templates,
            "reps": rng.choice([1, 1, 1, 2]), "broken": None, "stop": None}
    if rng.random() < 0.15:         # a recipe FILE in another directory than the working directory
        spec["dir"] = "other"
    if rng.random() < fail_p:
        r = rng.random()
        if r < 0.25:
            spec["broken"] = "parse"
        elif r < 0.4:
            spec["stop"] = "Nope"
        else:
            t = rng.choice(templates)
            t["count"] = max(t["count"], 2)
            kind = rng.choice(["failat", "failat", "name", "baddate"])
            f = {"failat": ["failat", rng.randint(1, t["count"])], "name": ["fail", "name"],
                 "baddate": ["date", "s", "garbage", False]}[kind]
            t["fields"].insert(rng.randint(0, len(t["fields"])), f)
    return spec


def gen_boundary_prog(n=520):
    """one more distinct key than the cache holds ... and a second pass over the first keys"""
    return {"k": "prog", "version": None, "reps": 1, "broken": None, "stop": None,
            "templates": [{"table": "A", "count": n, "fields": [["dtf"]]},
                          {"table": "B", "count": 3, "fields": [["dtf"], ["datetime", "s", "now", True]]}]}


def _field_names(t):
    out = []
    for i, f in enumerate(t["fields"]):
        if f[0] == "tag":
            out.append(("tag", f))
        elif f[0] == "lazy":
            out.append((f"f{i}r", ["lazyref", f[1]]))
            out.append((f"f{i}", f))
        else:
            out.append((f"f{i}", f))
    return out


def prog_counts(spec, user_options=None):
    """count of every template in one run: a template with `count_opt` takes it from that recipe option
    (`count: ${{name}}`), whose value is the job's user option or else the declared default"""
    uo = user_options or {}
    out = []
    for t in spec["templates"]:
        if t.get("count_opt"):
            v = uo.get(t["count_opt"], t["count"])
            out.append(v if isinstance(v, int) and not isinstance(v, bool) and v >= 0 else 0)
        else:
            out.append(t["count"])
    return out


def prog_tables(spec):
    return sorted({t["table"] for t in spec["templates"]})


def prog_yaml(spec):
    L = []
    if spec.get("version"):
        L.append(f"- snowfakery_version: {spec['version']}")
    for t in spec["templates"]:
        if t.get("count_opt"):
            L.append(f"- option: {t['count_opt']}")
            L.append(f"  default: {t['count']}")
    kinds = {f[0] for t in spec["templates"] for f in t["fields"]}
    if kinds & {"counter", "datecounter"}:
        L.append("- plugin: snowfakery.standard_plugins.Counters")
    if "puid" in kinds:
        L.append("- plugin: snowfakery.standard_plugins.UniqueId")
    if "dsrel" in kinds:
        L.append("- plugin: snowfakery.standard_plugins.datasets.Dataset")
    for m in spec.get("plugins") or []:
        L.append(f"- plugin: {m}.{LOCAL_PLUGINS[m]}")
    for ti, t in enumerate(spec["templates"]):
        L.append(f"- object: {t['table']}")
        L.append(f"  count: ${{{{{t['count_opt']}}}}}" if t.get("count_opt") else f"  count: {t['count']}")
        if spec.get("broken") == "parse" and ti == len(spec["templates"]) - 1:
            L.append("  bogus_key: 1")
        names = _field_names(t)
        if names:
            L.append("  fields:")
        for name, f in names:
            k = f[0]
            if k in ("lit", "tag"):
                L.append(f"    {name}: {f[1]}")
            elif k == "idplus":
                L.append(f"    {name}: ${{{{id + {f[1]}}}}}")
            elif k == "uid":
                L.append(f"    {name}: ${{{{unique_id}}}}")
            elif k == "puid":
                L.append(f"    {name}: ${{{{UniqueId.unique_id}}}}")
            elif k == "alpha":
                L.append(f"    {name}: ${{{{unique_alpha_code}}}}")
            elif k in ("date", "datetime"):
                q = '"' if f[1] == "s" else ""
                L.append(f"    {name}:")
                L.append(f"      {k}: {q}{f[2]}{q}")
            elif k == "dtbetween":          # both bounds are the same spec: two calls of parse_datetimespec
                q = '"' if f[1] == "s" else ""
                L.append(f"    {name}:")
                L.append("      datetime_between:")
                L.append(f"        start_date: {q}{f[2]}{q}")
                L.append(f"        end_date: {q}{f[2]}{q}")
            elif k == "dtf":
                L.append(f"    {name}:")
                L.append("      datetime: \"2020-01-${{'%02d' % (id % 28 + 1)}}T${{'%02d' % (id // 28)}}:00:00\"")
            elif k == "counter":
                L.append(f"    {name}:")
                L.append("      Counters.NumberCounter:")
                L.append(f"        start: {f[2]}")
                L.append(f"        step: {f[3]}")
                if f[1]:
                    L.append(f"        name: {f[1]}")
            elif k == "datecounter":
                L.append(f"    {name}:")
                L.append("      Counters.DateCounter:")
                L.append(f"        start_date: \"{f[1]}\"")
                L.append("        step: +1d")
            elif k == "lazyref":
                L.append(f"    {name}:")
                L.append(f"      random_reference: {f[1]}")
            elif k == "lazy":
                L.append(f"    {name}: ${{{{{name}r.tag}}}}")
            elif k == "version":
                L.append(f"    {name}: ${{{{ none }}}}")
            elif k == "dsrel":          # a relative dataset path; the first column of the row tells the file
                L.append(f"    __{name}:")
                L.append("      Dataset.iterate:")
                L.append(f"        dataset: {f[1]}")
                L.append(f"    {name}: ${{{{__{name}.a}}}}")
            elif k == "plug":           # a function of a local plugin (pure)
                L.append(f"    {name}: ${{{{Doubler.double(id + 20)}}}}")
            elif k == "failat":
                L.append(f"    {name}: ${{{{ 1 // ({f[1]} - id) }}}}")
            elif k == "fail":
                L.append(f"    {name}: ${{{{ nosuchname + 1 }}}}")
            else:
                raise ValueError(k)
    return "\n".join(L) + "\n"


def job_of(spec):
    return spec.get("job") or {}


def prog_body(spec):
    """rows of ONE iteration of the job: [(table, ti, [(field name, field spec)])]"""
    counts = prog_counts(spec, job_of(spec).get("user_options"))
    rows = []
    for ti, t in enumerate(spec["templates"]):
        for _j in range(counts[ti]):
            rows.append((t["table"], ti, _field_names(t)))
    return rows


def prog_static(spec):
    """True when the job is one iteration from known ids (no continuation, no target): row ids are
    known before the run (needed by `dtf`, whose key is computed from the id)"""
    j = job_of(spec)
    return not j.get("cont_in") and not j.get("target") and spec.get("reps", 1) == 1


def prog_has_dtf(spec):
    return any(f[0] == "dtf" for t in spec["templates"] for f in t["fields"])


def field_ops(ti, name, f, rid=None):
    """model operations of one field evaluation (list of Coq terms); iteration-independent except dtf"""
    k = f[0]
    if k == "uid":
        return ["(OUid SlotNum)"]
    if k == "puid":
        return ["(OUid SlotPluginNum)"]
    if k == "alpha":
        return ["(OUid SlotAlpha)"]
    if k == "date":
        return [f"(ODate {C.cstr(model_key(f[1], f[2]))})"]
    if k == "datetime":
        return [f"(ODatetime {C.cstr(model_key(f[1], f[2]))})"]
    if k == "dtbetween":
        return [f"(ODatetime {C.cstr(model_key(f[1], f[2]))})"] * 2
    if k == "dtf":
        return [f"(ODatetime {C.cstr(boundary_key(rid))})"]
    if k == "counter":
        nm = f[1] or f"site_{ti}_{name}"
        return [f"(OCounter {C.cstr(nm)} {C.cz(f[2])} {C.cz(f[3])})"]
    if k == "datecounter":
        return [f"(ODateOnce {C.cstr(f'dc_{ti}_{name}')} {C.cstr(f[1])})"]
    if k == "lazy":
        return [f"(OLazy {C.cstr(f[1])})"]
    if k == "version":
        return ["OVersion"]
    if k == "failat":
        return None         # needs the table: see body_ops
    if k == "fail":
        return ['(OFail (DGE ""))']
    if k == "dsrel":
        return [f"(ODataset {C.cstr(f'ds_{ti}_{name}')} {C.cstr(f[1])})"]
    return []


def body_ops(spec):
    """the operations of one iteration, as Coq terms"""
    ops = []
    last = collections.Counter()
    for table, ti, fields in prog_body(spec):
        last[table] += 1
        ops.append(f"(ORow {C.cstr(table)})")
        for name, f in fields:
            if f[0] == "failat":
                ops.append(f"(OFailAt {C.cstr(table)} {C.cz(f[1])})")
            else:
                ops.extend(field_ops(ti, name, f, last[table]))
    return ops


def prog_rows(spec, nrows):
    """field specs of the first `nrows` rows the job delivers: the body repeated (delivered rows are a
    prefix of the iterations written out)"""
    body = prog_body(spec)
    if not body:
        return []
    out = []
    while len(out) < nrows:
        out.extend(body)
    return out[:nrows]


def prog_features(spec):
    fs = {f[0] for t in spec["templates"] for f in t["fields"]}
    out = set(fs)
    for t in spec["templates"]:
        for f in t["fields"]:
            if f[0] == "counter" and f[1]:
                out.add("named_counter")
            if f[0] in ("datetime", "dtbetween") and clock_kind(f[1], f[2]):
                out.add("clock_" + clock_kind(f[1], f[2]))
            if f[0] in ("date", "datetime", "dtbetween") and not f[3]:
                out.add("bad_key")
    if spec.get("broken"):
        out.add("parse_failure")
    if spec.get("stop"):
        out.add("init_failure")
    if spec.get("reps", 1) > 1:
        out.add("two_iterations")
    if any(t.get("count_opt") for t in spec["templates"]):
        out.add("count_from_option")
    if spec.get("plugins"):
        out.add("local_plugin")
    if spec.get("dir"):
        out.add("recipe_file")
    return out


# =============================================================================== hand-written plugin recipes
def yaml_pool():
    P = []

    def add(name, text, random_fields=(), reps=1, feats=()):
        P.append({"k": "yaml", "name": name, "text": text, "random_fields": list(random_fields), "reps": reps,
                  "features": list(feats)})

    for nm in ("", "        name: ds\n"):
        add("dataset_iterate" + ("_named" if nm else ""),
            "- plugin: snowfakery.standard_plugins.datasets.Dataset\n- object: D\n  count: 3\n  fields:\n"
            "    __row:\n      Dataset.iterate:\n        dataset: \"@CSV@\"\n" + nm +
            "    a: ${{__row.a}}\n    b: ${{__row.b}}\n", feats=["dataset"])
    add("dataset_iterate_2reps",
        "- plugin: snowfakery.standard_plugins.datasets.Dataset\n- object: D\n  count: 2\n  fields:\n"
        "    __row:\n      Dataset.iterate:\n        dataset: \"@CSV@\"\n        name: ds\n"
        "    a: ${{__row.a}}\n", reps=2, feats=["dataset"])
    add("dataset_shuffle",
        "- plugin: snowfakery.standard_plugins.datasets.Dataset\n- object: D\n  count: 3\n  fields:\n"
        "    __row:\n      Dataset.shuffle:\n        dataset: \"@CSV@\"\n    a: ${{__row.a}}\n",
        random_fields=["a"], feats=["dataset", "random"])
    add("dataset_missing",
        "- plugin: snowfakery.standard_plugins.datasets.Dataset\n- object: D\n  fields:\n"
        "    __row:\n      Dataset.iterate:\n        dataset: \"@CSV@.missing.csv\"\n    a: ${{__row.a}}\n",
        feats=["dataset", "fails"])
    rel = ("- plugin: snowfakery.standard_plugins.datasets.Dataset\n- object: D\n  count: 2\n  fields:\n"
           "    __row:\n      Dataset.iterate:\n        dataset: %s\n    a: ${{__row.a}}\n    b: ${{__row.b}}\n")
    # relative dataset paths: a stream recipe resolves them against the working directory, a recipe FILE
    # against its own directory (datasets.chdir)
    add("dataset_rel_stream", rel % "data.csv", feats=["dataset", "relative_path"])
    add("dataset_rel_file_work", rel % "data.csv", feats=["dataset", "relative_path", "recipe_file"])
    P[-1]["dir"] = "work"
    add("dataset_rel_file_other", rel % "data.csv", feats=["dataset", "relative_path", "recipe_file"])
    P[-1]["dir"] = "other"
    add("dataset_missing_file_other", rel % "no_such_file.csv", feats=["dataset", "relative_path", "recipe_file", "fails"])
    P[-1]["dir"] = "other"
    add("dataset_bad_extension_file_other", rel % "data.txt", feats=["dataset", "relative_path", "recipe_file", "fails"])
    P[-1]["dir"] = "other"
    add("dataset_bad_table_file_other", rel % "\"sqlite:///nodb.db\"\n        table: nope",
        feats=["dataset", "relative_path", "recipe_file", "fails"])
    P[-1]["dir"] = "other"
    sql = ("- plugin: snowfakery.standard_plugins.datasets.Dataset\n- object: D\n  count: 2\n  fields:\n"
           "    __row:\n      Dataset.iterate:\n        dataset: sqlite:///people.db\n        table: people\n"
           "    name: ${{__row.name}}\n")
    # the same relative database URL means another file for a recipe in another directory
    add("dataset_sql_rel_stream", sql, feats=["dataset", "relative_path", "sql_dataset"])
    add("dataset_sql_rel_file_other", sql, feats=["dataset", "relative_path", "sql_dataset", "recipe_file"])
    P[-1]["dir"] = "other"
    add("dataset_sql_rel_file_work", sql, feats=["dataset", "relative_path", "sql_dataset", "recipe_file"])
    P[-1]["dir"] = "work"

    def settings(region, n):
        return (f"- var: region\n  value: {region}\n- var: n\n  value: {n}\n- macro: m\n  fields:\n"
                "    source: ${{region}}-import\n")
    job = ("- include_file: %s\n- object: Contact\n  count: ${{n}}\n  include: m\n  fields:\n    region: ${{region}}\n")
    for ver, (region, n) in (("v1", ("EMEA", 2)), ("v2", ("APAC", 3))):
        # one level: a recipe FILE in `other` includes other/settings.yml, which the application rewrites per job
        add("include_file_" + ver, job % "settings.yml", feats=["include_file", "recipe_file", "rewritten_file"])
        P[-1].update(dir="other", file_name="job.recipe.yml", files={"other/settings.yml": settings(region, n)})
        # a stream recipe includes work/settings.yml (relative to the working directory)
        add("include_stream_" + ver, job % "settings.yml", feats=["include_file", "rewritten_file"])
        P[-1].update(files={"work/settings.yml": settings(region, n)})
        # two levels: job -> level1.yml -> sub/level2.yml; only the innermost file is rewritten
        add("include_two_levels_" + ver, job % "level1.yml", feats=["include_file", "recipe_file", "rewritten_file"])
        P[-1].update(dir="other", file_name="job2.recipe.yml",
                     files={"other/level1.yml": "- include_file: sub/level2.yml\n- var: unused\n  value: 1\n",
                            "other/sub/level2.yml": settings(region, n)})
        # the dataset CSV is rewritten at the same path
        add("dataset_rewritten_" + ver, rel % "data.csv", feats=["dataset", "relative_path", "rewritten_file"])
        P[-1].update(files={"work/data.csv": "a,b\n%s1,p\n%s2,q\n" % (n, n)})
        # the main recipe itself, run by path, is rewritten at the same path
        add("main_by_path_" + ver, "- object: M\n  count: %d\n  fields:\n    region: %s\n" % (n, region),
            feats=["recipe_file", "rewritten_file"])
        P[-1].update(dir="other", file_name="main.recipe.yml")
    add("include_file_missing", job % "no_such_settings.yml", feats=["include_file", "fails"])
    add("random_reference_unique",
        "- object: P\n  count: 4\n  fields:\n    tag: ${{id * 10}}\n- object: Q\n  count: 4\n  fields:\n"
        "    r:\n      random_reference:\n        to: P\n        unique: true\n", random_fields=["r"],
        feats=["random_reference_unique", "random"])
    add("random_reference_unique_exhausted",
        "- object: P\n  count: 2\n- object: Q\n  count: 3\n  fields:\n"
        "    r:\n      random_reference:\n        to: P\n        unique: true\n", random_fields=["r"],
        feats=["random_reference_unique", "random", "fails"])
    add("random_reference_nick",
        "- object: P\n  nickname: pp\n  count: 3\n  fields:\n    tag: 7\n- object: Q\n  count: 2\n  fields:\n"
        "    r:\n      random_reference: pp\n    t: ${{r.tag}}\n", random_fields=["r"], feats=["row_history", "random"])
    add("nick_var",
        "- var: base\n  value: 100\n- object: A\n  nickname: first\n  fields:\n    x: ${{base + id}}\n"
        "- object: B\n  count: 2\n  fields:\n    a:\n      reference: first\n    y: ${{first.x + 1}}\n",
        feats=["nickname", "variable"])
    add("nick_var_other_meaning",
        "- var: base\n  value: 7\n- object: B\n  nickname: first\n  count: 2\n  fields:\n    x: ${{base * id}}\n"
        "- object: A\n  fields:\n    a:\n      reference: first\n    y: ${{first.x}}\n", feats=["nickname", "variable"])
    add("just_once_nick",
        "- object: A\n  just_once: true\n  nickname: first\n  fields:\n    x: 5\n- object: B\n  fields:\n"
        "    a:\n      reference: first\n", reps=2, feats=["nickname", "just_once"])
    add("uses_first_only", "- object: B\n  fields:\n    y: ${{first.x}}\n", feats=["nickname", "fails"])
    add("uses_table_A_only", "- object: B\n  fields:\n    y: ${{A.x}}\n    r:\n      reference: A\n",
        feats=["nickname", "fails"])
    add("uses_undefined_names",
        "- object: B\n  fields:\n    y: ${{first.x + base}}\n", feats=["nickname", "variable", "fails"])
    add("forward_ref",
        "- object: A\n  fields:\n    b:\n      reference: bb\n- object: B\n  nickname: bb\n  fields:\n    k: ${{id}}\n",
        feats=["nickname"])
    add("forward_ref_unfilled",
        "- object: A\n  fields:\n    b:\n      reference: bb\n- object: B\n  fields:\n    k: 1\n", feats=["fails"])
    add("just_once_2reps",
        "- object: J\n  just_once: true\n  fields:\n    k: 1\n- object: K\n  fields:\n    j:\n      reference: J\n",
        reps=2, feats=["just_once"])
    add("counter_parent",
        "- plugin: snowfakery.standard_plugins.Counters\n- object: Par\n  count: 2\n  friends:\n"
        "    - object: Ch\n      count: 2\n      fields:\n        n:\n          Counters.NumberCounter:\n"
        "            parent: Par\n", feats=["memoised_plugin_value"])
    add("counter_named_in_var",
        "- plugin: snowfakery.standard_plugins.Counters\n- var: cnt\n  value:\n    Counters.NumberCounter:\n"
        "      start: 3\n      name: foo\n- object: A\n  count: 3\n  fields:\n    n: ${{cnt.next}}\n",
        feats=["memoised_plugin_value"])
    add("fake", "- object: A\n  count: 2\n  fields:\n    n:\n      fake: first_name\n    s: ${{fake.state}}\n",
        random_fields=["n", "s"], feats=["random"])
    add("random_number",
        "- object: A\n  count: 3\n  fields:\n    n:\n      random_number:\n        min: 1\n        max: 100\n"
        "    c:\n      random_choice:\n        - x\n        - y\n", random_fields=["n", "c"], feats=["random"])
    add("macro_option",
        "- option: size\n  default: 3\n- macro: m\n  fields:\n    s: ${{size}}\n- object: A\n  include: m\n"
        "  fields:\n    t: ${{size * 2}}\n", feats=["option", "macro"])
    # recipes whose reference to a name is only evaluated when the option says so: the first run of a
    # chain (n = 0) never evaluates it, the continued run (n = 1) does - and must not find the name in
    # what an earlier continued run of ANOTHER recipe restored
    add("opt_uses_first", "- option: n\n  default: 0\n- object: K\n  just_once: true\n  fields:\n    k: 1\n"
        "- object: B\n  count: ${{n}}\n  fields:\n    y: ${{first.x}}\n", feats=["nickname", "option"])
    add("opt_uses_table_A", "- option: n\n  default: 0\n- object: K\n  just_once: true\n  fields:\n    k: 1\n"
        "- object: B\n  count: ${{n}}\n  fields:\n    y: ${{A.x}}\n    r:\n      reference: A\n",
        feats=["nickname", "option"])
    add("once_then_many", "- option: n\n  default: 2\n- object: A\n  just_once: true\n  nickname: first\n  fields:\n    x: 5\n"
        "- object: B\n  count: ${{n}}\n  fields:\n    a:\n      reference: first\n    y: ${{first.x + id}}\n",
        feats=["nickname", "just_once", "option"])
    add("broken_yaml", "- object: [\n", feats=["fails"])
    add("not_a_recipe", "- bogus: 1\n", feats=["fails"])
    add("div_zero_second_row", "- object: A\n  count: 3\n  fields:\n    x: ${{ 10 // (2 - id) }}\n", feats=["fails"])
    add("hidden", "- object: __H\n  fields:\n    __x: 1\n    y: 2\n- object: V\n  fields:\n    r:\n      reference: __H\n")
    return P


# =============================================================================== generation
def _wrap_sfcore(rng):
    r, feats = sfcore.gen_recipe(rng)
    return {"k": "sfcore", "recipe": r, "features": feats, "reps": rng.choice([1, 1, 2])}


_TOP_OBJECT = re.compile(r"^- object: ([A-Za-z][A-Za-z0-9_]*)\s*$", re.M)


def spec_tables(spec, csv_path="data.csv"):
    """top-level tables of a recipe (targets of a target_number)"""
    if spec["k"] == "prog":
        return prog_tables(spec)
    try:
        return sorted(set(_TOP_OBJECT.findall(recipe_text(spec, csv_path))))
    except Exception:
        return []


def _with_job(spec, **job):
    c = json.loads(json.dumps(spec))
    j = dict(c.get("job") or {})
    j.update({k: v for k, v in job.items() if v is not None})
    c["job"] = j
    return c


def _option_names(spec):
    if spec["k"] == "prog":
        return [(t["count_opt"], t["table"]) for t in spec["templates"] if t.get("count_opt")]
    return []


def gen_chain(rng, spec, name):
    """the jobs of one continuation chain of a recipe: a run that writes a continuation file, then one
    or two runs that go on from it.  With option-controlled counts the first link may make NO row of a
    table (its continuation file has no entry for it) that the next link makes and is stopped by."""
    opts = _option_names(spec)
    tables = spec_tables(spec)
    links = []
    uo0 = uo1 = None
    target = None
    if opts and rng.random() < 0.7:
        o, t = rng.choice(opts)
        uo0 = {o: 0}
        uo1 = {o: rng.choice([1, 2, 2, 3])}
        if rng.random() < 0.8:
            target = [rng.choice([1, 2, 3, 4]), t]
    elif tables and rng.random() < 0.5:
        target = [rng.choice([1, 2, 3]), rng.choice(tables)]
    links.append(_with_job(spec, cont_out=name, user_options=uo0,
                           target=([rng.choice([1, 2]), rng.choice(tables)] if tables and rng.random() < 0.15 else None)))
    n_more = rng.choice([1, 1, 2])
    prev = name
    for k in range(n_more):
        out = f"{name}_{k + 1}" if (k + 1 < n_more or rng.random() < 0.3) else None
        links.append(_with_job(spec, cont_in=prev, cont_out=out, user_options=uo1 if k == 0 else None,
                               target=target if (k == 0 or rng.random() < 0.4) else None))
        if out is None:
            break
        prev = out
    return links


def gen_seq(rng, pool_yaml, idx=0, tier="quick"):
    n = rng.choice([2, 2, 3, 3, 4, 5, 6])
    style = rng.random()
    recipes = []
    for _ in range(n):
        r = rng.random()
        if style < 0.15:          # process-programs only: dense interaction through proc
            recipes.append(gen_prog(rng))
        elif r < 0.5:
            recipes.append(gen_prog(rng))
        elif r < 0.75:
            recipes.append(_wrap_sfcore(rng))
        else:
            recipes.append(dict(rng.choice(pool_yaml)))
    if rng.random() < 0.5 and n >= 2:      # the same recipe again later in the sequence
        i = rng.randrange(n)
        j = rng.randrange(n)
        if i != j:
            recipes[j] = json.loads(json.dumps(recipes[i]))
    # ---- jobs: continuation chains (interleaved with the other runs and with each other), targets
    chains = rng.choice([0, 0, 1, 1, 2])
    if chains:
        slots = [[r] for r in recipes]
        used = 0
        for c in range(chains):
            base = rng.choice(recipes) if rng.random() < 0.6 else (gen_prog(rng, fail_p=0.05) if rng.random() < 0.7
                                                                    else _wrap_sfcore(rng))
            if base.get("job") or base.get("broken") or base.get("stop"):
                continue
            links = gen_chain(rng, base, f"c{c}")
            pos = sorted(rng.randrange(len(slots) + 1) for _ in links)
            for k, (lk, at) in enumerate(zip(links, pos)):
                slots.insert(min(at + k, len(slots)), [lk])
            used += 1
        recipes = [r for sl in slots for r in sl][:8]
    for k, r in enumerate(recipes):
        if not r.get("job") and not r.get("stop") and rng.random() < 0.12:
            tabs = spec_tables(r)
            if tabs:
                recipes[k] = _with_job(r, target=[rng.choice([1, 2, 3, 4]), rng.choice(tabs)])
        elif not r.get("job") and not r.get("stop") and r.get("reps", 1) == 1 and rng.random() < 0.15:
            recipes[k] = _with_job(r, app="default")
    # a dataset file rewritten by the application and a process-program that reads it by a relative
    # path do not go together (the model's file system is fixed per case)
    if any("data.csv" in rel for r in recipes for rel in (r.get("files") or {})):
        for r in recipes:
            if r["k"] == "prog":
                for t in r["templates"]:
                    t["fields"] = [f for f in t["fields"] if f[0] != "dsrel"]
    all_prog = all(r["k"] == "prog" for r in recipes)
    shared = rng.random() < 0.12 and all(r["k"] in ("prog", "sfcore") for r in recipes)
    if shared and rng.random() < 0.3:
        shared = 3
    spawn_share = 0.08 if tier == "quick" else 0.03
    case = {"kind": "seq", "recipes": recipes, "api": rng.choice(["generate", "generate_data"]),
            "fresh": "spawn" if rng.random() < spawn_share else "fork", "shared_opts": shared,
            "seed": rng.randint(1, 10 ** 6)}
    if all_prog and rng.random() < 0.25:
        # an application that reuses its one SnowfakeryApplication object (finding C19-app-object-reused)
        case["shared_app"] = True
        for k, r in enumerate(recipes):
            if job_of(r).get("app"):
                recipes[k] = _with_job(r, app="own")
    return case


def _directed(rng, pool_yaml):
    """boundaries that are always present"""
    out = []
    Y = {p["name"]: p for p in pool_yaml}

    def seq(recipes, **kw):
        c = {"kind": "seq", "recipes": [json.loads(json.dumps(r)) for r in recipes], "api": "generate",
             "fresh": "fork", "shared_opts": False, "seed": 11}
        c.update(kw)
        return c

    def prog(templates, **kw):
        s = {"k": "prog", "version": None, "templates": templates, "reps": 1, "broken": None, "stop": None}
        s.update(kw)
        return s

    uid_all = prog([{"table": "A", "count": 2, "fields": [["uid"], ["puid"], ["alpha"]]}])
    counters = prog([{"table": "A", "count": 2, "fields": [["counter", "foo", 5, 2], ["counter", None, 1, 1]]},
                     {"table": "B", "count": 2, "fields": [["counter", "foo", 5, 2], ["datecounter", "2020-01-05"]]}], reps=2)
    dates = prog([{"table": "A", "count": 2, "fields": [["date", "s", "2020-01-05", True], ["date", "d", "2020-01-05", True],
                                                        ["datetime", "s", "2020-01-05", True],
                                                        ["datetime", "d", "2020-01-05T10:00:00", True]]}])
    lazy = prog([{"table": "P", "count": 2, "fields": [["tag", 321]]},
                 {"table": "A", "count": 2, "fields": [["lazy", "P", 321]]}])
    lazy2 = prog([{"table": "P", "count": 3, "fields": [["tag", 654]]},
                  {"table": "B", "count": 1, "fields": [["lazy", "P", 654]]}])
    fail_mid = prog([{"table": "A", "count": 3, "fields": [["uid"], ["counter", "foo", 5, 2], ["failat", 2]]}])
    fail_date = prog([{"table": "A", "count": 2, "fields": [["date", "s", "2021-02-03", True], ["date", "s", "garbage", False]]}])
    fail_parse = prog([{"table": "A", "count": 1, "fields": [["uid"]]}], broken="parse")
    fail_init = prog([{"table": "A", "count": 1, "fields": [["uid"]]}], stop="Nope", version=3)
    plain = prog([{"table": "A", "count": 3, "fields": [["lit", 5], ["idplus", 1]]}])
    ver3 = prog([{"table": "A", "count": 1, "fields": [["version"], ["idplus", 2]]}], version=3)
    ver_none = prog([{"table": "A", "count": 1, "fields": [["version"], ["idplus", 2]]}])
    now = prog([{"table": "A", "count": 2, "fields": [["datetime", "s", "now", True]]}])
    today = prog([{"table": "A", "count": 1, "fields": [["datetime", "s", "today", True]]}])
    rel = prog([{"table": "A", "count": 2, "fields": [["datetime", "s", "-30d", True], ["dtbetween", "s", "-30d", True],
                                                      ["datetime", "s", "+1y", True]]}])
    rel2 = prog([{"table": "B", "count": 1, "fields": [["dtbetween", "s", "-1w+2h", True], ["dtbetween", "s", "now", True],
                                                       ["dtbetween", "s", "2020-01-05T10:00:00", True],
                                                       ["datetime", "s", "-30d", True]]}])

    out.append(seq([uid_all, uid_all]))                                     # shortest, same recipe twice
    out.append(seq([uid_all, plain, uid_all, fail_mid, uid_all, uid_all], api="generate_data"))   # longest
    out.append(seq([counters, counters, counters]))
    out.append(seq([dates, dates, fail_date, dates], api="generate_data"))
    out.append(seq([lazy, lazy2, lazy], fresh="spawn"))
    out.append(seq([fail_parse, fail_init, fail_mid, fail_date]))           # every run fails
    out.append(seq([fail_mid, plain]))                                      # first fails
    out.append(seq([plain, fail_mid, plain, fail_parse, plain], fresh="spawn", api="generate_data"))
    out.append(seq([ver3, ver_none, ver3]))                                 # versions without a shared dict
    out.append(seq([ver_none, fail_init, ver_none], shared_opts=True))      # repaired d5304ed: a failing v3 run wrote the dict
    out.append(seq([ver3, ver_none], shared_opts=True, api="generate_data"))  # repaired d5304ed
    out.append(seq([ver_none, ver_none], shared_opts=True))                 # shared dict, nothing written
    out.append(seq([ver_none, ver3, ver_none], shared_opts=3))              # the application itself asks for version 3
    out.append(seq([now, plain, now]))                                      # repaired fc3a5e8: stale clock
    out.append(seq([today, today]))
    out.append(seq([rel, plain, rel, rel2, rel], api="generate_data"))       # bfa3786: relative specs are clock readings
    out.append(seq([rel2, fail_mid, rel2, rel]))
    out.append(seq([Y["dataset_iterate_named"], Y["dataset_iterate_named"], Y["dataset_missing"], Y["dataset_iterate"]]))
    # a run that fails while opening a dataset of a recipe FILE in another directory, then relative paths
    out.append(seq([Y["dataset_rel_stream"], Y["dataset_missing_file_other"], Y["dataset_rel_stream"]], api="generate_data"))
    out.append(seq([Y["dataset_rel_file_other"], Y["dataset_bad_extension_file_other"], Y["dataset_rel_stream"],
                    Y["dataset_rel_file_work"], Y["dataset_rel_file_other"]]))
    out.append(seq([Y["dataset_missing_file_other"], Y["dataset_rel_stream"]], fresh="spawn"))
    out.append(seq([Y["dataset_sql_rel_stream"], Y["dataset_sql_rel_file_other"], Y["dataset_sql_rel_stream"],
                    Y["dataset_sql_rel_file_work"]], api="generate_data"))
    # a plugin that cannot be found from the working directory (the run fails), then the same dotted name
    # from a recipe FILE that has it in its plugins/ directory (directed only: the opposite order depends on
    # Python's own sys.modules cache)
    plug_missing = {"k": "yaml", "name": "local_plugin_not_found_stream", "text": PLUGIN_RECIPE, "random_fields": [],
                    "reps": 1, "features": ["local_plugin", "fails"]}
    plug_found = {"k": "yaml", "name": "local_plugin_file_other", "text": PLUGIN_RECIPE, "random_fields": [],
                  "reps": 1, "features": ["local_plugin", "recipe_file"], "dir": "other"}
    out.append(seq([plug_missing, plug_missing, plug_found], api="generate_data"))
    out.append(seq([plug_missing, plain, plug_found]))
    out.append(seq([Y["dataset_rel_file_other"], Y["dataset_rel_stream"], Y["dataset_rel_file_work"]], api="generate_data"))
    # files rewritten at the same path between two runs (include targets one and two levels deep, the dataset,
    # the main recipe run by path): the later run must see the files as they are then
    out.append(seq([Y["include_file_v1"], Y["include_file_v2"]], api="generate_data"))
    out.append(seq([Y["include_file_v1"], plain, Y["include_file_v2"], Y["include_file_missing"], Y["include_file_v1"]]))
    out.append(seq([Y["include_two_levels_v1"], Y["include_two_levels_v2"], Y["include_two_levels_v1"]]))
    out.append(seq([Y["include_stream_v1"], Y["include_stream_v2"]], fresh="spawn"))
    out.append(seq([Y["dataset_rewritten_v1"], Y["dataset_rewritten_v2"], Y["dataset_rel_stream"]], api="generate_data"))
    out.append(seq([Y["main_by_path_v1"], Y["main_by_path_v2"], Y["main_by_path_v1"]]))
    out.append(seq([Y["nick_var"], Y["uses_undefined_names"], Y["nick_var_other_meaning"], Y["uses_undefined_names"]]))
    out.append(seq([Y["just_once_nick"], Y["uses_first_only"], Y["uses_table_A_only"], Y["nick_var"], Y["uses_first_only"]]))
    out.append(seq([Y["counter_named_in_var"], counters, Y["counter_named_in_var"]]))
    out.append(seq([Y["random_reference_unique"], Y["random_reference_unique_exhausted"], Y["random_reference_unique"]],
                   api="generate_data"))
    out.append(seq([Y["just_once_2reps"], Y["just_once_2reps"]]))
    out.append(seq([Y["forward_ref_unfilled"], Y["forward_ref"], Y["hidden"], Y["macro_option"]]))
    out.append(seq([Y["broken_yaml"], Y["not_a_recipe"], plain]))
    out.append(seq([gen_boundary_prog(520), dates, gen_boundary_prog(30)]))  # lru eviction at 512

    # ---- jobs: continuation files, target numbers, the application object -------------------------
    J = _with_job
    # recipe A makes rows of P in every run; recipe B makes rows of P only when its option says so
    pa = prog([{"table": "P", "count": 3, "fields": [["idplus", 1]]}, {"table": "A", "count": 1, "fields": [["counter", "foo", 5, 2]]}])
    pb = prog([{"table": "C", "count": 1, "fields": [["lit", 5]]},
               {"table": "P", "count": 0, "count_opt": "n1", "fields": [["idplus", 2]]},
               {"table": "B", "count": 1, "fields": [["idplus", 3]]}])
    a0, a1 = J(pa, cont_out="a"), J(pa, cont_in="a", cont_out="a2")
    b0 = J(pb, cont_out="b", user_options={"n1": 0})
    b1 = J(pb, cont_in="b", user_options={"n1": 2}, target=[3, "P"])
    # a continued run of A, then B continued from a file WITHOUT the table A's file had, stopped by that table
    out.append(seq([a0, a1, b0, b1], api="generate_data"))
    out.append(seq([a0, b0, a1, b1]))                                        # interleaved chains
    out.append(seq([b0, a0, a1, J(pa, cont_in="a2"), b1], fresh="spawn"))    # three links of A first
    out.append(seq([a0, a1, J(pb, target=[3, "P"], user_options={"n1": 2})]))  # a FRESH target run after a continued one
    out.append(seq([J(pa, target=[4, "P"]), J(pa, target=[7, "P"], app="own"), J(pa, app="default")], api="generate_data"))
    # no progress towards the target (RuntimeError, not a DataGenError), then ordinary runs
    out.append(seq([J(pb, target=[2, "P"]), pa, J(pb, target=[2, "P"], user_options={"n1": 1})]))
    # uid / counter / date recipes continued: contexts go on, ids go on, counters restart
    out.append(seq([J(uid_all, cont_out="u"), J(counters, cont_out="k"), J(uid_all, cont_in="u", target=[3, "A"]),
                    J(counters, cont_in="k")]))
    # nicknames and just_once rows restored from a continuation file must stay with their own recipe
    out.append(seq([J(Y["just_once_nick"], cont_out="j"), J(Y["just_once_nick"], cont_in="j"),
                    J(Y["opt_uses_first"], cont_out="o"), J(Y["opt_uses_first"], cont_in="o", user_options={"n": 1})]))
    out.append(seq([J(Y["nick_var"], cont_out="j"), J(Y["opt_uses_table_A"], cont_out="o"), J(Y["nick_var"], cont_in="j"),
                    J(Y["opt_uses_table_A"], cont_in="o", user_options={"n": 1})], api="generate_data"))
    out.append(seq([J(Y["once_then_many"], cont_out="m"), J(Y["once_then_many"], cont_in="m", target=[5, "B"]),
                    J(Y["just_once_2reps"], cont_out="q"), J(Y["just_once_2reps"], cont_in="q", cont_out="q2"),
                    J(Y["just_once_2reps"], cont_in="q2")]))
    # the application reuses its one SnowfakeryApplication object (finding C19-app-object-reused)
    two = prog([{"table": "A", "count": 2, "fields": [["idplus", 1]]}], reps=2)
    out.append(seq([two, two], shared_app=True))
    out.append(seq([J(pa, target=[3, "P"]), J(pa, target=[3, "P"])], shared_app=True, api="generate_data"))
    out.append(seq([plain, two, plain], shared_app=True))
    # relative dataset paths of process-programs: stream / recipe FILE / a failure inside `with chdir`
    ds_s = prog([{"table": "A", "count": 2, "fields": [["dsrel", "data.csv"], ["idplus", 1]]}])
    ds_o = prog([{"table": "A", "count": 2, "fields": [["dsrel", "data.csv"]]}], dir="other", reps=2)
    ds_miss = prog([{"table": "A", "count": 1, "fields": [["dsrel", "no_such_file.csv"]]}], dir="other")
    ds_ext = prog([{"table": "A", "count": 1, "fields": [["lit", 1], ["dsrel", "data.txt"]]}], dir="other")
    out.append(seq([ds_s, ds_o, ds_miss, ds_s, ds_ext, ds_s, ds_o]))
    out.append(seq([ds_miss, ds_s], api="generate_data", fresh="spawn"))
    # local plugins of process-programs: not found from a stream (DataGenImportError), a module that
    # raises while it is imported (ValueError: neither normal nor DataGenError), then found from a file
    pl_fields = [{"table": "T", "count": 2, "fields": [["plug"], ["idplus", 1]]}]
    pl_s = prog(pl_fields, plugins=["c19_plug"])
    pl_o = prog(pl_fields, plugins=["c19_plug"], dir="other")
    pl_bad = prog([{"table": "T", "count": 1, "fields": [["lit", 1]]}], plugins=["c19_bad"], dir="other")
    out.append(seq([pl_s, pl_bad, plain, pl_o, pl_o]))
    out.append(seq([pl_bad, ds_s, pl_s], api="generate_data"))
    return out


def generate(rng, tier):
    pool_yaml = yaml_pool()
    cases = _directed(rng, pool_yaml)
    n = 70 if tier == "quick" else 1800
    for i in range(n):
        cases.append(gen_seq(rng, pool_yaml, i, tier))
    return cases


# =============================================================================== implementation side
_WALKER = Walker()
_PRISTINE = None


def recipe_text(spec, csv_path):
    if spec["k"] == "prog":
        return prog_yaml(spec)
    if spec["k"] == "sfcore":
        return sfcore.recipe_yaml(spec["recipe"])
    return spec["text"].replace("@CSV@", csv_path)


def _canon_value(v):
    from snowfakery.object_rows import ObjectRow, ObjectReference
    if isinstance(v, (ObjectRow, ObjectReference)):
        return ["ref", v._tablename, v.id if isinstance(v.id, int) else str(v.id)]
    if isinstance(v, bool):
        return ["bool", v]
    if isinstance(v, int):
        return ["int", v]
    if isinstance(v, str):
        return ["str", v]
    if v is None:
        return ["none"]
    if isinstance(v, datetime.datetime):
        return ["dt", v.isoformat()]
    if isinstance(v, datetime.date):
        return ["date", v.isoformat()]
    if isinstance(v, float):
        return ["float", repr(v)]
    return ["other", type(v).__name__, str(v)[:60]]


def _make_capture():
    from snowfakery.output_streams import OutputStream

    class Capture(OutputStream):
        def __init__(self):
            self.rows = []

        def write_row(self, tablename, row_with_references):
            self.rows.append([tablename, [[k, _canon_value(v)] for k, v in row_with_references.items()]])

        def write_single_row(self, *a):
            pass

        def close(self, **kw):
            return []

    return Capture()


def _json_rows(text):
    rows = []
    try:
        data = json.loads(text) if text.strip() else []
    except ValueError:
        # the run failed in the middle: the JSON array is not closed
        t = text.rstrip().rstrip(",")
        try:
            data = json.loads(t + "]") if t else []
        except ValueError:
            return [["<unparsable json output>", []]]
    for d in data:
        fs = []
        for k, v in d.items():
            if k == "_table":
                continue
            if isinstance(v, bool):
                fs.append([k, ["bool", v]])
            elif isinstance(v, int):
                fs.append([k, ["int", v]])
            elif isinstance(v, str):
                fs.append([k, ["str", v]])
            elif v is None:
                fs.append([k, ["none"]])
            elif isinstance(v, float):
                fs.append([k, ["float", repr(v)]])
            else:
                fs.append([k, ["other", type(v).__name__, str(v)[:60]]])
        rows.append([d.get("_table"), fs])
    return rows


class _RunTimeout(BaseException):
    pass


def base_files():
    """the files every case starts with, relative to its temporary root"""
    fs = {"other/plugins/c19_plug.py": PLUGIN_TEXT, "other/plugins/c19_bad.py": BAD_PLUGIN_TEXT}
    for d, txt in (("work", CSV_TEXT), ("other", CSV_OTHER)):
        for fn in ("data.csv", "data.txt"):
            fs[f"{d}/{fn}"] = txt
    return fs


def _make_dbs(root):
    """work/people.db and other/people.db: the same relative URL sqlite:///people.db, another content"""
    import sqlite3
    for d, names in (("work", ["Ada", "Abe", "Amy"]), ("other", ["Bob", "Bea", "Ben"])):
        path = os.path.join(root, d, "people.db")
        if os.path.exists(path):
            continue
        os.makedirs(os.path.dirname(path), exist_ok=True)
        con = sqlite3.connect(path)
        try:
            con.execute("create table people (id integer primary key, name text)")
            con.executemany("insert into people (name) values (?)", [(n,) for n in names])
            con.commit()
        finally:
            con.close()


def _write_files(root, files):
    for rel, txt in (files or {}).items():
        path = os.path.join(root, rel)
        os.makedirs(os.path.dirname(path), exist_ok=True)
        with open(path, "w") as f:
            f.write(txt)


def _reset_files(root, all_rel):
    """back to the initial files of the case: base files restored, files written by recipes removed"""
    base = base_files()
    for rel in all_rel:
        if rel not in base:
            try:
                os.remove(os.path.join(root, rel))
            except OSError:
                pass
    _write_files(root, base)
    _make_dbs(root)


def _recipe_file_rel(spec):
    return f"{spec['dir']}/{spec.get('file_name') or spec.get('name', 'r') + '.recipe.yml'}"


def _recipe_source(spec, text, root):
    """None for a stream recipe, else the path of the recipe FILE (written into its directory).
    Before the run the files the application (re)writes for this job are put in place: spec["files"]."""
    if root:
        _write_files(root, spec.get("files"))
    if not spec.get("dir") or not root:
        return None
    path = os.path.join(root, _recipe_file_rel(spec))
    with open(path, "w") as f:
        f.write(text)
    return path


def criterion_of(spec):
    """(tablename | None, n): the stopping criterion of the job"""
    job = job_of(spec)
    if spec.get("stop"):
        return (spec["stop"], 1)
    if job.get("target"):
        return (job["target"][1], job["target"][0])
    return (None, spec.get("reps", 1))


def _cont_ids(text):
    """id_manager.last_used_ids of a continuation file (None when it cannot be read)"""
    try:
        import yaml
        d = yaml.safe_load(text)
        ids = d["id_manager"]["last_used_ids"]
        if all(isinstance(k, str) and isinstance(v, int) and not isinstance(v, bool) for k, v in ids.items()):
            return {k: v for k, v in ids.items()}
    except Exception:
        pass
    return None


def _canon_cont(text):
    """what a continuation file says, without the date it was written on"""
    try:
        import yaml
        d = yaml.safe_load(text)
    except Exception:
        return None
    if not isinstance(d, dict):
        return None

    def canon(v):
        if isinstance(v, dict):
            return {str(k): canon(x) for k, x in sorted(v.items(), key=lambda kv: str(kv[0]))}
        if isinstance(v, (list, tuple)):
            return [canon(x) for x in v]
        if isinstance(v, (bool, int, str)) or v is None:
            return v
        return [type(v).__name__, str(v)]
    return canon({k: v for k, v in d.items() if k != "today"})


def _one_run(spec, api, opts, seed, csv_path, root=None, conts=None, shared_app=None):
    """-> dict(rows, err, random generator untouched?, cont_out text, cont_in used?, app view)"""
    from snowfakery.api import SnowfakeryApplication, generate_data
    from snowfakery.data_generator import generate
    from snowfakery.data_generator_runtime import StoppingCriteria
    text = recipe_text(spec, csv_path)
    job = job_of(spec)
    conts = conts if conts is not None else {}
    table, n = criterion_of(spec)
    crit = StoppingCriteria(table if table is not None else "__REPS__", n)
    app_mode = job.get("app", "own")
    if shared_app is not None:
        # an application that keeps ONE SnowfakeryApplication object for all its jobs and sets the
        # criterion of the job on it
        if shared_app.get("obj") is None:
            shared_app["obj"] = SnowfakeryApplication(crit)
            shared_app["obj"].echo = lambda *a, **k: None
        app = shared_app["obj"]
        app.stopping_criteria = crit
    elif app_mode == "default" and table is None and n == 1:
        app = None                                              # generate / generate_data make their own
    else:
        app = SnowfakeryApplication(crit)
        app.echo = lambda *a, **k: None
    user_options = dict(job.get("user_options") or {})
    cont_text = conts.get(job.get("cont_in")) if job.get("cont_in") else None
    path = _recipe_source(spec, text, root)
    random.seed(seed)
    r0 = _h(repr(random.getstate()))
    err = None
    cont_out = None
    if api == "generate":
        cap = _make_capture()
        src = open(path) if path else io.StringIO(text)
        cfile = io.StringIO(cont_text) if cont_text is not None else None
        ofile = io.StringIO() if job.get("cont_out") else None
        try:
            generate(src, user_options, cap, app, plugin_options=opts, continuation_file=cfile,
                     generate_continuation_file=ofile)
            if ofile is not None:
                cont_out = ofile.getvalue()
        except _RunTimeout:
            err = "HANG"
        except BaseException as e:
            err = C.canon_exc(e)
        finally:
            src.close()
        rows = cap.rows
    else:
        out = io.StringIO()
        kw = {}
        cdir = os.path.join(root, "conts") if root else None
        if cont_text is not None:
            if cdir:
                os.makedirs(cdir, exist_ok=True)
                kw["continuation_file"] = os.path.join(cdir, "in.yml")
                with open(kw["continuation_file"], "w") as f:
                    f.write(cont_text)
            else:
                kw["continuation_file"] = io.StringIO(cont_text)
        opath = None
        if job.get("cont_out"):
            if cdir:
                os.makedirs(cdir, exist_ok=True)
                opath = os.path.join(cdir, "out.yml")
                kw["generate_continuation_file"] = opath
            else:
                kw["generate_continuation_file"] = io.StringIO()
        if app is not None:
            kw["parent_application"] = app
        try:
            generate_data(path or io.StringIO(text), output_format="json", output_file=out, plugin_options=opts,
                          user_options=user_options, **kw)
            if job.get("cont_out"):
                if opath:
                    with open(opath) as f:
                        cont_out = f.read()
                else:
                    cont_out = kw["generate_continuation_file"].getvalue()
        except _RunTimeout:
            err = "HANG"
        except BaseException as e:
            err = C.canon_exc(e)
        rows = _json_rows(out.getvalue())
    if job.get("cont_out"):
        conts[job["cont_out"]] = cont_out if (err is None and cont_out) else None
    appv = None
    if app is not None:
        try:
            rc, st = app.rep_count, app.starting_id
            if isinstance(rc, int) and isinstance(st, int):
                appv = [rc, st]
        except Exception:
            appv = None
    return {"rows": rows, "err": err, "rnd_same": _h(repr(random.getstate())) == r0,
            "cont_out": conts.get(job["cont_out"]) if job.get("cont_out") else None,
            "cont_in": cont_text, "app": appv}


def _view(opts, root=None, path0=None):
    import snowfakery.template_funcs as tf
    from snowfakery.standard_plugins.UniqueId import UniqueNumericIdGenerator as G
    from snowfakery.object_rows import RowHistoryCV
    v = {}
    try:
        m = re.fullmatch(r"count\((\d+)\)", repr(G.context_uniqifier))
        v["uid"] = int(m.group(1)) if m else None
    except Exception:
        v["uid"] = None
    # the text-keyed caches behind parse_date / parse_datetimespec (since /repo f9811a2 only text is
    # cached; before it the public functions themselves carried the cache)
    for nm, fns in (("dates", ("_parse_date_text", "parse_date")), ("dts", ("_parse_datetime_text", "_parse_datetimespec"))):
        v[nm] = None
        for fn in fns:
            try:
                ci = getattr(tf, fn).cache_info()
                v[nm] = [ci.currsize, ci.misses]
                break
            except Exception:
                continue
    try:
        x = RowHistoryCV.get(None)
        v["cv_set"] = x is not None
        v["cv_id"] = id(x) if x is not None else 0
    except Exception:
        v["cv_set"] = None
        v["cv_id"] = 0
    v["app_ver"] = (opts or {}).get("snowfakery_version") if isinstance(opts, dict) else None

    def rel(path):
        if root:
            a, r = os.path.realpath(path), os.path.realpath(root)
            if a == r or a.startswith(r + os.sep):
                return os.path.relpath(a, r)
        return path
    v["cwd"] = rel(os.getcwd())
    if path0 is not None:
        # sys.path relative to what it was when the process started its first run: the old entries
        # must still be there, in order; what was added is listed
        cur = list(sys.path)
        if cur[:len(path0)] == path0:
            v["path"] = [rel(x) for x in cur[len(path0):]]
        else:
            v["path"] = ["<changed>"] + [rel(x) for x in cur if x not in path0]
    else:
        v["path"] = []
    v["modules"] = sorted(m for m in LOCAL_PLUGINS if m in sys.modules)
    return v


def _uses_random(spec):
    if spec["k"] == "prog":
        return any(f[0] in ("lazy", "dtbetween") for t in spec["templates"] for f in t["fields"])
    if spec["k"] == "yaml":
        return "random" in spec.get("features", []) or bool(spec.get("random_fields"))
    return False


def run_many(payload):
    """Runs in a pristine process.  payload: specs, api, shared, seed, csv, audit, conts."""
    def on_alarm(signum, frame):
        raise _RunTimeout()
    signal.signal(signal.SIGALRM, on_alarm)
    root = payload.get("root")
    if root:
        # files as they were when this (part of the) sequence starts: the initial files, then what the
        # application wrote for the earlier jobs (`prewrite`: those jobs are NOT run in this process)
        _reset_files(root, payload.get("all_files", []))
        for sp in payload.get("prewrite", []):
            _write_files(root, sp.get("files"))
            if sp.get("dir"):
                _write_files(root, {_recipe_file_rel(sp): recipe_text(sp, payload["csv"])})
        os.chdir(os.path.join(root, "work"))     # the application's working directory
    opts = None
    if payload["shared"]:
        opts = dict(SHARED_OPTS)
        if payload["shared"] == 3:
            opts["snowfakery_version"] = 3      # the application itself asks for native types
    out = []
    w = Walker()
    path0 = list(sys.path)
    prev_cv = _view(opts)["cv_id"]
    after = None
    conts = dict(payload.get("conts") or {})     # continuation files the application kept from earlier jobs
    shared_app = {"obj": None} if payload.get("shared_app") else None
    for spec in payload["specs"]:
        before = (after or w.snapshot()) if payload["audit"] else None
        t0 = datetime.datetime.now(datetime.timezone.utc).isoformat()
        signal.alarm(30)
        try:
            r = _one_run(spec, payload["api"], opts, payload["seed"], payload["csv"], root, conts, shared_app)
        except _RunTimeout:
            r = {"rows": [], "err": "HANG", "rnd_same": True, "cont_out": None, "cont_in": None, "app": None}
        finally:
            signal.alarm(0)
        t1 = datetime.datetime.now(datetime.timezone.utc).isoformat()
        rnd_same = r.pop("rnd_same")
        o = dict(r, t0=t0, t1=t1, random_state_untouched=rnd_same)
        v = _view(opts, root, path0)
        v["cv_changed"] = v["cv_id"] != prev_cv
        prev_cv = v.pop("cv_id")
        v["app"] = r["app"]
        o["view"] = v
        if payload["audit"]:
            after = w.snapshot()
            m, wl, un = classify_changes(before, after)
            uses_rnd = _uses_random(spec)
            keep = []
            for u in un:
                if RANDOM_LOCS.search(u[0]) and uses_rnd:
                    wl["third-party random generator advanced by a recipe that calls random functions"] = 1
                else:
                    keep.append(u)
            un = keep
            if not rnd_same:
                # the global random generator is re-seeded by the harness before every run; a recipe
                # without random functions must not draw from it
                if uses_rnd:
                    wl["global random generator advanced by a recipe that calls random functions"] = 1
                else:
                    un.append(["<process>:random.getstate()", "as seeded", "advanced by a recipe without random functions"])
            o["audit"] = {"modelled": m, "whitelisted": wl, "unmodelled": un[:12], "locations": len(after["locs"])}
        out.append(o)
    return out


def _spawn_main():
    """entry point of a spawned pristine interpreter: payload on stdin, result on the original stdout"""
    real = os.dup(1)
    os.dup2(2, 1)
    C.impl_env()
    payload = json.loads(sys.stdin.read())
    try:
        res = {"ok": run_many(payload)}
    except BaseException as e:      # surfaced as a harness error by the caller
        import traceback
        res = {"child_error": f"{type(e).__name__}: {e}", "tb": traceback.format_exc()[-1200:]}
    with os.fdopen(real, "w") as f:
        f.write(json.dumps(res))


def _spawn(payload):
    env = dict(os.environ)
    env["PYTHONPATH"] = f"{C.REPO}:{C.VERIF}"
    env["PYTHONHASHSEED"] = "0"
    env[C.GUARD] = "1"
    env["SFV_REPO"] = str(C.REPO)
    p = subprocess.run([sys.executable, "-c", "from harness import c19; c19._spawn_main()"],
                       input=json.dumps(payload), capture_output=True, text=True, env=env, cwd=str(C.VERIF))
    if p.returncode != 0 or not p.stdout.strip():
        raise RuntimeError(f"spawned run failed rc={p.returncode}: {p.stderr[-800:]}")
    res = json.loads(p.stdout)
    if "child_error" in res:
        raise RuntimeError("spawned run: " + res["child_error"] + "\n" + res.get("tb", ""))
    return res["ok"]


def _fork(payload):
    r, w = os.pipe()
    pid = os.fork()
    if pid == 0:
        code = 0
        try:
            os.close(r)
            signal.alarm(0)
            try:
                res = {"ok": run_many(payload)}
            except BaseException as e:
                import traceback
                res = {"child_error": f"{type(e).__name__}: {e}", "tb": traceback.format_exc()[-1200:]}
            with os.fdopen(w, "wb") as f:
                f.write(json.dumps(res).encode())
        except BaseException:
            code = 3
        finally:
            os._exit(code)
    os.close(w)
    try:
        with os.fdopen(r, "rb") as f:
            data = f.read()
    finally:
        try:
            os.kill(pid, signal.SIGKILL)
        except ProcessLookupError:
            pass
        try:
            os.waitpid(pid, 0)
        except ChildProcessError:
            pass
    if not data:
        raise RuntimeError("forked run died without a result")
    res = json.loads(data)
    if "child_error" in res:
        raise RuntimeError("forked run: " + res["child_error"] + "\n" + res.get("tb", ""))
    return res["ok"]


def _pristine_ok():
    """The pool worker may serve as the template of pristine processes only while it has never
    changed since import (it never runs a recipe itself)."""
    global _PRISTINE
    snap = _WALKER.snapshot()
    if _PRISTINE is None:
        v = _view(None)
        if v["uid"] != 1 or v["dates"] != [0, 0] or v["dts"] != [0, 0] or v["cv_set"]:
            return False
        _PRISTINE = snap
        return True
    return snap == _PRISTINE


def run_impl(case):
    mode = case.get("fresh", "fork")
    if mode == "fork" and not _pristine_ok():
        mode = "spawn"
    launch = _fork if mode == "fork" else _spawn
    tmp = tempfile.mkdtemp(prefix="sfv_c19_", dir="/var/tmp")
    try:
        # <tmp>/work = the application's working directory, <tmp>/other = where recipe FILES of the
        # "other" kind live; both hold a data.csv with different content
        _write_files(tmp, base_files())     # incl. a local plugin next to the recipe files of `other`
        all_files = sorted({rel for sp in case["recipes"] for rel in (sp.get("files") or {})} |
                           {_recipe_file_rel(sp) for sp in case["recipes"] if sp.get("dir")})
        csv_path = os.path.join(tmp, "work", "data.csv")
        base = {"api": case.get("api", "generate"), "shared": case.get("shared_opts") or False,
                "shared_app": bool(case.get("shared_app")),
                "seed": case.get("seed", 1), "csv": csv_path, "root": tmp, "all_files": all_files}
        seq = launch(dict(base, specs=case["recipes"], audit=True))
        fresh = []
        conts = {}
        for i, spec in enumerate(case["recipes"]):
            # alone in a fresh process, on the files as they are when run i starts - the continuation
            # files the earlier jobs of the sequence left behind included (they are inputs of run i)
            fresh.append(launch(dict(base, specs=[spec], prewrite=case["recipes"][:i], audit=False,
                                     conts=dict(conts)))[0])
            name = job_of(spec).get("cont_out")
            if name:
                conts[name] = seq[i].get("cont_out")
        return {"seq": seq, "fresh": fresh, "mode": mode}
    finally:
        import shutil
        shutil.rmtree(tmp, ignore_errors=True)


# =============================================================================== decoding
def _decode_num(v):
    from snowfakery.utils.scrambled_numbers import unscramble_number
    s = str(unscramble_number(int(v)))
    parts = [int(x, 8) for x in s.split("9")]
    return parts if len(parts) in (1, 2) else None     # [context, index], or [index] (template `index`)


def _decode_alpha(code):
    from baseconv import BaseConverter
    n = int(BaseConverter(string.digits + string.ascii_uppercase).decode(code))
    return _decode_num(n)


def decode_uid(kind, val):
    """-> [ctx, idx], [idx] (the text carries no context) or None"""
    try:
        if kind in ("uid", "puid") and val[0] == "int":
            return _decode_num(val[1])
        if kind == "alpha" and val[0] == "str":
            return _decode_alpha(val[1])
        if kind == "alpha" and val[0] == "int":       # native types may turn an all-digit code into a number
            return _decode_alpha(str(val[1]))
    except Exception:
        return None
    return None


def _parse_dt(val):
    try:
        if val[0] in ("dt", "str"):
            return datetime.datetime.fromisoformat(val[1])
    except Exception:
        return None
    return None


def _window(val, windows, offset=None):
    """1-based index of the run whose time window contains the datetime value (minus the offset of
    a relative spec), 0 = none"""
    d = _parse_dt(val)
    if d is None:
        return 0
    if offset is not None:
        d = d - offset
    for j, (a, b) in enumerate(windows):
        if a <= d <= b:
            return j + 1
    return 0


def _windows(runs):
    return [(datetime.datetime.fromisoformat(r["t0"]), datetime.datetime.fromisoformat(r["t1"])) for r in runs]


# =============================================================================== model side
def _row_fields(spec, row, trow):
    """align an observed row with the unrolled trace row; None if it is another row"""
    table, fs = row
    if table != trow[0]:
        return None
    d = dict((k, v) for k, v in fs)
    return d


class _Codes:
    def __init__(self):
        self.by_value = {}

    def code(self, v):
        k = json.dumps(v, sort_keys=True)
        if k not in self.by_value:
            self.by_value[k] = 100 + len(self.by_value)
        return self.by_value[k]

    def lookup(self, v):
        return self.by_value.get(json.dumps(v, sort_keys=True), 0)


def _obs_terms(spec, rows, codes, windows, learn, dtab, dttab):
    """Coq obs list for the complete rows delivered by a process-program run.
    learn=True (fresh run): assign value codes and fill the parse tables."""
    trace = prog_rows(spec, len(rows))
    out = []
    made = set()                      # memo sites already created in this run (DateCounter, Dataset)
    for k, row in enumerate(rows):
        if k >= len(trace):
            out.append("(BVal (-7))")           # more rows than the program can make: forces a mismatch
            continue
        ttable, ti, tfields = trace[k]
        d = dict((n, v) for n, v in row[1]) if row[0] == ttable else None
        if d is None or not (d.get("id") and d["id"][0] == "int"):
            out.append("(BVal (-8))")
            continue
        out.append(f"(BId {C.cstr(ttable)} {C.cz(d['id'][1])})")
        for name, f in tfields:
            kind = f[0]
            if kind in ("lit", "idplus", "tag", "lazyref", "failat", "fail", "plug"):
                continue
            if kind in ("datecounter", "dsrel"):
                if (ti, name) in made:
                    continue
                made.add((ti, name))
            v = d.get(name)
            if v is None:
                out.append("(BVal (-9))")
                continue
            if kind in ("uid", "puid", "alpha"):
                ci = decode_uid(kind, v)
                slot = {"uid": "SlotNum", "puid": "SlotPluginNum", "alpha": "SlotAlpha"}[kind]
                if ci and len(ci) == 2:
                    out.append(f"(BUid {slot} {C.cz(ci[0])} {C.cz(ci[1])})")
                elif ci and kind == "alpha":
                    out.append(f"(BUidIdx {slot} {C.cz(ci[0])})")
                else:
                    out.append(f"(BUid {slot} (-1) (-1))")
            elif kind in ("date", "datecounter"):
                key = model_key(f[1], f[2]) if kind == "date" else f[1]
                if learn:
                    dtab.setdefault(key, codes.code(["date", v]))
                    out.append(f"(BVal {dtab[key]})")
                else:
                    out.append(f"(BVal {codes.lookup(['date', v])})")
            elif kind in ("datetime", "dtf", "dtbetween"):
                ck = clock_kind(f[1], f[2]) if kind != "dtf" else None
                if ck in ("now", "rel"):
                    t = f"(BVal {_window(v, windows, rel_offset(f[2]) if ck == 'rel' else None)})"
                elif ck == "today":
                    t = "(BVal 0)"
                else:
                    key = boundary_key(d["id"][1]) if kind == "dtf" else model_key(f[1], f[2])
                    if learn:
                        dttab.setdefault(key, codes.code(["dt", v]))
                        t = f"(BVal {dttab[key]})"
                    else:
                        t = f"(BVal {codes.lookup(['dt', v])})"
                out.extend([t, t] if kind == "dtbetween" else [t])
            elif kind == "counter":
                nm = f[1] or f"site_{ti}_{name}"
                out.append(f"(BCount {C.cstr(nm)} {C.cz(v[1])})" if v[0] == "int" else "(BVal (-10))")
            elif kind == "lazy":
                out.append("BLazy" if v == ["int", f[2]] else "(BVal (-11))")
            elif kind == "version":
                out.append("(BVersion 3)" if v == ["none"] else "(BVersion 2)" if v == ["str", "None"] else "(BVal (-12))")
            elif kind == "dsrel":
                try:        # first column of the first row read: tells which file was opened
                    out.append(f"(BVal {C.cz(int(v[1]))})")
                except Exception:
                    out.append("(BVal (-14))")
            else:
                out.append("(BVal (-13))")
    return out


def _crit_term(spec):
    table, n = criterion_of(spec)
    return f"(CReps {C.cz(n)})" if table is None else f"(CTable {C.cstr(table)} {C.cz(n)})"


def _cont_term(run):
    """the continuation file the run was given, as the model's r_cont; "skip" when it cannot be read"""
    text = run.get("cont_in")
    if text is None:
        return "None"
    ids = _cont_ids(text)
    if ids is None:
        return "skip"
    return "(Some " + C.clist(C.cpair(C.cstr(k), C.cz(v)) for k, v in sorted(ids.items())) + ")"


def _recipe_term(spec, fresh, run):
    """-> (term, opaque) or (None, _) when the job cannot be expressed"""
    cont = _cont_term(run)
    if cont == "skip":
        return None, True
    dirt = C.copt(spec.get("dir"), C.cstr)
    if spec["k"] == "prog":
        opaque = prog_has_dtf(spec) and not prog_static(spec)
        stage = "SParseFail" if spec.get("broken") == "parse" else "SExec"
        ver = spec.get("version")
        plugins = C.clist(C.cstr(m) for m in (spec.get("plugins") or []))
        return (f"(mkRecipe {stage} {C.copt(ver, C.cz)} {C.clist(body_ops(spec))} {_crit_term(spec)} {cont} "
                f"{C.clist(C.cstr(t) for t in prog_tables(spec))} {dirt} {plugins})"), opaque
    # opaque: whether it reaches Interpreter.execute is read from the fresh process
    stage = "SExec" if fresh["view"].get("cv_changed") else "SParseFail"
    ver = spec["recipe"]["version"] if spec["k"] == "sfcore" else None
    # the criterion of an opaque job is only used for the application object's counters: keep the
    # table known to the model whenever the run got as far as execute
    table, n = criterion_of(spec)
    tables = C.clist([C.cstr(table)] if table is not None else [])
    text = spec.get("text", "") if spec["k"] == "yaml" else ""
    plugins = C.clist(C.cstr(m) for m in LOCAL_PLUGINS if re.search(r"^- plugin: %s\." % re.escape(m), text, re.M))
    return (f"(mkRecipe {stage} {C.copt(ver, C.cz)} [] {_crit_term(spec)} {cont} {tables} {dirt} {plugins})"), True


def _view_term(v, opaque):
    if v.get("uid") is None or v.get("dates") is None or v.get("dts") is None or v.get("cv_set") is None:
        return None
    av = v.get("app_ver")
    if av is not None and not isinstance(av, int):
        return None
    if not isinstance(v.get("cwd"), str) or not isinstance(v.get("path"), list):
        return None
    app = v.get("app")
    # the counters of the application object are predicted for process-programs only (an opaque job's
    # iterations are not modelled)
    appt = "None" if (opaque or not app) else f"(Some ({C.cz(app[0])}, {C.cz(app[1])}))"
    return (f"(mkView {C.cz(v['uid'])} {C.cz(v['dates'][0])} {C.cz(v['dates'][1])} {C.cz(v['dts'][0])} "
            f"{C.cz(v['dts'][1])} {C.cbool(v['cv_set'])} {C.cbool(v['cv_changed'])} {C.copt(av, C.cz)} "
            f"{C.cstr(v['cwd'])} {C.clist(C.cstr(x) for x in v['path'])} "
            f"{C.clist(C.cstr(x) for x in v.get('modules', []))} {appt})")


# files and plugin modules the harness puts under the root of a case (base_files): what the model's
# file system / import system answer.  First column of the first row identifies a CSV.
FTAB = {"work/data.csv": 1, "other/data.csv": 91, "work/data.txt": None, "other/data.txt": None}
PTAB = {"other/plugins/c19_plug": True, "other/plugins/c19_bad": False}


def coq_case(case, obs):
    if not isinstance(obs, dict) or "seq" not in obs:
        return None
    seq, fresh = obs["seq"], obs["fresh"]
    codes = _Codes()
    dtab, dttab = {}, {}
    # 1. learn parse results from the fresh processes
    for spec, fr in zip(case["recipes"], fresh):
        if spec["k"] == "prog":
            _obs_terms(spec, fr["rows"], codes, _windows([fr]), True, dtab, dttab)
    # keys never evaluated successfully: valid ones get a placeholder, invalid ones raise
    extra = 900
    for spec in case["recipes"]:
        if spec["k"] != "prog":
            continue
        last = collections.Counter()
        for table, ti, fields in prog_body(spec):
            last[table] += 1
            for _name, f in fields:
                if f[0] == "date":
                    key, tab, valid = model_key(f[1], f[2]), dtab, f[3]
                elif f[0] == "datecounter":
                    key, tab, valid = f[1], dtab, True
                elif f[0] in ("datetime", "dtbetween") and not clock_kind(f[1], f[2]):
                    key, tab, valid = model_key(f[1], f[2]), dttab, f[3]
                elif f[0] == "dtf":
                    key, tab, valid = boundary_key(last[table]), dttab, True
                else:
                    continue
                if not valid:
                    tab[key] = None
                elif key not in tab:
                    extra += 1
                    tab[key] = extra
    windows = _windows(seq)
    runs = []
    shared_app = bool(case.get("shared_app"))
    for i, (spec, sq, fr) in enumerate(zip(case["recipes"], seq, fresh)):
        rt, opaque = _recipe_term(spec, fr, sq)
        if rt is None:
            return None         # the continuation file is not in the shape the harness knows
        if shared_app and opaque:
            return None         # the counters on the shared object after an unmodelled job are unknown
        vt = _view_term(sq["view"], opaque)
        if vt is None:
            return None         # private names the view reads are gone: nothing to compare
        env = (f"(mkEnv {i + 1} 0 {'(Some 3)' if case.get('shared_opts') == 3 else 'None'} "
               f"{C.cbool(not shared_app)})")
        if opaque:
            ob = "[]"
        else:
            ob = C.clist(_obs_terms(spec, sq["rows"], codes, windows, False, dtab, dttab))
        err = "None" if sq["err"] is None else f"(Some {C.cerr(sq['err'])})"
        runs.append(f"(mkRunCase {env} {rt} {C.cbool(opaque)} {ob} {err} {vt})")
    unmodelled = sorted({u[0] for sq in seq for u in sq.get("audit", {}).get("unmodelled", [])})

    def tab_term(tab):
        return C.clist(C.cpair(C.cstr(k), C.copt(v, C.cz)) for k, v in sorted(tab.items()))

    ptab = C.clist(C.cpair(C.cstr(k), C.cbool(v)) for k, v in sorted(PTAB.items()))
    return (f"CSeq {tab_term(dtab)} {tab_term(dttab)} {tab_term(FTAB)} {ptab} "
            f"{C.clist(C.cstr(u[:200]) for u in unmodelled)} {C.clist(runs)}")


# =============================================================================== property oracle
def _kind_class(f):
    k = f[0]
    if k in ("uid", "puid", "alpha"):
        return k
    if k == "lazyref":
        return "random"
    if k in ("datetime", "dtbetween") and clock_kind(f[1], f[2]) in ("now", "rel"):
        return "now"
    if k in ("datetime", "dtbetween") and clock_kind(f[1], f[2]) == "today":
        return "today"
    return "exact"


def _row_classes(spec, nrows):
    """per delivered row (index k): (table, {field name: (class, field spec)}).  Process-programs: from the
    iterations written out (delivered rows are a prefix of them); other recipes: by field name."""
    if spec["k"] == "prog":
        return [(table, {name: (_kind_class(f), f) for name, f in fields}) for table, _ti, fields in prog_rows(spec, nrows)]
    return None


def _class_of(spec, rowcls, k, table, name):
    if rowcls is not None:
        if k < len(rowcls) and rowcls[k][0] == table and name in rowcls[k][1]:
            return rowcls[k][1][name]
        return ("exact", None)
    if spec["k"] == "yaml" and name in spec.get("random_fields", []):
        return ("random", None)
    return ("exact", None)


def _shape(v):
    return [v[0], v[1]] if v and v[0] == "ref" else [v[0]] if v else None


def analyse(case, obs):
    """-> dict(leaks=[msg], stale=[msg], opts=[msg], alpha=[msg])"""
    res = {"leaks": [], "stale": [], "opts": [], "alpha": [], "app": []}
    seq, fresh = obs["seq"], obs["fresh"]
    shared_app = bool(case.get("shared_app"))
    windows = _windows(seq)
    uids = {}
    max_ctx_before = 0
    for i, (spec, sq, fr) in enumerate(zip(case["recipes"], seq, fresh)):
        rowcls = _row_classes(spec, max(len(sq["rows"]), len(fr["rows"])))
        tag = f"run {i + 1}/{len(seq)} ({spec.get('name') or spec['k']})"
        # a shared options dict that an earlier run wrote a version into
        preset = 3 if case.get("shared_opts") == 3 else None
        tainted = bool(case.get("shared_opts") and spec["k"] == "prog" and not spec.get("version") and i > 0
                       and seq[i - 1]["view"].get("app_ver") != preset)
        bucket_default = "leaks"
        job = job_of(spec)
        if job:
            tag += " job " + json.dumps({k: v for k, v in job.items() if v is not None}, sort_keys=True)
        # the application passes its one SnowfakeryApplication object again (its counters of the earlier
        # runs are the only thing that may explain another number of iterations / the no-progress error)
        reused = shared_app and i > 0
        count_bucket = res["opts"] if tainted else res["app"] if reused else res["leaks"]
        if sq["err"] != fr["err"]:
            (count_bucket if (not reused or {sq["err"], fr["err"]} == {None, "RuntimeError"}) else res["leaks"]).append(
                f"{tag}: outcome {sq['err'] or 'ok'} in the sequence, {fr['err'] or 'ok'} alone in a fresh process")
        if len(sq["rows"]) != len(fr["rows"]):
            count_bucket.append(f"{tag}: {len(sq['rows'])} rows in the sequence, {len(fr['rows'])} alone")
        # the continuation file a run writes is output of the run too (without the date it was written on)
        ca, cb = sq.get("cont_out"), fr.get("cont_out")
        if ca is not None and cb is not None:
            da, db = _canon_cont(ca), _canon_cont(cb)
            if da is not None and db is not None and da != db:
                if _uses_random(spec) or spec["k"] == "sfcore" and sfcore.uses_random(spec["recipe"]):
                    da = {k: da.get(k) for k in ("id_manager", "nicknames_and_tables")}
                    db = {k: db.get(k) for k in ("id_manager", "nicknames_and_tables")}
                if da != db:
                    diff = sorted(k for k in set(da) | set(db) if da.get(k) != db.get(k))
                    count_bucket.append(f"{tag}: the continuation file written in the sequence differs from the one "
                                        f"written alone in {diff}: {json.dumps(da.get(diff[0]))[:160]} / "
                                        f"{json.dumps(db.get(diff[0]))[:160]}")
        run_ctx = []
        for k, (a, b) in enumerate(zip(sq["rows"], fr["rows"])):
            if a[0] != b[0] or [n for n, _ in a[1]] != [n for n, _ in b[1]]:
                res[bucket_default].append(f"{tag}: row {k + 1} is {a[0]}{[n for n, _ in a[1]]} in the sequence, "
                                           f"{b[0]}{[n for n, _ in b[1]]} alone")
                continue
            for (n, va), (_, vb) in zip(a[1], b[1]):
                c, fspec = _class_of(spec, rowcls, k, a[0], n)
                if c == "exact":
                    if va != vb:
                        if tainted and fspec is not None and fspec[0] in ("version", "failat"):
                            res["opts"].append(f"{tag}: row {k + 1} field {n} = {va} after an earlier run wrote "
                                               f"snowfakery_version into the shared plugin_options, {vb} alone")
                        else:
                            res["leaks"].append(f"{tag}: row {k + 1} ({a[0]}) field {n} = {va} in the sequence, "
                                                f"{vb} alone in a fresh process")
                elif c in ("uid", "puid", "alpha"):
                    if va[0] != vb[0]:
                        res["leaks"].append(f"{tag}: row {k + 1} field {n}: unique id of type {va[0]} / {vb[0]}")
                    key = ("alpha" if c == "alpha" else "num", json.dumps(va))
                    ci = decode_uid(c, va)
                    if key in uids:
                        if c == "alpha" and ci and len(ci) == 1:
                            res["alpha"].append(f"{tag} row {k + 1} field {n}: alpha code {va[1]} (no generator context in "
                                                f"the code, index {ci[0]}) was already produced in {uids[key]}")
                        else:
                            res["leaks"].append(f"uid-repeat: {tag} row {k + 1} field {n}: unique id {va[1]} was already "
                                                f"produced in {uids[key]}")
                    uids[key] = f"{tag} row {k + 1}"
                    if ci and len(ci) == 2:
                        run_ctx.append(ci[0])
                        if ci[0] <= max_ctx_before:
                            res["leaks"].append(f"uid-context: {tag} row {k + 1} field {n}: generator context {ci[0]} "
                                                f"is not newer than the contexts of earlier runs ({max_ctx_before})")
                elif c == "random":
                    if _shape(va) != _shape(vb):
                        res["leaks"].append(f"{tag}: row {k + 1} field {n}: {_shape(va)} in the sequence, {_shape(vb)} alone")
                elif c == "now":
                    d = _parse_dt(va)
                    off = rel_offset(fspec[2]) if fspec is not None and clock_kind(fspec[1], fspec[2]) == "rel" else None
                    if d is None or _parse_dt(vb) is None:
                        if va[0] != vb[0]:
                            res["leaks"].append(f"{tag}: row {k + 1} field {n}: {va[0]} / {vb[0]}")
                    elif (d - off if off is not None else d) < windows[i][0]:
                        j = _window(va, windows, off)
                        res["stale"].append(f"{tag}: row {k + 1} field {n}: clock spec `{fspec[2] if fspec else 'now'}` was read "
                                            f"against a time before this run started (the time of run {j or '?'})")
        if run_ctx:
            max_ctx_before = max(max_ctx_before, max(run_ctx))
        # ids start at 1 - in a continued run: after the last id its OWN continuation file records
        if sq["err"] is None:
            cont = _cont_ids(sq["cont_in"]) if sq.get("cont_in") else {}
            ids = {}
            for t, fs in sq["rows"]:
                for n, v in fs:
                    if n == "id" and v[0] == "int":
                        ids.setdefault(t, []).append(v[1])
            for t, l in ids.items():
                if cont is not None and min(l) != cont.get(t, 0) + 1:
                    res["leaks"].append(f"ids: {tag}: ids of {t} start at {min(l)}" +
                                        (f", its continuation file says {cont.get(t, 0)} were used" if cont else ""))
    return res


def oracle(case, obs):
    if not isinstance(obs, dict) or "seq" not in obs:
        return None
    res = analyse(case, obs)
    if res["leaks"]:
        m = res["leaks"][0]
        return m if m.split(":")[0] in ("uid-repeat", "uid-context", "ids") else "leak: " + m
    if res["opts"]:
        return "shared-options: " + res["opts"][0]
    if res["app"]:
        return "app-reused: " + res["app"][0]
    if res["stale"]:
        return "stale-clock: " + res["stale"][0]
    if res["alpha"]:
        return "alpha-repeat: " + res["alpha"][0]
    return None


def match_finding(case, obs, msg, findings):
    ids = {f.get("id") for f in findings}
    if not isinstance(msg, str) or not isinstance(obs, dict) or "seq" not in obs:
        return None
    try:
        res = analyse(case, obs)
    except Exception:
        return None
    if res["leaks"]:
        return None                  # something else is wrong as well: never masked
    # the two other classes (stale-clock: fc3a5e8, shared-options: d5304ed) are repaired defects:
    # they are violations again if they come back
    if msg.startswith("alpha-repeat") and F_ALPHA in ids and res["alpha"] and not res["opts"] and not res["stale"] \
            and not res["app"]:
        return F_ALPHA
    # exactly the class of the finding: the application reuses its SnowfakeryApplication object, and a
    # LATER run does another number of iterations / raises the no-progress RuntimeError
    if msg.startswith("app-reused") and F_APP in ids and case.get("shared_app") and res["app"] \
            and not res["opts"] and not res["stale"]:
        return F_APP
    return None


# =============================================================================== evidence
def _seq_features(case):
    fs = set()
    for r in case["recipes"]:
        if r["k"] == "prog":
            fs |= prog_features(r)
        elif r["k"] == "sfcore":
            fs.add("sfcore")
        else:
            fs |= set(r.get("features", [])) | {"yaml:" + r["name"]}
    texts = [json.dumps({k: v for k, v in r.items() if k != "job"}, sort_keys=True) for r in case["recipes"]]
    if len(set(texts)) < len(texts):
        fs.add("repeated_recipe")
    fs |= job_features(case)
    return fs


def job_features(case):
    """input classes of the jobs of a sequence"""
    fs = set()
    rs = case["recipes"]
    written = {}                       # continuation name -> index of the run that writes it
    continued_before = []              # (index, tables of the recipe) of earlier continued runs
    for i, r in enumerate(rs):
        j = job_of(r)
        if j.get("cont_out"):
            fs.add("job:writes_continuation")
            written[j["cont_out"]] = i
        if j.get("cont_in"):
            fs.add("job:continued")
            src = written.get(j["cont_in"])
            if src is not None and i - src > 1:
                fs.add("job:continued_with_other_runs_in_between")
            if any(k < i for k, _ in continued_before):
                fs.add("job:continued_after_an_earlier_continued_run")
                mine = set(spec_tables(r))
                if any(mine & tabs and json.dumps(rs[k].get("templates", rs[k].get("name", k)), sort_keys=True) !=
                       json.dumps(r.get("templates", r.get("name", i)), sort_keys=True) for k, tabs in continued_before):
                    fs.add("job:continued_after_continued_run_of_another_recipe_sharing_a_table")
            continued_before.append((i, set(spec_tables(r))))
            if j.get("cont_out"):
                fs.add("job:chain_of_three")
        if j.get("target"):
            fs.add("job:target_number")
            if j.get("cont_in"):
                fs.add("job:target_number_on_continued_run")
                uo = j.get("user_options") or {}
                src = written.get(j["cont_in"])
                uo0 = job_of(rs[src]).get("user_options") or {} if src is not None else {}
                if any(v == 0 for v in uo0.values()) and any(v for v in uo.values()):
                    fs.add("job:target_table_absent_from_the_continuation_file")
        if j.get("user_options"):
            fs.add("job:user_options")
        if j.get("app") == "default":
            fs.add("job:application_object_made_by_the_api")
    if case.get("shared_app"):
        fs.add("job:application_object_reused")
    return fs


STATEFUL = {"job:continued", "job:target_number", "job:application_object_reused", "dsrel", "local_plugin", "include_file", "rewritten_file", "uid", "puid", "alpha", "date", "datetime", "dtf", "dtbetween", "counter", "named_counter", "datecounter", "lazy",
            "dataset", "row_history", "memoised_plugin_value", "repeated_recipe", "random_reference_unique",
            "just_once", "nickname"}


def nontrivial(case, obs):
    if not isinstance(obs, dict) or "seq" not in obs:
        return False
    reached = sum(1 for r in obs["seq"] if r["view"].get("cv_changed"))
    failed_before = any(r["err"] for r in obs["seq"][:-1])
    return reached >= 2 and (bool(_seq_features(case) & STATEFUL) or failed_before)


def stats(cases, obss):
    Cn = collections.Counter
    lens, kinds, feats, errs, api, mode = Cn(), Cn(), Cn(), Cn(), Cn(), Cn()
    modelled, white, unm = Cn(), Cn(), Cn()
    after_failed = shared = locations = 0
    rows = Cn()
    jobs, conts, apps = Cn(), Cn(), Cn()
    for c, o in zip(cases, obss):
        for f in job_features(c):
            jobs[f[4:]] += 1
        if isinstance(o, dict) and "seq" in o:
            for r, sq in zip(c["recipes"], o["seq"]):
                j = job_of(r)
                if j.get("cont_out"):
                    conts["written" if sq.get("cont_out") else "not written (the run failed)"] += 1
                if j.get("cont_in"):
                    conts["read" if sq.get("cont_in") else "missing (its writer failed): run fresh"] += 1
                    ids = _cont_ids(sq["cont_in"]) if sq.get("cont_in") else None
                    if ids is not None and j.get("target") and j["target"][1] not in ids:
                        conts["target table has no entry in the continuation file read"] += 1
                if sq.get("app"):
                    apps["rep_count=%s" % min(sq["app"][0], 5)] += 1
        lens[len(c["recipes"])] += 1
        api[c.get("api")] += 1
        shared += bool(c.get("shared_opts"))
        for r in c["recipes"]:
            kinds[r["k"]] += 1
        for f in _seq_features(c):
            feats[f] += 1
        if not isinstance(o, dict) or "seq" not in o:
            continue
        mode[o.get("mode")] += 1
        prev_failed = False
        for r in o["seq"]:
            errs[r["err"] or "ok"] += 1
            rows[min(len(r["rows"]), 20) // 5 * 5] += 1
            after_failed += prev_failed
            prev_failed = bool(r["err"])
            a = r.get("audit", {})
            locations = max(locations, a.get("locations", 0))
            for k, v in a.get("modelled", {}).items():
                modelled[k] += v
            for k, v in a.get("whitelisted", {}).items():
                white[k] += v
            for u in a.get("unmodelled", []):
                unm[u[0]] += 1
    return {"sequence_lengths": dict(lens), "recipe_kinds": dict(kinds), "features": dict(feats),
            "run_outcomes": dict(errs), "rows_per_run_bucket": {str(k): v for k, v in sorted(rows.items())},
            "api": dict(api), "pristine_process_mode": dict(mode), "shared_options_sequences": shared,
            "runs_right_after_a_failed_run": after_failed,
            "job_classes_sequences": dict(jobs), "continuation_files": dict(conts),
            "application_object_rep_count_after_run": dict(apps),
            "audit_locations_fingerprinted": locations, "audit_changed_modelled": dict(modelled),
            "audit_changed_whitelisted": dict(white), "audit_changed_unmodelled": dict(unm)}


def violation_class(case, obs, msg):
    return msg.split(":")[0]


def shrink(case):
    rs = case["recipes"]
    if len(rs) > 2:
        for i in range(len(rs)):
            yield dict(case, recipes=rs[:i] + rs[i + 1:])
    for i, r in enumerate(rs):
        if r["k"] == "prog":
            ts = r["templates"]
            for j in range(len(ts)):
                if len(ts) > 1:
                    yield dict(case, recipes=rs[:i] + [dict(r, templates=ts[:j] + ts[j + 1:])] + rs[i + 1:])
            for j, t in enumerate(ts):
                for k in range(len(t["fields"])):
                    if t["fields"][k][0] == "tag":
                        continue
                    t2 = dict(t, fields=t["fields"][:k] + t["fields"][k + 1:])
                    yield dict(case, recipes=rs[:i] + [dict(r, templates=ts[:j] + [t2] + ts[j + 1:])] + rs[i + 1:])
        elif r["k"] == "sfcore":
            for c2 in sfcore.shrink_recipe_case({"recipe": r["recipe"], "reps": r.get("reps", 1)}):
                yield dict(case, recipes=rs[:i] + [dict(r, recipe=c2["recipe"], reps=c2.get("reps", 1))] + rs[i + 1:])


def directed_search(rng, disagreeing):
    """After a broken correspondence (typically: unmodelled process state): look for a sequence whose
    OUTPUT differs.  Repeats and pairs of the disagreeing recipes, then name-sharing stress sequences."""
    out = []
    pool = yaml_pool()
    for c in disagreeing[:6]:
        rs = c["recipes"]
        for r in rs[:6]:
            out.append(dict(c, recipes=[r, r], fresh="fork"))
            out.append(dict(c, recipes=[r, r, r], fresh="fork"))
        for a in rs[:4]:
            for b in rs[:4]:
                if a is not b:
                    out.append(dict(c, recipes=[a, b, a], fresh="fork"))
    for case in _directed(rng, pool):
        out.append(case)
    for i in range(150):
        out.append(gen_seq(rng, pool, i, "thorough"))
    return out[:400]
