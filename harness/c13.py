"""C13 — unique_id and unique_alpha_code never collide within a run.
Implementation: snowfakery/standard_plugins/UniqueId.py, snowfakery/utils/scrambled_numbers.py,
unique_id / unique_alpha_code of snowfakery/template_funcs.py; model: coq/theories/UniqueId.v.

Never compared: floats (the two float logarithms are *observed* as the integers the code derives
from them and handed to the model), the mask values themselves (observed from mask_for_key and
handed to the model), error messages."""
import contextlib
import io
import json
import os
import re
import string
from collections import Counter

from . import common as C

PROP = "C13"
MODEL = "UniqueId"
SHARD = 30
CASE_TIMEOUT = 120
RULE = ("cases: (i) scramble_number on batches of consecutive numbers around 2^k / 10^k / random 1..200 "
        "digits with minbits 10..120 (+ rejected inputs), every call also unscrambled; (ii) "
        "unscramble_number on arbitrary numbers; (iii) the base converter of AlphaUniquifier on alphabets "
        "of size 2..62; (iv) processes of 1..4 UniqueNumericIdGenerator / AlphaUniquifier objects with "
        "templates over {pid, context, index, literals, junk}, interleaved draws (hundreds to thousands each); "
        "(v) recipes through generate_data using unique_id, unique_alpha_code, UniqueId.unique_id, "
        "UniqueId.NumericIdGenerator / AlphaCodeGenerator in small-id and big-id mode over several iterations; "
        "(vi) processes that use a generator before and after > 128 other (key, numbits) pairs went through "
        "mask_for_key (lru-cache eviction; observed masks must stay a function); (vii) recipes whose generators "
        "live in hidden fields of a just_once object and are continued through continuation files in the same "
        "process (distinctness over the union of all runs); (viii) CHAINS: 2..5 generate_data runs in ONE process - "
        "fresh runs and continuation runs of 1-2 recipes, with the plugin declared (closed at the end of every run) "
        "and with the built-ins only, small-id and big-id mode in any order, 1..80 rows x 1..3 iterations per run - "
        "interleaved with direct scramble_number calls of 2..12 different bit widths in random order, generator "
        "objects made in one step and drawn from again after later runs, and mask-cache floods; observed as ONE "
        "trace of constructor calls and draws (class-level wrappers around the public constructors / unique_id "
        "properties); the model machine (process-wide counter, per-generator index, ONE mask table for the whole "
        "process, template strings parsed by the model) must reproduce every compared value of every run; oracle: "
        "one mask per (key, numbits) over the whole process (observed from mask_for_key, or derived from "
        "argument and result of scramble_number when mask_for_key is not seen), every earlier scramble_number call "
        "replayed / unscrambled after later runs, all claimed-unique values of all runs pairwise distinct, context "
        "numbers never reused; (ix) WAY IN / WAY OUT: recipes in dialect 2 and dialect 3 whose alpha generators use "
        "alphabets made of characters that a layer between generator and output row may reinterpret (decimal digits "
        "of 13 non-ASCII scripts alone / mixed with ASCII digits / two scripts, other numeric characters, ASCII digits "
        "with '.', e/E, '_', whitespace, '+', x/o/b, separators), each code written through one of the formula paths "
        "direct / hidden field relayed / this. / concatenation / filter / if-choice / var per iteration; oracle: all "
        "top-level draws are observed in order and every output cell holds, character for character, the value its "
        "generator returned for it (also for every run of a chain); the alphabet / template arguments observed on "
        "arrival at the plugin's functions are the ones the recipe spells. "
        "(x) ONE GENERATOR, SEVERAL NAMES: recipes whose generators (numeric and alpha; templates without `context` - "
        "`index`, `pid,index`, literals - in most cases, default and `context` templates in the rest) live in hidden "
        "fields of 1-3 just_once rows (with / without nickname, two rows of one table), of ordinary rows or in "
        "`var:`s, every generator read 2-5 times per row through different names: nickname, table name, a "
        "`reference:` field of the row being made (plain and `this.`), a `var:` holding a reference, a second "
        "just_once row referring to the first, and from friend rows the parent's name / a reference to the parent; "
        "run as chains of 2-4 runs, fresh or continued, the continuation handed over as text, as files, through "
        "snowfakery.cli in the process and through `python -m snowfakery` in a fresh process; oracle: the ids / codes "
        "drawn in one run (one iteration for per-iteration holders) from what the recipe treats as ONE generator "
        "are pairwise distinct whatever names were used, every name yields an id / a code over the alphabet of "
        "min_chars length, generators of one shape containing `context` never share a value over the runs of the "
        "process; model: the runs as a program over names (store of names, aliases, continuation = every "
        "generator rebuilt once with all its names), compared on the index of every draw, which is read back "
        "from the output value with unscramble_number. "
        "non-trivial: a batch with >= 2 distinct accepted numbers, a process with a generator drawn >= 2 "
        "times, a recipe with >= 2 rows, a names case with >= 2 runs in which a generator was read through >= 2 "
        "names; distinct by case hash")
TRUSTED = ["harness/c13.py: which output cell belongs to which draw is taken from the ORDER of the public unique_id calls "
           "(fields draw once each, in the order written; `var:` fields before the row); when the number of draws is "
           "not the number of cells no position is claimed",
           "harness/c13.py: observation wrappers around scrambled_numbers.mask_for_key / .log / scramble_number and "
           "UniqueId.log (the model receives the observed mask and the observed int(log)+1 as its Section variables; "
           "in chain cases the masks form ONE table for the whole process)",
           "harness/c13.py: class-level wrappers around UniqueNumericIdGenerator / AlphaUniquifier __init__ and "
           "unique_id (the trace of a chain case)",
           "harness/c13.py (names cases): the program over names handed to the model is written by the harness from "
           "the recipe's shape (just_once holders are made in the first iteration of a fresh run, other holders in "
           "every iteration, draws in the order of the output cells); the index of a draw is read back from the output "
           "value by scrambled_numbers.unscramble_number and by splitting the decimal digits at the 9s",
           "harness/c13.py: parse_template is used by the ORACLE only (which generators are claimed distinct); the "
           "model receives the raw template string and parses it itself (parse_template in UniqueId.v, ASCII)"]
ASSUMPTIONS = ["the scramble mask is ONE function of (key, numbits) for the whole process (checked: per case, and in "
               "chain cases across all runs of the process - first observation against every later one, and earlier "
               "scramble_number calls replayed after later runs)",
               "int(log(x, 2)) is a function of x (only for the theorems stated with one nbits function; "
               "C13_scramble_injective_any_bit_count does not need it)",
               "Python int arithmetic and ^ on non-negative ints = Z arithmetic and Z.lxor",
               "template strings are ASCII (the model refuses others; Unicode case mapping / numeric characters "
               "are not modelled)",
               "old case kinds: the process-wide counter gives different generators different context numbers "
               "(observed per generator and checked pairwise different); chain cases: the context numbers are "
               "computed by the model machine from the counter value at the start of the process"]
EXHAUSTIVE = {"quick": False, "thorough": False}

B62 = string.digits + string.ascii_uppercase + string.ascii_lowercase
DEFAULT_ALPHABET = string.digits + string.ascii_uppercase
K5 = "K5"
NATIVE = "C13-native-literal"
XSHAPE = "C13-cross-shape"
V2FLOAT = "C13-v2-float-literal"


# ================================================================ generation
def _number(rng):
    r = rng.random()
    if r < 0.25:
        return 2 ** rng.randint(0, 700) + rng.randint(-3, 3)
    if r < 0.5:
        return 10 ** rng.randint(0, 200) + rng.randint(-3, 3)
    if r < 0.8:
        return rng.randint(0, 10 ** rng.randint(1, 40))
    return rng.randint(0, 10 ** rng.randint(1, 200))


def _minbits(rng):
    return rng.choice([10, 10, 11, 22, 23, 24, 25, 40, 48, rng.randint(10, 120), rng.randint(10, 120)])


def gen_scramble(rng, n_items=20):
    base = max(0, _number(rng))
    items = []
    mb = _minbits(rng)
    for j in range(n_items):
        if rng.random() < 0.3:
            mb = _minbits(rng)
        items.append([base + j, mb])
    return {"kind": "scramble", "items": items}


def gen_scramble_edges():
    out = []
    # every key digit, number//10 == 0, minbits thresholds 22/23/24 (max(10, minbits-13))
    out.append({"kind": "scramble", "items": [[n, mb] for n in range(0, 25) for mb in (10, 23, 24)]})
    # rejected: minbits < 10; negative numbers; numbits >= 1000
    out.append({"kind": "scramble", "items": [[5, 9], [5, 0], [123456, -1], [-1, 10], [-10, 10], [-12345, 30],
                                              [10 * 2 ** 1000, 10], [10 * 2 ** 1001 + 7, 10], [10 ** 400, 50]]})
    # around the numbits assertion (float log decides; observed)
    out.append({"kind": "scramble", "items": [[10 * (2 ** k + d) + key, 10] for k in (997, 998, 999)
                                              for d in (-1, 0, 1) for key in (0, 9)]})
    # minbits larger than the number needs / clamps to 999
    out.append({"kind": "scramble", "items": [[77, mb] for mb in (1011, 1012, 1013, 1014, 500, 121)]})
    # powers of two / ten exactly, all keys
    for k in (1, 2, 3, 10, 29, 31, 32, 47, 52, 53, 59, 63, 64, 100, 332):
        out.append({"kind": "scramble", "items": [[10 * (2 ** k + d) + key, 10 + (k % 50)]
                                                  for d in (-1, 0, 1) for key in range(10)]})
    return out


def gen_unscramble(rng, n_items=20):
    items = []
    for _ in range(n_items):
        r = rng.random()
        if r < 0.7:   # the shape scramble_number produces
            n = rng.randint(0, 2 ** rng.randint(1, 400)) * 10000 + rng.randint(0, 9) * 1000 + rng.randint(10, 999)
        elif r < 0.9:
            n = _number(rng)
        else:
            n = -rng.randint(1, 10 ** 12)
        if n % 1000 == 0:      # getrandbits(0) differs between Python versions; not part of the property
            n += rng.randint(1, 999)
        items.append(n)
    return {"kind": "unscramble", "items": items}


def _alphabet(rng, allow_odd=True):
    r = rng.random()
    size = rng.choice([2, 2, 3, 4, 8, 10, 16, 26, 32, 36, 61, 62, rng.randint(2, 62), rng.randint(2, 62)])
    if r < 0.35:
        return B62[:size]
    if r < 0.75:
        return "".join(rng.sample(B62, size))
    if r < 0.85 or not allow_odd:
        return "".join(rng.sample(string.ascii_uppercase, min(size, 26)))
    if r < 0.93:
        pool = "äöüßéèλπЖЯ€" + B62 + "_.:+*"
        return "".join(rng.sample(pool, min(size, len(pool))))
    if r < 0.97:          # duplicates: outside the property (injectivity is not claimed), model still agrees
        a = rng.sample(B62, max(2, size // 2))
        return "".join(a + [a[0]])
    return "".join(rng.sample(B62, max(1, size - 1))) + "-"   # BaseConverter rejects the sign character


def gen_base(rng):
    abc = _alphabet(rng)
    b = max(2, len(abc))
    nums = [0, 1, b - 1, b, b + 1, b * b - 1, b * b]
    for _ in range(13):
        r = rng.random()
        nums.append(b ** rng.randint(1, 60) + rng.randint(-2, 2) if r < 0.4 else max(0, _number(rng)))
    return {"kind": "base", "alphabet": abc, "numbers": nums}


def _template(rng, want_index=True, want_context=None):
    n = rng.randint(1, 4)
    parts = []
    for _ in range(n):
        parts.append(rng.choice(["pid", "context", "index", str(rng.choice([0, 1, 5, 7, 8, 9, 99, 511, 512,
                                                                            rng.randint(0, 10 ** 6)]))]))
    if want_index and "index" not in parts:
        parts[rng.randrange(len(parts))] = "index"
    if want_context and "context" not in parts:
        parts.insert(rng.randrange(len(parts) + 1), "context")
    if want_context is False:
        parts = [p for p in parts if p != "context"] or ["index"]
    # cosmetic variation the constructor normalises (strip / lower / int of a digit string)
    ws = [" ", "  ", "\t", "\n", "\r", "\x0b", "\x0c", "\x1c", "\x1d", "\x1e", "\x1f"]
    parts = [(" " + p if rng.random() < 0.2 else p) for p in parts]
    parts = [(rng.choice(ws) + p + rng.choice(ws) if rng.random() < 0.1 else p) for p in parts]
    parts = [(p.upper() if rng.random() < 0.1 else p.capitalize() if rng.random() < 0.05 else p) for p in parts]
    parts = [("0" * rng.randint(1, 3) + p if p.isdigit() and rng.random() < 0.15 else p) for p in parts]
    return ",".join(parts)


def _pid(rng):
    return rng.choice([None, None, 0, 1, 3, 8, 64, 3333333333333333, rng.randint(0, 10 ** 9)])


def _ctx0(rng):
    return rng.choice([1, 1, 2, 6, 7, 8, 60, 63, 64, 500, 511, 512, 4095, 4096, rng.randint(1, 10 ** 6),
                       rng.randint(1, 10 ** 12)])


def gen_process(rng, tier, malformed=False):
    ngen = rng.randint(1, 4)
    gens = []
    shared_tpl = _template(rng, want_context=True)
    shared_abc = rng.choice([None, "", _alphabet(rng, allow_odd=False)])
    for gi in range(ngen):
        alpha = rng.random() < 0.45
        if rng.random() < 0.5:
            tpl = shared_tpl                 # same shape twice in one process: cross-generator distinctness
        else:
            tpl = _template(rng, want_index=rng.random() < 0.9)
        if malformed and rng.random() < 0.5:
            tpl = rng.choice(["foo", "pid, foo, 9, index", "9.7, index", "", "index,,context", "-5,index",
                              "index;context", "rand8,index", "1_000,index", "+5,index", "in dex", "index,",
                              ",index", "0x10,index", "1e3,index", "index context", "pid\x00,index", " ,index",
                              "\u00a0index,context", "\uff11\uff12,index", "\u00b2,index", "INDEX\u0130,context",
                              "context,index\x7f", "\x1findex\x1c,\tCONTEXT\n", "00,index", "index,index"])
        pid = _pid(rng)
        if malformed and rng.random() < 0.3:
            pid = -rng.randint(1, 50)
        if alpha:
            abc = shared_abc if rng.random() < 0.5 else rng.choice([None, "", _alphabet(rng)])
            if malformed and rng.random() < 0.3:
                abc = rng.choice(["A", "AB-", "-", "Z"])
            gens.append({"type": "alpha", "template": tpl, "pid": pid, "alphabet": abc,
                         "min_chars": rng.choice([8, 8, 0, 1, 3, 4, 5, 6, 12, 20, rng.randint(0, 30)]),
                         "randomize_codes": rng.random() < 0.7})
        else:
            gens.append({"type": "num", "template": tpl, "pid": pid, "randomize": rng.random() < 0.75,
                         "start": rng.choice([1, 1, 1, 0, 8, 1001, rng.randint(0, 10 ** 6)])})
    big = tier == "thorough"
    schedule = []
    for _ in range(rng.randint(ngen, 3 * ngen)):
        schedule.append([rng.randrange(ngen), rng.choice([1, 7, 64, rng.randint(50, 400),
                                                          rng.randint(400, 10000 if big else 1500)])])
    totals = Counter()
    for gi, n in schedule:
        totals[gi] += n
    sample = {}
    for gi in range(ngen):
        t = totals[gi]
        ks = set(range(min(t, 24)))
        ks.update(rng.randrange(t) for _ in range(16) if t)
        ks.update(k for k in (t - 1, 7, 8, 63, 64, 511, 512, 4095) if 0 <= k < t)
        sample[str(gi)] = sorted(ks)
    return {"kind": "gens", "gens": gens, "schedule": schedule, "sample": sample, "ctx0": _ctx0(rng)}


def gen_recipe(rng):
    big = rng.choice([None, False, False, True, True])
    pid = rng.choice([None, None, 0, 3, 3333333333333333, rng.randint(0, 10 ** 6)])
    nvars = rng.randint(0, 4)
    vars_ = []
    for i in range(nvars):
        if rng.random() < 0.5:
            vars_.append({"name": f"N{i}", "type": "num",
                          "template": rng.choice([None, None, _template(rng, want_context=True),
                                                  _template(rng, want_index=True)])})
        else:
            vars_.append({"name": f"G{i}", "type": "alpha",
                          "template": rng.choice([None, None, None, _template(rng, want_context=True)]),
                          "alphabet": rng.choice([None, None, DEFAULT_ALPHABET, "ACGT", B62, "0123456789",
                                                  _alphabet(rng, allow_odd=False)]),
                          "min_chars": rng.choice([None, None, 6, 4, 10, 12]),
                          "randomize_codes": rng.choice([None, None, None, False])})
    for v in vars_:
        if v["type"] == "alpha" and rng.random() < 0.2:
            v["alphabet"] = _alphabet_reinterp(rng)[1]
            while _floatlike(v["alphabet"]):      # finding C13-v2-float-literal (way in): gen_outpath covers it
                v["alphabet"] = _alphabet_reinterp(rng)[1]
            if v["randomize_codes"] is not False and \
                    max(8 if v["min_chars"] is None else v["min_chars"], 4) * (len(v["alphabet"]).bit_length() - 1) < 10:
                v["min_chars"] = 12
    srcs = ["unique_id", "unique_alpha_code", "UniqueId.unique_id"] + [v["name"] for v in vars_]
    fields = []
    for s in srcs:
        if s in ("unique_id", "unique_alpha_code", "UniqueId.unique_id") and rng.random() < 0.25:
            continue
        fields.append(s)
        if rng.random() < 0.2:
            fields.append(s)          # the same generator drawn twice per row
    if not fields:
        fields = ["unique_id", "unique_alpha_code"]
    return {"kind": "recipe", "big": big, "pid": pid, "vars": vars_, "fields": fields,
            "count": rng.randint(1, 6), "iterations": rng.randint(1, 4), "ctx0": _ctx0(rng)}


# ---------------------------------------------------------------- the way IN and the way OUT of a recipe
# A code is a string; between the generator and the output row (and between the recipe text and the plugin)
# sit layers that may read a string as something else: look_for_number (dialect 2), Jinja native types
# (dialect 3), YAML.  The alphabets below are made of characters such a layer may reinterpret.
DIGIT_SCRIPTS = {"arabic_indic": 0x0660, "ext_arabic_indic": 0x06F0, "nko": 0x07C0, "devanagari": 0x0966,
                 "bengali": 0x09E6, "gujarati": 0x0AE6, "tamil": 0x0BE6, "thai": 0x0E50, "tibetan": 0x0F20,
                 "myanmar": 0x1040, "khmer": 0x17E0, "mongolian": 0x1810, "fullwidth": 0xFF10}
# numeric characters that are NOT decimal digits: str.isdigit() / str.isnumeric() say yes, int() says no
OTHER_NUMERIC = "²³¹⁰⁴⁵①②③½Ⅳ〇一二三"
ASCII_DIGITS = string.digits
FLOATLIKE = re.compile(r"(?:0(?=\.)|[1-9][0-9]*)?\.[0-9]*", re.ASCII)


def _floatlike(s):
    """ASCII digits with exactly one '.', at least one digit, no leading 0 other than `0.`: the strings dialect 2
    reads as floats (finding C13-v2-float-literal is about exactly these)"""
    return isinstance(s, str) and bool(FLOATLIKE.fullmatch(s)) and any(ch in ASCII_DIGITS for ch in s)


def _script(rng, name=None):
    name = name or rng.choice(sorted(DIGIT_SCRIPTS))
    return name, "".join(chr(DIGIT_SCRIPTS[name] + i) for i in range(10))


def _some(rng, chars, lo=2):
    """a subset of `chars` (at least `lo`), in order, rotated, or shuffled"""
    k = rng.choice([len(chars), len(chars), rng.randint(lo, len(chars))])
    r = rng.random()
    if r < 0.4:
        sub = list(chars[:k])
    elif r < 0.6:
        j = rng.randrange(len(chars))
        sub = list((chars[j:] + chars[:j])[:k])
    else:
        sub = rng.sample(list(chars), k)
    return "".join(sub)


def _mix(rng, a, b):
    r = rng.random()
    if r < 0.35:
        return a + b
    if r < 0.7:
        return b + a
    x = list(a + b)
    rng.shuffle(x)
    return "".join(x)


def _alphabet_reinterp(rng):
    """(class label, alphabet): duplicate-free, size >= 2, no '-' (the base converter's sign character)"""
    r = rng.random()
    if r < 0.2:
        name, d = _script(rng)
        return "script", _some(rng, d)
    if r < 0.4:
        name, d = _script(rng)
        return "script+ascii_digits", _mix(rng, _some(rng, d), _some(rng, ASCII_DIGITS))
    if r < 0.47:
        (n1, d1), (n2, d2) = _script(rng), _script(rng)
        if n1 == n2:
            return "script", _some(rng, d1)
        return "two_scripts", _mix(rng, _some(rng, d1), _some(rng, d2))
    if r < 0.57:
        return "ascii_digits", rng.choice(["123456789", "1234567890", "0123456789", "9876543210", "10", "12",
                                           _some(rng, ASCII_DIGITS), _some(rng, ASCII_DIGITS)])
    if r < 0.62:
        return "other_numeric", _mix(rng, _some(rng, OTHER_NUMERIC), rng.choice(["", "", _some(rng, ASCII_DIGITS)]))
    if r < 0.68:
        name, d = _script(rng)
        return "script+punct", _mix(rng, _some(rng, d), rng.choice([".", "_", " ", "+", "e", "E", ". "]))
    # ASCII digits with a character that number syntaxes use
    extra = rng.choice([".", ".", "e", "E", "eE", "_", "_", " ", "\t", " \t", "+", "+.", "e.", "e+", "x", "o", "b",
                        "xabcdef", "_.", ". ", " ", " ", "　", ",", "'", "٫", "٬"])
    digs = rng.choice(["01", "1", "12", "0", _some(rng, ASCII_DIGITS, 1), _some(rng, ASCII_DIGITS, 1)])
    abc = _mix(rng, digs, extra)
    if len(abc) < 2:
        abc = "01" + extra
    return "ascii_digits+" + ("space" if extra.strip() == "" or extra in (" ", " ", "　") else extra), abc


def gen_outpath(rng, native=None, nvars=None):
    """recipes whose alpha generators use alphabets that a layer between generator and output (or between recipe
    and plugin) may reinterpret, in dialect 2 and 3, every code written through one of several formula paths:
    `${{G.unique_id}}`, a hidden field relayed by a second formula, `this.`, string concatenation / filter inside
    the formula, an `if`/choice, a `var:` evaluated once per iteration"""
    if native is None:
        native = rng.random() < 0.3
    via_var = rng.random() < 0.2
    vars_, classes = [], []
    for i in range(nvars or rng.randint(1, 3)):
        if i > 0 and rng.random() < 0.2:
            vars_.append({"name": f"N{i}", "type": "num",
                          "template": rng.choice([None, _template(rng, want_context=True)])})
            continue
        label, abc = _alphabet_reinterp(rng)
        if native:
            # dialect 3 reads "1,2" as a tuple and "'1'" as a string; finding C13-native-literal is stated for
            # values that stop being strings, so keep its signature exact and leave these characters out
            abc = "".join(ch for ch in abc if ch not in ",'\"jJ")
            if len(abc) < 2:
                label, abc = "ascii_digits+_", "01_"
        classes.append(label)
        rc = rng.choice([None, None, False, False])
        mc = rng.choice([None, 1, 3, 4, 6, 10, 12, 16])
        if rc is not False:
            bits = len(abc).bit_length() - 1
            if max(8 if mc is None else mc, 4) * bits < 10:
                mc = 12
        tpl = rng.choice([None, _template(rng, want_context=True), "context,index"])
        if via_var and tpl is None:
            tpl = "context,index"     # the generator is re-created in every iteration (see finding K5)
        vars_.append({"name": f"G{i}", "type": "alpha", "template": tpl, "alphabet": abc, "min_chars": mc,
                      "randomize_codes": rc})
    fields, paths = [], []
    for v in vars_:
        for _ in range(rng.choice([1, 1, 2])):
            fields.append(v["name"])
            paths.append("var" if via_var else rng.choice(["direct", "direct", "relay", "this", "concat", "filter",
                                                             "choice"]))
    if rng.random() < 0.3:
        fields.append(rng.choice(["unique_id", "unique_alpha_code"]))
        paths.append("direct")
    count = 1 if via_var else rng.choice([5, 12, 20, rng.randint(1, 40)])
    iterations = rng.choice([3, 8, 15]) if via_var else rng.choice([1, 1, 2, 3])
    big = rng.choice([None, False, True])
    if not big and any(v["type"] == "alpha" and v["template"] is None for v in vars_):
        iterations = 1            # otherwise the run is one more witness of finding K5
    return {"kind": "recipe", "native": bool(native), "big": big,
            "pid": rng.choice([None, None, 3, 123456789]), "vars": vars_, "fields": fields, "paths": paths,
            "abc_classes": classes, "count": count, "iterations": iterations, "ctx0": _ctx0(rng)}


def gen_outpath_edges():
    """the plainest members of the class: every digit script alone and mixed with the ASCII digits, sequential
    codes, dialect 2, written directly"""
    out = []
    for k, name in enumerate(sorted(DIGIT_SCRIPTS)):
        d = "".join(chr(DIGIT_SCRIPTS[name] + i) for i in range(10))
        abc = d if k % 3 == 0 else (d + ASCII_DIGITS if k % 3 == 1 else ASCII_DIGITS + d)
        out.append({"kind": "recipe", "native": False, "big": None, "pid": None,
                    "vars": [{"name": "G0", "type": "alpha", "template": "context,index", "alphabet": abc,
                              "min_chars": 3 + k % 4, "randomize_codes": False if k % 2 else None}],
                    "fields": ["G0"], "paths": ["direct"], "abc_classes": ["script" if k % 3 == 0 else
                                                                          "script+ascii_digits"],
                    "count": 12, "iterations": 1, "ctx0": 1})
    return out


def gen_separator_probe(randomize=True):
    """16 generators `context,index` with context numbers 1..16, 72 draws each: if the separator between the
    octal chunks were an octal digit d, (context 1, index 0o{d}1..) and (context 0o1{d}, index 1) would meet."""
    n = 16
    return {"kind": "gens", "ctx0": 1,
            "gens": [{"type": "num", "template": "context,index", "pid": 3, "randomize": randomize, "start": 1}
                     for _ in range(n)],
            "schedule": [[gi, 72] for gi in range(n)],
            "sample": {str(gi): [0, 1, 7, 8, 56, 57, 63, 64, 71] for gi in range(n)}}


def gen_evict(rng, variant):
    """a generator used before and after > 128 other (key, numbits) pairs went through mask_for_key"""
    if variant == 0:
        gens = [{"type": "num", "template": "index", "pid": 3, "randomize": True, "start": 1}]
    elif variant == 1:
        gens = [{"type": "num", "template": "context,index", "pid": None, "randomize": True, "start": 1},
                {"type": "alpha", "template": "context,index", "pid": None, "alphabet": None, "min_chars": 4,
                 "randomize_codes": True}]
    else:
        gens = [{"type": "num", "template": _template(rng, want_context=True), "pid": _pid(rng), "randomize": True,
                 "start": 1} for _ in range(2)]
    n1, n2 = rng.randint(1200, 2000), rng.randint(1200, 2000)
    schedule = [[gi, n1] for gi in range(len(gens))] + [["flush", rng.randint(140, 400)]] + \
               [[gi, n2] for gi in range(len(gens))]
    sample = {str(gi): sorted(set(list(range(12)) + [n1 - 1, n1, n1 + 1, n1 + 7, n1 + n2 - 1] +
                                  [rng.randrange(n1 + n2) for _ in range(10)])) for gi in range(len(gens))}
    return {"kind": "gens", "gens": gens, "schedule": schedule, "sample": sample, "ctx0": _ctx0(rng)}


def gen_registry(rng):
    """numeric generators kept in hidden fields of a just_once object, drawn from by ordinary rows, the recipe
    continued `iterations`-1 times through continuation files in the same process"""
    nv = rng.randint(1, 3)
    vars_ = [{"name": f"N{i}", "type": "num",
              "template": rng.choice([None, None, _template(rng, want_context=True), "context,index"])}
             for i in range(nv)]
    fields = [v["name"] for v in vars_] + rng.choice([["unique_id"], ["unique_id", "UniqueId.unique_id"], []])
    if rng.random() < 0.3:
        fields.append(vars_[0]["name"])
    return {"kind": "recipe", "registry": True, "big": rng.choice([None, False, False, True]),
            "pid": rng.choice([None, None, 3, 4242]), "vars": vars_, "fields": fields,
            "count": rng.randint(1, 5), "iterations": rng.randint(2, 4), "ctx0": _ctx0(rng)}


# ---------------------------------------------------------------- chains of runs in ONE process
def gen_lineage(rng):
    """a recipe that is run (fresh) and continued several times in the process"""
    r = rng.random()
    if r < 0.3:       # built-in unique_id / unique_alpha_code only: no plugin declaration, nothing is closed
        fields = rng.choice([["unique_id"], ["unique_id", "unique_alpha_code"], ["unique_id", "unique_id"],
                             ["unique_alpha_code", "unique_id"]])
        rec = {"kind": "recipe", "plugin": False, "big": None,
               "pid": rng.choice([None, None, 3, rng.randint(0, 10 ** 6)]), "vars": [], "fields": fields,
               "count": 1, "iterations": 1, "ctx0": 1}
    elif r < 0.45:    # the plugin declared, only its default generator used
        rec = {"kind": "recipe", "plugin": True, "big": None, "pid": rng.choice([None, None, 3, 4242]), "vars": [],
               "fields": rng.choice([["UniqueId.unique_id"], ["UniqueId.unique_id", "unique_id"],
                                     ["UniqueId.unique_id", "UniqueId.unique_id", "unique_alpha_code"]]),
               "count": 1, "iterations": 1, "ctx0": 1}
    elif r < 0.7:
        rec = dict(gen_recipe(rng), plugin=True)
    else:
        rec = dict(gen_registry(rng), plugin=True)
    return rec


def _widths(rng):
    """minbits requests of different widths, in a random order (each width asks mask_for_key for another
    numbits under the same keys)"""
    ws = rng.sample([10, 23, 24, 25, 30, 36, 40, 48, 64, 90, 120, 200, 400, 900], rng.randint(2, 6))
    if rng.random() < 0.5:
        ws = ws + ws[::-1]
    return ws


def gen_chain(rng, tier, shape=None):
    """several generate_data runs (fresh runs and continuation runs of 1-2 recipes, with and without the
    plugin declared, small-id and big-id mode in any order), interleaved with direct scramble_number calls of
    different bit widths, generator objects that live across run boundaries, and mask-cache floods"""
    nlin = rng.choice([1, 1, 2])
    lins = [gen_lineage(rng) for _ in range(nlin)]
    if shape == "declared":       # every run declares the plugin (it is closed at the end of every run)
        for ln in lins:
            if not ln.get("plugin"):
                ln["plugin"] = True
                ln["fields"] = ["UniqueId.unique_id"] + [f for f in ln["fields"] if f != "unique_alpha_code"]
    steps = []
    started = [False] * nlin
    nruns = rng.choice([2, 3, 3, 4, 5])
    big_mode = rng.choice(["small", "small", "big", "mixed", "mixed"])
    nobj = 0
    for r in range(nruns):
        li = rng.randrange(nlin)
        cont = started[li] and rng.random() < 0.6
        started[li] = True
        big = {"small": rng.choice([None, False]), "big": True,
               "mixed": rng.choice([None, False, True, True])}[big_mode]
        steps.append({"op": "run", "lin": li, "cont": cont, "big": big,
                      "count": rng.choice([1, 3, 8, 20, 40, 60, rng.randint(1, 80)]),
                      "iterations": rng.choice([1, 1, 1, 2, 3])})
        x = rng.random()
        if x < 0.25:
            base = max(0, _number(rng))
            steps.append({"op": "scramble", "items": [[base + j, w] for w in _widths(rng) for j in range(4)]})
        elif x < 0.45:
            gens = []
            for _ in range(rng.randint(1, 2)):
                if rng.random() < 0.6:
                    gens.append({"type": "num", "template": _template(rng, want_context=True), "pid": _pid(rng),
                                 "randomize": rng.random() < 0.8, "start": rng.choice([1, 1, 0, 1001])})
                else:
                    gens.append({"type": "alpha", "template": _template(rng, want_context=True), "pid": _pid(rng),
                                 "alphabet": rng.choice([None, "", _alphabet(rng, allow_odd=False)]),
                                 "min_chars": rng.choice([8, 4, 6, 12, 20, rng.randint(0, 30)]),
                                 "randomize_codes": rng.random() < 0.8})
            if rng.random() < 0.15:
                gens.append({"type": "num", "template": rng.choice(["foo", "pid,,index", "index;context"]),
                             "pid": 3, "randomize": True, "start": 1})
            steps.append({"op": "objects", "gens": gens})
            steps.append({"op": "draw", "draws": [[nobj + j, rng.choice([1, 5, 40, rng.randint(1, 200)])]
                                                  for j in range(len(gens))]})
            nobj += len(gens)
        elif x < 0.55:
            steps.append({"op": "flush", "n": rng.randint(140, 300)})
        if nobj and rng.random() < 0.5:     # objects made before earlier runs are used again
            steps.append({"op": "draw", "draws": [[rng.randrange(nobj), rng.choice([1, 8, 30, rng.randint(1, 120)])]
                                                  for _ in range(rng.randint(1, 2))]})
    return {"kind": "chain", "ctx0": _ctx0(rng), "lineages": lins, "steps": steps,
            "checkpoints": rng.choice(["every", "every", "end"])}


def gen_chain_edges():
    """the plainest chains: one small-id recipe declaring the plugin, run and continued / re-run"""
    out = []
    for cont in (True, False):
        for fields in (["UniqueId.unique_id"], ["unique_id", "UniqueId.unique_id"]):
            lin = {"kind": "recipe", "plugin": True, "big": None, "pid": None, "vars": [], "fields": fields,
                   "count": 1, "iterations": 1, "ctx0": 1}
            out.append({"kind": "chain", "ctx0": 1, "lineages": [lin], "checkpoints": "end",
                        "steps": [{"op": "run", "lin": 0, "cont": cont and i > 0, "big": False, "count": 60,
                                   "iterations": 1} for i in range(3)]})
    return out


def gen_literal_pairs(rng):
    """two or three generators whose templates spell the same digits around a 9: `a9b` as one literal against
    `a, b` as two (the join uses 9 as the separator, which is sound only because every chunk is octal)"""
    a, b = rng.choice([1, 2, 3, 7, 12, 45]), rng.choice([1, 2, 5, 17, 92, 192])
    t1 = f"{a}9{b},index"
    t2 = f"{a},{b},index"
    t3 = f"{a},{b}9,index" if rng.random() < 0.5 else f"{a}9{b}9,index"
    alpha = rng.random() < 0.4
    pid = rng.choice([None, 3])
    gens = []
    for t in (t1, t2, t3):
        if alpha:
            gens.append({"type": "alpha", "template": t, "pid": pid, "alphabet": None, "min_chars": 8,
                         "randomize_codes": True})
        else:
            gens.append({"type": "num", "template": t, "pid": pid, "randomize": True, "start": 1})
    n = rng.randint(20, 200)
    return {"kind": "gens", "gens": gens, "schedule": [[gi, n] for gi in range(3)],
            "sample": {str(gi): [0, 1, 7, 8, n - 1] for gi in range(3)}, "ctx0": _ctx0(rng)}


def gen_padding_probe(rng, abc=None):
    """one sequential (randomize_codes false) alpha generator over an alphabet that is NOT written in ascending
    order, min_chars one above the natural code length, thousands of draws: padding with anything but the zero
    digit makes a padded short code equal to the natural code of a later, larger number"""
    if abc is None:
        abc = rng.choice(["GATC", "TGCA", "ZYX", "BA", "10", "cba", "".join(rng.sample(B62, rng.randint(2, 6)))])
    b = len(abc)
    n, natural = 1751, 1            # first number: index 1001 = 0o1751, read as the decimal number 1751
    while b ** natural <= n:
        natural += 1
    draws = 7000
    return {"kind": "gens", "ctx0": 1,
            "gens": [{"type": "alpha", "template": "index", "pid": 3, "alphabet": abc, "min_chars": natural + 1,
                      "randomize_codes": False}],
            "schedule": [[0, draws]], "sample": {"0": [0, 1, 2, 31, 32, 33, 511, 512, draws - 1]}}


# ---------------------------------------------------------------- ONE generator, several names (round 5)
# A generator stored in a hidden field of a just_once row is ONE generator for the recipe, whatever name a formula
# uses to get at the row: its nickname, its table name, a `reference:` field of the row that is being made, a
# `var:` holding a reference, the parent row of a friend, a second just_once row that refers to it.  The names
# must keep denoting one generator after every continuation (text / file / command line / fresh process).
NAMES_TABLES = [("Sequence", "Seq"), ("Counter", "Cnt"), ("IdRegistry", "Registry"), ("Numbering", "Num")]
NAMES_ALPHABETS = [None, None, "ACGT", B62, "ABCDEFGHJKLMNPQRSTUVWXYZ", DEFAULT_ALPHABET]
ROUTES_ORDER = ["direct", "ref", "var", "keeper"]       # names usable in a field of an Order row
ROUTES_LINE = ["direct", "var", "parent", "up"]          # names usable in a field of a Line row (friend of Order)


def _names_gen(rng, i, alpha_ok, no_context=None):
    r = rng.random()
    if no_context or (no_context is None and r < 0.6):
        tpl = _template(rng, want_context=False)
    elif r < 0.78:
        tpl = None
    else:
        tpl = _template(rng, want_context=True)
    if alpha_ok and rng.random() < 0.7:
        abc = rng.choice(NAMES_ALPHABETS)
        mc = rng.choice([None, None, 6, 10, 12])
        rc = rng.choice([None, None, False])
        if rc is not False and max(8 if mc is None else mc, 4) * (len(abc or DEFAULT_ALPHABET).bit_length() - 1) < 10:
            mc = 12
        return {"fld": f"g{i}", "type": "alpha", "template": tpl, "alphabet": abc, "min_chars": mc,
                "randomize_codes": rc}
    return {"fld": f"g{i}", "type": "num", "template": tpl}


def _names_families(holders, h):
    """by which spellings the row of holder h can be named: its nickname, its table name (the table name denotes
    the LAST just_once row of that table)"""
    hd = holders[h]
    if hd.get("kind") == "var":
        return ["nick"]
    fam = []
    if hd["nick"]:
        fam.append("nick")
    if all(o["table"] != hd["table"] for o in holders[h + 1:]):
        fam.append("table")
    return fam


def gen_names(rng, no_context=None, vias=None):
    # keeper chains (a second just_once row referring to the first) and alpha generators do not survive a
    # continuation in /repo (references of saved rows are dropped; AlphaUniquifier has no saved form): such cases
    # consist of fresh runs only
    fresh_only = rng.random() < 0.2
    pool = rng.sample(NAMES_TABLES, len(NAMES_TABLES))
    holders = []
    for h in range(rng.choice([1, 2, 2, 3, 3])):
        # where the generator lives: a just_once row (one generator for the whole lineage of runs), an ordinary
        # row with count 1 or a `var:` (one generator per iteration)
        kind = rng.choice(["once", "once", "row", "var"]) if h > 0 or fresh_only else "once"
        if h > 0 and holders[-1]["kind"] != "var" and rng.random() < 0.25:
            # twin: a second row of the same table and kind, own nickname; the table name denotes the later one
            table, kind = holders[-1]["table"], holders[-1]["kind"]
            holders[-1]["nick"] = holders[-1]["nick"] or f"{table[:3]}{h - 1}"
            nick = f"{table[:3]}{h}"
        elif kind == "var":
            table, nick = None, f"G{h}"
        else:
            table, nick = pool.pop()
            if rng.random() < 0.15:
                nick = None
        ngen = 1 if kind == "var" else rng.choice([1, 1, 2])
        holders.append({"kind": kind, "table": table, "nick": nick,
                        "gens": [_names_gen(rng, i, fresh_only or kind != "once", no_context) for i in range(ngen)]})
    lines = rng.choice([0, 0, 1, 2])
    reads = []
    for h, hd in enumerate(holders):
        fams = _names_families(holders, h)
        for g in range(len(hd["gens"])):
            nread = rng.choice([2, 3, 3, 4, 5])
            picked = []
            for j in range(nread):
                # the first two reads use two different spellings when the row has two
                fam = fams[j % len(fams)] if j < 2 and rng.random() < 0.85 else rng.choice(fams)
                row = "Line" if lines and rng.random() < 0.3 else "Order"
                routes = ROUTES_LINE if row == "Line" else ROUTES_ORDER
                route = "direct" if hd["kind"] == "var" else \
                    rng.choice([r for r in routes if r != "keeper" or (fresh_only and hd["kind"] == "once")])
                picked.append({"h": h, "g": g, "fam": fam, "route": route, "row": row})
            reads.extend(picked)
    rng.shuffle(reads)
    links, procs = [], 0
    for k in range(rng.choice([2, 3, 3, 4])):
        via = rng.choice(vias or ["text", "text", "path", "path", "cli", "cli", "proc"])
        if via == "proc":
            procs += 1
            if procs > 1:
                via = "cli"
        links.append({"via": via, "cont": k > 0 and not fresh_only and rng.random() < 0.8,
                      "n": rng.choice([1, 1, 2, 3])})
    return {"kind": "names", "ctx0": _ctx0(rng), "big": rng.choice([None, None, False, True]),
            "pid": rng.choice([None, None, 3, 4242]), "holders": holders, "reads": reads,
            "count": rng.choice([1, 1, 2, 3]), "lines": lines, "links": links}


def gen_names_edges():
    """the plainest members of the class: one just_once row with a nickname, one numeric generator, read through
    the nickname and through the table name, run once and continued three times"""
    out = []
    for i, tpl in enumerate(["pid, index", "index", "7, index", "pid,context,index", None, "index,pid,3"]):
        via = ["text", "path", "cli"][i % 3]
        out.append({"kind": "names", "ctx0": 1, "big": None, "pid": None, "count": 2, "lines": 0,
                    "holders": [{"kind": "once", "table": "Sequence", "nick": "Seq",
                                 "gens": [{"fld": "g0", "type": "num", "template": tpl}]}],
                    "reads": [{"h": 0, "g": 0, "fam": "nick", "route": "direct", "row": "Order"},
                              {"h": 0, "g": 0, "fam": "table", "route": "direct", "row": "Order"}],
                    "links": [{"via": via, "cont": k > 0, "n": 2} for k in range(4)]})
    return out


def generate(rng, tier):
    q = tier == "quick"
    cases = list(gen_scramble_edges())
    cases.append(gen_separator_probe(True))
    cases.append(gen_separator_probe(False))
    for _ in range(100 if q else 10000):
        cases.append(gen_scramble(rng))
    for _ in range(10 if q else 500):
        cases.append(gen_unscramble(rng))
    for _ in range(40 if q else 1500):
        cases.append(gen_base(rng))
    for _ in range(18 if q else 1300):
        cases.append(gen_process(rng, tier))
    for _ in range(4 if q else 120):
        cases.append(gen_process(rng, tier, malformed=True))
    for _ in range(12 if q else 400):
        cases.append(gen_recipe(rng))
    for i in range(3 if q else 40):
        cases.append(gen_evict(rng, i % 3))
    for _ in range(6 if q else 120):
        cases.append(gen_registry(rng))
    for _ in range(3 if q else 40):
        cases.append(gen_literal_pairs(rng))
    cases.extend(gen_outpath_edges() if not q else rng.sample(gen_outpath_edges(), 4))
    for i in range(26 if q else 600):
        cases.append(gen_outpath(rng))
    for _ in range(1 if q else 6):
        cases.append(gen_padding_probe(rng))
    cases.extend(gen_chain_edges())
    for i in range(14 if q else 200):
        cases.append(gen_chain(rng, tier, shape="declared" if i % 3 == 0 else None))
    # round 5 (after everything else: the older cases of a seed stay what they were)
    cases.extend(gen_names_edges())
    for i in range(30 if q else 600):
        cases.append(gen_names(rng, no_context=True if i % 3 == 0 else None))
    return cases


# ================================================================ implementation side
def _keep_attrs(wrapper, orig):
    """the wrapper stays usable like the original (lru_cache's cache_clear / cache_info / __wrapped__ ...)"""
    import functools
    try:
        functools.update_wrapper(wrapper, orig)
    except Exception:
        pass
    for name in ("cache_clear", "cache_info", "cache_parameters"):
        if hasattr(orig, name):
            try:
                setattr(wrapper, name, getattr(orig, name))
            except Exception:
                pass


@contextlib.contextmanager
def _observe():
    """Record what the implementation's own mask_for_key / log return (no re-implementation)."""
    import snowfakery.utils.scrambled_numbers as sn
    import snowfakery.standard_plugins.UniqueId as U
    ev = []
    have = {"mask": callable(getattr(sn, "mask_for_key", None)),
            "log": callable(getattr(sn, "log", None)),
            "ulog": callable(getattr(U, "log", None))}
    saved = []
    if have["mask"]:
        orig_mask = sn.mask_for_key

        def mask_for_key(key, numbits):
            r = orig_mask(key, numbits)
            ev.append(("mask", key, numbits, r))
            return r
        _keep_attrs(mask_for_key, orig_mask)
        saved.append((sn, "mask_for_key", orig_mask))
        sn.mask_for_key = mask_for_key
    if have["log"]:
        orig_log = sn.log

        def log(x, *a):
            r = orig_log(x, *a)
            try:
                ev.append(("nb", int(r) + 1))
            except (OverflowError, ValueError):
                ev.append(("nb", None))
            return r
        saved.append((sn, "log", orig_log))
        sn.log = log
    if have["ulog"]:
        orig_ulog = U.log

        def ulog(x, *a):
            r = orig_ulog(x, *a)
            try:
                ev.append(("bpc", int(r)))
            except (OverflowError, ValueError):
                ev.append(("bpc", None))
            return r
        saved.append((U, "log", orig_ulog))
        U.log = ulog
    try:
        yield ev, have
    finally:
        for mod, name, orig in saved:
            setattr(mod, name, orig)


def _first(events, tag):
    for e in events:
        if e[0] == tag:
            return e
    return None


def _obs_of(events):
    """nb / mask / bpc observed during one call (None when not called)."""
    m = _first(events, "mask")
    nb = _first(events, "nb")
    bp = _first(events, "bpc")
    return {"mask": m[3] if m else None, "mask_args": [m[1], m[2]] if m else None,
            "nb": nb[1] if nb else None, "bpc": bp[1] if bp else None,
            "ncalls": sum(1 for e in events if e[0] == "mask")}


def _call(f, *a):
    try:
        return {"ok": f(*a)}
    except BaseException as e:  # noqa
        if isinstance(e, (KeyboardInterrupt, C._CaseTimeout)):
            raise
        return {"err": C.canon_exc(e)}


def _mask_table_ok(ev):
    tab = {}
    for e in ev:
        if e[0] == "mask":
            if tab.setdefault((e[1], e[2]), e[3]) != e[3]:
                return False
    return True


def run_impl(case):
    kind = case["kind"]
    if kind == "scramble":
        import snowfakery.utils.scrambled_numbers as sn
        out = []
        with _observe() as (ev, have):
            for number, minbits in case["items"]:
                i0 = len(ev)
                r = _call(sn.scramble_number, number, minbits)
                r.update(_obs_of(ev[i0:]))
                if "ok" in r:
                    r["back"] = _call(sn.unscramble_number, r["ok"])
                out.append(r)
            return {"items": out, "have": have, "mask_is_function": _mask_table_ok(ev)}
    if kind == "unscramble":
        import snowfakery.utils.scrambled_numbers as sn
        out = []
        with _observe() as (ev, have):
            for n in case["items"]:
                i0 = len(ev)
                r = _call(sn.unscramble_number, n)
                r.update(_obs_of(ev[i0:]))
                out.append(r)
            return {"items": out, "have": have}
    if kind == "base":
        import snowfakery.standard_plugins.UniqueId as U
        try:
            au = U.AlphaUniquifier(parts="index", alphabet=case["alphabet"], randomize_codes=False, min_chars=0)
        except BaseException as e:  # noqa
            return {"ctor_err": C.canon_exc(e)}
        enc = getattr(au, "alpha_encoder", None)
        if not callable(enc):
            return {"skip": "AlphaUniquifier.alpha_encoder not found"}
        return {"items": [_call(enc, n) for n in case["numbers"]]}
    if kind == "gens":
        return _run_process(case)
    if kind == "recipe":
        return _run_recipe(case)
    if kind == "chain":
        return _run_chain(case)
    if kind == "names":
        return _run_names(case)
    raise ValueError(kind)


def _gen_attrs(g, typ):
    """context number and pid string of a generator object (None when the attribute is gone)."""
    num = g if typ == "num" else getattr(g, "__dict__", {}).get("number_generator")
    d = getattr(num, "__dict__", {}) if num is not None else {}
    return {"ctx": d.get("unique_identifer"), "pid_str": d.get("pid"), "start": d.get("start"),
            "randomize": d.get("randomize"), "parts": d.get("parts")}


def _set_ctx0(U, case):
    """Start the process-wide generator counter at case["ctx0"] (if the class still has that counter): gives
    reproducible witnesses and context numbers of every magnitude.  The context numbers actually used are
    observed per generator, never assumed."""
    import itertools
    ctx0 = case.get("ctx0")
    cls = getattr(U, "UniqueNumericIdGenerator", None)
    if isinstance(ctx0, int) and cls is not None and isinstance(getattr(cls, "context_uniqifier", None), itertools.count):
        cls.context_uniqifier = itertools.count(ctx0)
        return True
    return False


def _run_process(case):
    import snowfakery.standard_plugins.UniqueId as U
    _set_ctx0(U, case)
    gens_obs, objs = [], []
    with _observe() as (ev, have):
        for spec in case["gens"]:
            try:
                if spec["type"] == "num":
                    g = U.UniqueNumericIdGenerator(parts=spec["template"], pid=spec["pid"],
                                                   randomize=spec["randomize"], start=spec["start"])
                else:
                    g = U.AlphaUniquifier(parts=spec["template"], pid=spec["pid"], alphabet=spec["alphabet"],
                                          min_chars=spec["min_chars"], randomize_codes=spec["randomize_codes"])
            except BaseException as e:  # noqa
                if isinstance(e, C._CaseTimeout):
                    raise
                objs.append(None)
                gens_obs.append({"ctor_err": C.canon_exc(e)})
                continue
            objs.append(g)
            o = _gen_attrs(g, spec["type"])
            o.update({"draws": [], "n": 0, "nerr": 0, "errs": {}, "bpc": None})
            gens_obs.append(o)
        values = [dict() for _ in objs]        # value -> first draw number
        dup_within = [None] * len(objs)
        bad_alpha = [None] * len(objs)
        import snowfakery.utils.scrambled_numbers as sn
        mask_tab, mask_changed = {}, None

        def note_masks(events):
            nonlocal mask_changed
            for e in events:
                if e[0] == "mask":
                    old = mask_tab.setdefault((e[1], e[2]), e[3])
                    if old != e[3] and mask_changed is None:
                        mask_changed = [e[1], e[2], old, e[3]]

        for gi, n in case["schedule"]:
            if gi == "flush":
                # n distinct (key, numbits) pairs through scramble_number: more than the 128 entries that the
                # lru cache of mask_for_key holds, so earlier masks are recomputed afterwards
                i0 = len(ev)
                for j in range(n):
                    _call(sn.scramble_number, j % 10, 24 + j)
                note_masks(ev[i0:])
                del ev[i0:]
                continue
            g = objs[gi]
            if g is None:
                continue
            o = gens_obs[gi]
            spec = case["gens"][gi]
            sample = set(case["sample"].get(str(gi), []))
            for _ in range(n):
                k = o["n"]
                o["n"] += 1
                i0 = len(ev)
                try:
                    v = g.unique_id
                    r = {"k": k, "ok": v}
                except BaseException as e:  # noqa
                    if isinstance(e, C._CaseTimeout):
                        raise
                    r = {"k": k, "err": C.canon_exc(e)}
                    o["nerr"] += 1
                    o["errs"][r["err"]] = o["errs"].get(r["err"], 0) + 1
                obs1 = _obs_of(ev[i0:])
                if obs1["bpc"] is not None:
                    o["bpc"] = obs1["bpc"]
                if k in sample:
                    r.update(obs1)
                    o["draws"].append(r)
                note_masks(ev[i0:])
                del ev[i0:]
                if "ok" in r:
                    v = r["ok"]
                    if v in values[gi] and dup_within[gi] is None:
                        dup_within[gi] = [values[gi][v], k, v]
                    values[gi].setdefault(v, k)
                    if spec["type"] == "alpha" and bad_alpha[gi] is None:
                        abc = spec["alphabet"] or DEFAULT_ALPHABET
                        if not isinstance(v, str) or any(ch not in abc for ch in v):
                            bad_alpha[gi] = ["charset", k, v]
                        elif len(v) < spec["min_chars"]:
                            bad_alpha[gi] = ["length", k, v]
        cross = []
        for i in range(len(objs)):
            for j in range(i + 1, len(objs)):
                if objs[i] is None or objs[j] is None:
                    continue
                small, other = (values[i], values[j]) if len(values[i]) <= len(values[j]) else (values[j], values[i])
                for v in small:
                    if v in other:
                        cross.append([i, j, values[i][v], values[j][v], v])
                        break
        for gi, o in enumerate(gens_obs):
            if "ctor_err" not in o:
                o["distinct"] = len(values[gi])
                o["dup_within"] = dup_within[gi]
                o["bad_alpha"] = bad_alpha[gi]
        return {"gens": gens_obs, "cross": cross, "have": have, "mask_changed": mask_changed}


def recipe_text(case):
    # Without `snowfakery_version: 3` the output layer leaves strings alone except all-digit ones without a
    # leading zero (str(int(code)) == code).  With version 3 ("native types") a code that reads as a Python
    # literal is replaced by that literal's value (finding C13-native-literal); only corpus cases ask for it.
    lines = (["- snowfakery_version: 3"] if case.get("native") else []) + \
        (["- plugin: snowfakery.standard_plugins.UniqueId"] if case.get("plugin", True) else [])
    reg = bool(case.get("registry"))
    if reg:
        lines += ["- object: IdRegistry", "  nickname: Registry", "  just_once: true", "  fields:"]
    for v in case["vars"]:
        if reg:
            lines.append(f"    __{v['name']}:")
        else:
            lines.append(f"- var: {v['name']}")
            lines.append("  value:")
        if v["type"] == "num":
            lines.append("    UniqueId.NumericIdGenerator:")
            if v["template"] is not None:
                lines.append(f"      template: {json.dumps(v['template'])}")
        else:
            lines.append("    UniqueId.AlphaCodeGenerator:")
            if v["template"] is not None:
                lines.append(f"      template: {json.dumps(v['template'])}")
            if v["alphabet"] is not None:
                lines.append(f"      alphabet: {json.dumps(v['alphabet'])}")
            if v["min_chars"] is not None:
                lines.append(f"      min_chars: {v['min_chars']}")
            if v["randomize_codes"] is not None:
                lines.append(f"      randomize_codes: {'true' if v['randomize_codes'] else 'false'}")
    if reg:   # generator definitions sit two levels deeper inside the registry object's field
        fixed, inside = [], False
        for ln in lines:
            if ln.startswith("    __"):
                inside = True
                fixed.append(ln)
            elif inside and ln.startswith("    "):
                fixed.append("  " + ln)
            else:
                inside = inside and not ln.startswith("- ")
                fixed.append(ln)
        lines = fixed
    paths = case.get("paths") or []
    body = []
    for i, s in enumerate(case["fields"]):
        expr = s if s in ("unique_id", "unique_alpha_code", "UniqueId.unique_id") else \
            (f"Registry.__{s}.unique_id" if reg else f"{s}.unique_id")
        path = paths[i] if i < len(paths) else "direct"
        if path == "var":          # evaluated once per iteration, before the rows (such cases have count 1)
            lines += [f"- var: V{i}", f"  value: ${{{{{expr}}}}}"]
            body.append(f"    f{i}: ${{{{V{i}}}}}")
        elif path == "relay":
            body += [f"    __c{i}: ${{{{{expr}}}}}", f"    f{i}: ${{{{__c{i}}}}}"]
        elif path == "this":
            body += [f"    __c{i}: ${{{{{expr}}}}}", f"    f{i}: ${{{{this.__c{i}}}}}"]
        elif path == "concat":
            body.append(f"    f{i}: ${{{{{expr} ~ ''}}}}")
        elif path == "filter":
            body.append(f"    f{i}: ${{{{{expr} | string}}}}")
        elif path == "choice":
            body += [f"    f{i}:", "      if:", "        - choice:", "            when: ${{1 > 2}}",
                     "            pick: never", "        - choice:", f"            pick: ${{{{{expr}}}}}"]
        else:
            body.append(f"    f{i}: ${{{{{expr}}}}}")
    lines.append("- object: A")
    lines.append(f"  count: {case['count']}")
    lines.append("  fields:")
    lines += body
    return "\n".join(lines) + "\n"


# ---------------------------------------------------------------- chains: process-wide trace
_SIMPLE = (str, int, bool, type(None))


class _Trace:
    """Everything the generator classes do in this process, observed from outside through class-level wrappers
    around the PUBLIC constructors and the PUBLIC unique_id properties: constructor calls (arguments, outcome) and
    draws (value / error, with the mask and int(log) values seen during the draw), in order, over all runs."""

    def __init__(self, U, sn, ev, have):
        self.U, self.sn, self.ev, self.have = U, sn, ev, have
        self.events = []          # ["new", g] | ["newerr", type, kw, err] | ["draw", g, rec] | ["skip", g, n] | ["boundary"]
        self.gens = []            # per successfully constructed top-level generator
        self.objs = []            # strong references: id() is never reused while the trace lives
        self.index = {}           # id(obj) -> g
        self.values = []          # per generator: value -> first draw number
        self.cdepth = self.ddepth = 0
        self.complete = True
        self.installed = False
        self.patches = []
        self.mask_tab, self.mask_changed = {}, None
        self.step = 0             # index of the step of the chain that is being executed
        self.scr = []             # [step, number, minbits, value] of scramble_number calls (sampled)
        self.scr_seen = 0
        self.replay_fail = None
        self.orig_scramble = None
        self.run_values = []      # values of the top-level draws since the last reset, in order

    # ---- installation
    def install(self):
        U = self.U
        try:
            for typ, cls in (("num", U.UniqueNumericIdGenerator), ("alpha", U.AlphaUniquifier)):
                orig_init = cls.__dict__["__init__"]
                prop = cls.__dict__["unique_id"]
                fget = prop.fget
                if not callable(orig_init) or not callable(fget):
                    raise AttributeError("unique_id")
                cls.__init__ = self._mk_init(orig_init, typ)
                self.patches.append((cls, "__init__", orig_init))
                setattr(cls, "unique_id", property(self._mk_getter(fget)))
                self.patches.append((cls, "unique_id", prop))
            self.installed = True
        except (AttributeError, KeyError, TypeError):
            self.uninstall()
            self.installed = False
        orig = getattr(self.sn, "scramble_number", None)
        if callable(orig) and self.installed:
            self.orig_scramble = orig

            def scramble_number(number, *a, **kw):
                r = orig(number, *a, **kw)
                mb = a[0] if a else kw.get("minbits", 10)
                if isinstance(number, int) and isinstance(mb, int) and isinstance(r, int):
                    self.ev.append(("scr", number, mb, r))
                    self._note_scramble(number, mb, r)
                return r
            _keep_attrs(scramble_number, orig)
            # the generator classes reach it through the name imported into UniqueId.py, or through the module
            for mod in (U, self.sn):
                if getattr(mod, "scramble_number", None) is orig:
                    mod.scramble_number = scramble_number
                    self.patches.append((mod, "scramble_number", orig))

    def uninstall(self):
        for obj, name, orig in reversed(self.patches):
            setattr(obj, name, orig)
        self.patches = []

    def _mk_init(self, orig_init, typ):
        tr = self

        def __init__(obj, *a, **kw):
            tr.cdepth += 1
            err = None
            try:
                orig_init(obj, *a, **kw)
            except BaseException as e:  # noqa
                err = e
                raise
            finally:
                tr.cdepth -= 1
                if tr.cdepth == 0 and not isinstance(err, (KeyboardInterrupt, C._CaseTimeout)):
                    if tr.ddepth == 0:
                        tr._created(typ, obj, a, kw, err)
                    else:          # a generator made in the middle of a draw: the trace has no place for it
                        tr.complete = False
        return __init__

    def _mk_getter(self, fget):
        tr = self

        def getter(obj):
            top = tr.ddepth == 0 and tr.cdepth == 0
            i0 = len(tr.ev)
            tr.ddepth += 1
            r = {}
            try:
                v = fget(obj)
                r["ok"] = v
                return v
            except BaseException as e:  # noqa
                if isinstance(e, (KeyboardInterrupt, C._CaseTimeout)):
                    top = False
                r["err"] = C.canon_exc(e)
                raise
            finally:
                tr.ddepth -= 1
                if top:
                    tr._drawn(obj, r, i0)
        return getter

    # ---- recording
    def _created(self, typ, obj, a, kw, err):
        simple = not a and all(isinstance(v, _SIMPLE) for v in kw.values())
        kwj = {k: v for k, v in kw.items() if isinstance(v, _SIMPLE)}
        if err is not None:
            self.events.append(["newerr", typ, kwj if simple else None, C.canon_exc(err)])
            return
        g = len(self.gens)
        self.index[id(obj)] = g
        self.objs.append(obj)
        o = _gen_attrs(obj, typ)
        o.update({"type": typ, "kw": kwj if simple else None, "n": 0, "nerr": 0, "errs": {}, "bpc": None,
                  "dup_within": None, "bad_alpha": None, "since": 0, "made_in_step": self.step})
        self.gens.append(o)
        self.values.append({})
        self.events.append(["new", g])

    def _note_masks(self, events):
        """the process-wide table (key, numbits) -> mask.  A mask is what mask_for_key returned; for a
        scramble_number call during which mask_for_key was not seen (renamed / inlined) it is what the argument
        and the result determine: result // 10^4 xor number // 10, under key number % 10, numbits result % 1000."""
        seen_mask = False
        for e in events:
            key = None
            if e[0] == "mask":
                key, m = (e[1], e[2]), e[3]
                seen_mask = True
            elif e[0] == "scr":
                if not seen_mask:
                    key, m = (e[1] % 10, e[3] % 1000), (e[3] // 10000) ^ (e[1] // 10)
                seen_mask = False
            if key is not None:
                old = self.mask_tab.setdefault(key, (m, self.step))
                if old[0] != m and self.mask_changed is None:
                    self.mask_changed = [key[0], key[1], old[0], m, old[1], self.step]

    def _note_scramble(self, number, mb, r):
        self.scr_seen += 1
        k = self.scr_seen
        if k <= 60 or k % 13 == 0 or sum(1 for x in self.scr[-8:] if x[0] == self.step) < 8:
            if len(self.scr) < 1500:
                self.scr.append([self.step, number, mb, r])

    def _drawn(self, obj, r, i0):
        if len(self.run_values) < 20000:
            self.run_values.append(_plain(r.get("ok")) if "ok" in r else None)
        evs = self.ev[i0:]
        del self.ev[i0:]
        self._note_masks(evs)
        g = self.index.get(id(obj))
        if g is None or self.objs[g] is not obj:
            self.complete = False
            return
        o = self.gens[g]
        k = o["n"]
        o["n"] += 1
        rec = dict(r, k=k)
        if "err" in r:
            o["nerr"] += 1
            o["errs"][r["err"]] = o["errs"].get(r["err"], 0) + 1
        obs1 = _obs_of(evs)
        sc = [e for e in evs if e[0] == "scr"]
        if "ok" in r and len(sc) == 1:
            if obs1["mask"] is None:       # mask_for_key was not seen during this draw: see _note_masks
                obs1["mask"] = (sc[0][3] // 10000) ^ (sc[0][1] // 10)
                obs1["ncalls"] = 1
            if obs1["nb"] is None:         # the float log was not seen: the numbits the result carries
                obs1["nb"] = sc[0][3] % 1000
        if obs1["bpc"] is not None:
            o["bpc"] = obs1["bpc"]
        keep = k < 10 or o["since"] < 4 or k % 41 == 0
        o["since"] += 1
        if keep:
            rec.update(obs1)
            self.events.append(["draw", g, rec])
        elif self.events and self.events[-1][0] == "skip" and self.events[-1][1] == g:
            self.events[-1][2] += 1
        else:
            self.events.append(["skip", g, 1])
        if "ok" in r:
            v = r["ok"]
            vals = self.values[g]
            try:
                if v in vals and o["dup_within"] is None:
                    o["dup_within"] = [vals[v], k, v if isinstance(v, (int, str)) else repr(v)]
                vals.setdefault(v, k)
            except TypeError:
                pass
            if o["type"] == "alpha" and o["bad_alpha"] is None and o["kw"] is not None:
                abc = o["kw"].get("alphabet") or DEFAULT_ALPHABET
                mc = o["kw"].get("min_chars", 8)
                if not isinstance(v, str) or not isinstance(abc, str) or any(ch not in abc for ch in v):
                    o["bad_alpha"] = ["charset", k, v if isinstance(v, (int, str)) else repr(v)]
                elif isinstance(mc, int) and len(v) < mc:
                    o["bad_alpha"] = ["length", k, v]

    def boundary(self):
        self.events.append(["boundary"])
        for o in self.gens:
            o["since"] = 0

    # ---- later in the process: is every scramble of earlier runs still undone / reproduced?
    def replay(self):
        if self.orig_scramble is None:
            return
        un = getattr(self.sn, "unscramble_number", None)
        todo = self.scr if len(self.scr) <= 240 else self.scr[:120] + self.scr[-120:]
        for made, number, mb, v in todo:
            i0 = len(self.ev)
            back = _call(un, v) if callable(un) else {"ok": number}
            again = _call(self.orig_scramble, number, mb)
            self._note_masks(self.ev[i0:])
            del self.ev[i0:]
            if (back.get("ok") != number or again.get("ok") != v) and self.replay_fail is None:
                self.replay_fail = {"made_in_step": made, "checked_after_step": self.step, "number": number,
                                    "minbits": mb, "value": v, "unscrambled_now": back, "scrambled_now": again}


def _chain_run_case(case, step):
    lin = case["lineages"][step["lin"]]
    return dict(lin, big=step["big"], count=step["count"], iterations=step["iterations"])


def _run_chain(case):
    import snowfakery.standard_plugins.UniqueId as U
    import snowfakery.utils.scrambled_numbers as sn
    from snowfakery import generate_data
    ctx_set = _set_ctx0(U, case)
    runs, direct, scr_out = [], [], []
    conts = {}
    with _observe() as (ev, have):
        tr = _Trace(U, sn, ev, have)
        tr.install()
        try:
            for si, step in enumerate(case["steps"]):
                tr.step = si
                op = step["op"]
                if op == "run":
                    rc = _chain_run_case(case, step)
                    opts = {}
                    if rc["big"] is not None:
                        opts["big_ids"] = "true" if rc["big"] else "false"
                    if rc["pid"] is not None:
                        opts["pid"] = rc["pid"]
                    nf = len(rc["fields"])
                    res = {"step": si}
                    tr.run_values = []
                    try:
                        out, nxt = io.StringIO(), io.StringIO()
                        prev = conts.get(step["lin"]) if step["cont"] else None
                        kw = {}
                        if rc["iterations"] > 1:
                            kw["target_number"] = ("A", rc["count"] * rc["iterations"])
                        generate_data(io.StringIO(recipe_text(rc)), output_file=out, output_format="json",
                                      plugin_options=opts, continuation_file=io.StringIO(prev) if prev else None,
                                      generate_continuation_file=nxt, **kw)
                        conts[step["lin"]] = nxt.getvalue()
                        res["rows"] = [[row.get(f"f{i}") for i in range(nf)] for row in json.loads(out.getvalue())
                                       if row.get("_table") == "A"]
                    except BaseException as e:  # noqa
                        if isinstance(e, (KeyboardInterrupt, C._CaseTimeout)):
                            raise
                        res["err"] = C.canon_exc(e)
                    if tr.installed:
                        res["drawn"] = tr.run_values
                        res["ndrawn"] = len(tr.run_values)
                    tr.run_values = []
                    runs.append(res)
                    tr._note_masks(ev)
                    del ev[:]
                    tr.boundary()
                elif op == "scramble":
                    items = []
                    for number, minbits in step["items"]:
                        i0 = len(ev)
                        r = _call(tr.orig_scramble or sn.scramble_number, number, minbits)
                        if "ok" in r:
                            r["back"] = _call(sn.unscramble_number, r["ok"])
                            if isinstance(r["ok"], int) and isinstance(number, int):
                                ev.append(("scr", number, minbits, r["ok"]))
                                tr._note_scramble(number, minbits, r["ok"])
                        tr._note_masks(ev[i0:])
                        del ev[i0:]
                        items.append(r)
                    scr_out.append({"step": si, "items": items})
                elif op == "objects":
                    for spec in step["gens"]:
                        try:
                            if spec["type"] == "num":
                                g = U.UniqueNumericIdGenerator(parts=spec["template"], pid=spec["pid"],
                                                               randomize=spec["randomize"], start=spec["start"])
                            else:
                                g = U.AlphaUniquifier(parts=spec["template"], pid=spec["pid"],
                                                      alphabet=spec["alphabet"], min_chars=spec["min_chars"],
                                                      randomize_codes=spec["randomize_codes"])
                        except BaseException as e:  # noqa
                            if isinstance(e, (KeyboardInterrupt, C._CaseTimeout)):
                                raise
                            g = None
                        direct.append(g)
                elif op == "draw":
                    for di, n in step["draws"]:
                        g = direct[di] if 0 <= di < len(direct) else None
                        if g is None:
                            continue
                        for _ in range(n):
                            try:
                                g.unique_id
                            except BaseException as e:  # noqa
                                if isinstance(e, (KeyboardInterrupt, C._CaseTimeout)):
                                    raise
                elif op == "flush":
                    i0 = len(ev)
                    for j in range(step["n"]):
                        _call(tr.orig_scramble or sn.scramble_number, j % 10, 24 + j)
                    tr._note_masks(ev[i0:])
                    del ev[i0:]
                if case.get("checkpoints") == "every":
                    tr.replay()
            tr.step = len(case["steps"])
            tr.replay()
        finally:
            tr.uninstall()
    # same-shape generators anywhere in the process: a value in common?
    cross = []
    ng = len(tr.gens)
    if ng <= 400:
        for i in range(ng):
            for j in range(i + 1, ng):
                a, b = tr.values[i], tr.values[j]
                small, other = (a, b) if len(a) <= len(b) else (b, a)
                for v in small:
                    if v in other:
                        cross.append([i, j, a[v], b[v], v if isinstance(v, (int, str)) else repr(v)])
                        break
                if len(cross) >= 50:
                    break
    gens = [{k: v for k, v in o.items() if k != "since"} for o in tr.gens]
    return {"runs": runs, "scrambles": scr_out, "events": tr.events, "gens": gens, "cross": cross,
            "have": have, "installed": tr.installed, "complete": tr.complete, "ctx_set": bool(ctx_set),
            "masks": [[k[0], k[1], m[0]] for k, m in tr.mask_tab.items()],
            "mask_changed": tr.mask_changed, "replay_fail": tr.replay_fail,
            "replayed": tr.orig_scramble is not None, "n_scr": tr.scr_seen}


# ---------------------------------------------------------------- one generator, several names: recipe and runs
def _names_spelling(case, rd):
    """the expression (without `.__fld.unique_id`) by which read `rd` names the row of its holder, plus what the
    recipe must declare for it: (expr, order_ref_field | None, var | None, keeper_field | None)"""
    hd = case["holders"][rd["h"]]
    target = hd["nick"] if rd["fam"] == "nick" else hd["table"]
    tag = f"{rd['h']}{'n' if rd['fam'] == 'nick' else 't'}"
    route = rd["route"]
    if route == "direct":
        return target, None, None, None
    if route == "ref":
        return f"r{tag}", (f"r{tag}", target), None, None
    if route == "this":
        return f"this.r{tag}", (f"r{tag}", target), None, None
    if route == "var":
        return f"S{tag}", None, (f"S{tag}", target), None
    if route == "keeper":
        return f"Kp.k{tag}", None, None, (f"k{tag}", target)
    if route == "keeper_table":
        return f"Keeper.k{tag}", None, None, (f"k{tag}", target)
    if route == "parent":
        return f"Order.r{tag}", (f"r{tag}", target), None, None
    if route == "up":
        return f"o.r{tag}", (f"r{tag}", target), None, None
    raise ValueError(route)


def _names_route(rd, i):
    """two spellings of the same route alternate with the position of the read"""
    if rd["route"] == "ref" and i % 2:
        return dict(rd, route="this")
    if rd["route"] == "keeper" and i % 2:
        return dict(rd, route="keeper_table")
    return rd


def _names_fld(case, rd):
    hd = case["holders"][rd["h"]]
    return "" if hd.get("kind") == "var" else f".__{hd['gens'][rd['g']]['fld']}"


def names_exprs(case):
    return [_names_spelling(case, _names_route(rd, i))[0] + _names_fld(case, rd)
            for i, rd in enumerate(case["reads"])]


def names_text(case):
    lines = ["- plugin: snowfakery.standard_plugins.UniqueId"]
    for hd in case["holders"]:
        kind = hd.get("kind", "once")
        if kind == "var":
            lines += [f"- var: {hd['nick']}", "  value:"]
            ind = "    "
        else:
            lines.append(f"- object: {hd['table']}")
            if hd["nick"]:
                lines.append(f"  nickname: {hd['nick']}")
            lines += (["  just_once: true"] if kind == "once" else []) + ["  fields:"]
            ind = "      "
        for v in hd["gens"]:
            if kind != "var":
                lines.append(f"    __{v['fld']}:")
            if v["type"] == "num":
                lines.append(ind + "UniqueId.NumericIdGenerator:")
            else:
                lines.append(ind + "UniqueId.AlphaCodeGenerator:")
                if v["alphabet"] is not None:
                    lines.append(ind + f"  alphabet: {json.dumps(v['alphabet'])}")
                if v["min_chars"] is not None:
                    lines.append(ind + f"  min_chars: {v['min_chars']}")
                if v["randomize_codes"] is not None:
                    lines.append(ind + f"  randomize_codes: {'true' if v['randomize_codes'] else 'false'}")
            if v["template"] is not None:
                lines.append(ind + f"  template: {json.dumps(v['template'])}")
    refs, vars_, keeps, order_f, line_f = [], [], [], [], []
    for i, rd in enumerate(case["reads"]):
        rd = _names_route(rd, i)
        expr, ref, var, keep = _names_spelling(case, rd)
        for lst, x in ((refs, ref), (vars_, var), (keeps, keep)):
            if x is not None and x not in lst:
                lst.append(x)
        (line_f if rd["row"] == "Line" else order_f).append(
            f"f{i}: ${{{{{expr}{_names_fld(case, rd)}.unique_id}}}}")
    if keeps:
        lines += ["- object: Keeper", "  nickname: Kp", "  just_once: true", "  fields:"]
        for name, target in keeps:
            lines += [f"    {name}:", f"      reference: {target}"]
    for name, target in vars_:
        lines += [f"- var: {name}", "  value:", f"    reference: {target}"]
    lines += ["- object: Order", f"  count: {case['count']}", "  fields:"]
    for name, target in refs:
        lines += [f"    {name}:", f"      reference: {target}"]
    lines += ["    " + f for f in order_f]
    if not refs and not order_f:
        lines.append("    plain: 1")
    if case["lines"] and line_f:
        lines += ["  friends:", "    - object: Line", f"      count: {case['lines']}", "      fields:",
                  "        o:", "          reference: Order"]
        lines += ["        " + f for f in line_f]
    return "\n".join(lines) + "\n"


def _names_index(case, spec, v, unscramble):
    """the index the generator used for the id / code v, read back from v alone: (alpha: the code as a number
    over its alphabet,) unscramble_number - the public inverse of the scramble -, the decimal digits split at the
    9s, every chunk an octal number; the chunk at the place of `index`.  None when v does not have that form."""
    typ, shape, optkey = _names_spec(case, spec)
    if shape is None or "PIndex" not in shape or not callable(unscramble):
        return None
    try:
        if typ == "num":
            if isinstance(v, bool) or not isinstance(v, int):
                return None
            n = unscramble(v)
        else:
            abc, code = optkey[1], str(v)
            if isinstance(v, bool) or not isinstance(v, (str, int)) or len(set(abc)) != len(abc) or \
                    any(ch not in abc for ch in code):
                return None
            n = 0
            for ch in code:
                n = n * len(abc) + abc.index(ch)
            if optkey[3]:
                n = unscramble(n)
        if isinstance(n, bool) or not isinstance(n, int) or n < 0:
            return None
        chunks = str(n).split("9")
        if chunks[0] == "" and len(chunks) > 1:
            chunks[0] = "0"             # a leading number 0 disappears in front of its separator
        if any(not re.fullmatch(r"[0-7]+", ch) for ch in chunks):
            return None
        # `pid` is one number when the pid option reached the constructor, otherwise two (seconds, os pid); a
        # generator rebuilt by a continuation never gets the option
        for npid in (1, 2):
            want, at = 0, None
            for part in shape:
                if part == "PIndex" and at is None:
                    at = want
                want += npid if part == "PPid" else 1
            if len(chunks) == want:
                return int(chunks[at], 8)
        return None
    except Exception:   # noqa
        return None


def _names_rows(case, txt, unscramble):
    """the Order / Line rows in output order, each with its f<i> cells [read index, value, index read back]"""
    rows = []
    for row in json.loads(txt) if txt.strip() else []:
        t = row.get("_table")
        if t not in ("Order", "Line"):
            continue
        cells = []
        for k, v in row.items():
            if re.fullmatch(r"f[0-9]+", k) and int(k[1:]) < len(case["reads"]):
                rd = case["reads"][int(k[1:])]
                spec = case["holders"][rd["h"]]["gens"][rd["g"]]
                idx = _names_index(case, spec, v, unscramble)
                cells.append([int(k[1:]), _plain(v), idx if idx is None or idx < 10 ** 9 else None])
        rows.append([t, cells])
    return rows


def _names_cells(rows):
    """[read index, row number within its table, value] of every f<i> cell, in output order"""
    cells, nrow = [], Counter()
    for t, cs in rows:
        for i, v, _idx in cs:
            cells.append([i, nrow[t], v])
        nrow[t] += 1
    return cells, nrow["Order"]


def _run_names(case):
    import subprocess
    import sys
    import tempfile
    import warnings
    import snowfakery.standard_plugins.UniqueId as U
    import snowfakery.utils.scrambled_numbers as sn
    from snowfakery import generate_data
    ctx_set = _set_ctx0(U, case)
    text = names_text(case)
    opts = {}
    if case["big"] is not None:
        opts["big_ids"] = "true" if case["big"] else "false"
    if case["pid"] is not None:
        opts["pid"] = case["pid"]
    runs, prev = [], None
    with tempfile.TemporaryDirectory(prefix="c13names") as tmp, warnings.catch_warnings():
        warnings.simplefilter("ignore")
        recipe = os.path.join(tmp, "recipe.yml")
        with open(recipe, "w", encoding="utf-8") as w:
            w.write(text)
        for k, link in enumerate(case["links"]):
            use_cont = bool(link["cont"]) and prev is not None
            target = case["count"] * link["n"]
            res = {"via": link["via"], "continued": use_cont, "target": target}
            outp, nxtp, prevp = (os.path.join(tmp, f"{x}{k}") for x in ("out.json", "next.yml", "prev.yml"))
            try:
                if link["via"] == "text":
                    out, nxt = io.StringIO(), io.StringIO()
                    generate_data(io.StringIO(text), output_file=out, output_format="json", plugin_options=opts,
                                  continuation_file=io.StringIO(prev) if use_cont else None,
                                  generate_continuation_file=nxt, target_number=("Order", target))
                    txt, new_prev = out.getvalue(), nxt.getvalue()
                else:
                    if use_cont:
                        with open(prevp, "w", encoding="utf-8") as w:
                            w.write(prev)
                    if link["via"] == "path":
                        generate_data(recipe, output_file=outp, output_format="json", plugin_options=opts,
                                      continuation_file=prevp if use_cont else None,
                                      generate_continuation_file=nxtp, target_number=("Order", target))
                    else:
                        args = [recipe, "--output-format", "json", "--output-file", outp,
                                "--generate-continuation-file", nxtp, "--target-number", str(target), "Order"]
                        if use_cont:
                            args += ["--continuation-file", prevp]
                        for name, v in opts.items():
                            args += ["--plugin-option", name, str(v)]
                        if link["via"] == "cli":
                            import click
                            from snowfakery.cli import generate_cli
                            try:
                                with contextlib.redirect_stdout(io.StringIO()), contextlib.redirect_stderr(io.StringIO()):
                                    generate_cli.main(args, standalone_mode=False)
                            except click.ClickException as e:
                                if e.__cause__ is not None:
                                    raise e.__cause__
                                raise
                        else:           # a fresh process started the way a shell starts it
                            try:
                                p = subprocess.run([sys.executable, "-W", "ignore", "-m", "snowfakery"] + args,
                                                   stdout=subprocess.PIPE, stderr=subprocess.PIPE, text=True,
                                                   timeout=max(20, CASE_TIMEOUT // 3))
                            except (subprocess.TimeoutExpired, OSError) as e:
                                res["skip"] = type(e).__name__
                                runs.append(res)
                                continue
                            if p.returncode != 0:
                                res["err"] = "exit %d: %s" % (p.returncode, (p.stderr or "").strip()[-300:])
                                runs.append(res)
                                continue
                    with open(outp, encoding="utf-8") as r:
                        txt = r.read()
                    with open(nxtp, encoding="utf-8") as r:
                        new_prev = r.read()
                res["rows"] = _names_rows(case, txt, getattr(sn, "unscramble_number", None))
                res["cells"], res["orders"] = _names_cells(res["rows"])
                prev = new_prev
            except BaseException as e:  # noqa
                if isinstance(e, (KeyboardInterrupt, C._CaseTimeout)):
                    raise
                res["err"] = C.canon_exc(e)
            runs.append(res)
    return {"runs": runs, "ctx_set": bool(ctx_set)}


def _names_spec(case, v):
    """what the oracle may claim about one generator of a holder row: (type, shape, key of its options)"""
    big = bool(case["big"])
    tpl = v["template"]
    if v["type"] == "num":
        shape = _shape(tpl) if tpl else (("PPid", "PContext", "PIndex") if big else ("PContext", "PIndex"))
        return "num", shape, ("num",)
    shape = _shape(tpl) if tpl else (("PPid", "PContext", "PIndex") if big else ("PIndex",))
    abc = v["alphabet"] or DEFAULT_ALPHABET
    return "alpha", shape, ("alpha", abc, 8 if v["min_chars"] is None else v["min_chars"],
                            v["randomize_codes"] is not False)


def _names_failures(case, obs):
    """ids drawn from what the recipe treats as ONE generator are pairwise distinct within every run, whatever
    names the formulas used; generators whose template contains `context` never share a value with a generator of
    the same shape and options anywhere in the runs of this process (fresh-process runs have a counter of their own
    and take no part in that)."""
    fails = []
    exprs = names_exprs(case)
    process_wide = {}
    for k, run in enumerate(obs.get("runs", [])):
        label = f"run {k} ({run.get('via')}, {'continued' if run.get('continued') else 'fresh'})"
        if "skip" in run:
            continue
        if "err" in run:
            fails.append(f"names: {label}: a valid recipe failed with {run['err']}")
            continue
        cells = run.get("cells", [])
        if run.get("orders", 0) < run.get("target", 0):
            fails.append(f"names: {label}: {run.get('orders')} Order rows instead of at least {run.get('target')}")
        per_gen = {}
        for i, ri, v in cells:
            if not (0 <= i < len(case["reads"])):
                continue
            rd = case["reads"][i]
            hd = case["holders"][rd["h"]]
            spec = hd["gens"][rd["g"]]
            typ, shape, optkey = _names_spec(case, spec)
            here = f"`{exprs[i]}` ({rd['row']} row {ri} f{i})"
            kind = hd.get("kind", "once")
            what = (f"`var: {hd['nick']}`" if kind == "var" else
                    f"field __{spec['fld']} of the {'just_once ' if kind == 'once' else ''}row {hd['table']}"
                    f"{' (nickname ' + hd['nick'] + ')' if hd['nick'] else ''}")
            # a generator held by a just_once row is one generator for the whole run; one held by a `var:` or by
            # an ordinary row is made anew in every iteration
            per_it = case["count"] * (case["lines"] if rd["row"] == "Line" else 1)
            it = None if kind == "once" else ri // max(1, per_it)
            if typ == "num":
                if isinstance(v, bool) or not isinstance(v, int):
                    fails.append(f"names: {label}: {here} did not give an id of the generator in {what} but {v!r}")
                    continue
                val = v
            else:
                if isinstance(v, bool) or not isinstance(v, (str, int)) or v == "":
                    fails.append(f"names: {label}: {here} did not give a code of the generator in {what} but {v!r}")
                    continue
                val = str(v)
                abc, mc = optkey[1], optkey[2]
                if any(ch not in abc for ch in val):
                    fails.append(f"names: {label}: code {val!r} from {here} has characters outside {abc!r}")
                    continue
                if len(val) < mc:
                    fails.append(f"names: {label}: code {val!r} from {here} is shorter than min_chars={mc}")
                    continue
                if len(set(abc)) != len(abc):
                    continue
            if shape is None or "PIndex" not in shape:
                continue
            seen = per_gen.setdefault((rd["h"], rd["g"], it), {})
            if val in seen:
                fails.append(f"names: {label}: the generator in {what}, template {spec['template']!r}, handed out "
                             f"{val!r} twice in one {'run' if it is None else 'iteration'}: through {seen[val]} and "
                             f"through {here}")
            seen.setdefault(val, here)
            if "PContext" in shape and run.get("via") != "proc":
                key = (optkey, shape)
                who = (k, rd["h"], rd["g"], it)
                old = process_wide.setdefault(key, {}).setdefault(val, (who, f"{label} {here}"))
                if old[0] != who:
                    fails.append(f"names: {val!r} was handed out twice in one process by generators whose template "
                                 f"{spec['template']!r} contains `context`: {old[1]} and {label} {here}")
    return fails


_DELETE = object()


def _plain(v):
    """a value as it can be stored in the observation (JSON): strings, ints and floats as they are"""
    if isinstance(v, (str, int, float, bool, type(None))):
        return v
    return {"repr": repr(v)[:200]}


def _arrival(typ, a, kw):
    """the arguments a recipe's `UniqueId.AlphaCodeGenerator:` / `NumericIdGenerator:` call arrives with"""
    d = {"type": typ, "template": _plain(kw.get("template")), "alphabet": _plain(kw.get("alphabet"))}
    if typ == "alpha" and a and "template" not in kw:
        d["template"] = _plain(a[0])
    return d


def _run_recipe(case):
    import snowfakery.standard_plugins.UniqueId as U
    from snowfakery import generate_data
    _set_ctx0(U, case)
    F = U.UniqueId.Functions
    created = []          # (type, kwargs, args, object)
    arrived = []          # what the plugin's generator functions were called with (before they do anything)
    order = []            # every top-level draw of the process, in order: the value returned (None: it raised)
    restored = []         # (args, object): numeric generators re-created from a continuation file
    draws = {}            # id(obj) -> list of draw records
    patches = []
    instrumented = True

    with _observe() as (ev, have):
        try:
            orig_num, orig_alpha = F.NumericIdGenerator, F.AlphaCodeGenerator

            def NumericIdGenerator(self, *a, **kw):
                arrived.append(_arrival("num", a, kw))
                r = orig_num(self, *a, **kw)
                created.append(("num", dict(kw), list(a), r))
                return r

            def AlphaCodeGenerator(self, *a, **kw):
                arrived.append(_arrival("alpha", a, kw))
                r = orig_alpha(self, *a, **kw)
                created.append(("alpha", dict(kw), list(a), r))
                return r
            F.NumericIdGenerator, F.AlphaCodeGenerator = NumericIdGenerator, AlphaCodeGenerator
            patches.append((F, "NumericIdGenerator", orig_num))
            patches.append((F, "AlphaCodeGenerator", orig_alpha))
            fc = U.UniqueNumericIdGenerator.__dict__.get("_from_continuation") or \
                getattr(U.UniqueNumericIdGenerator, "_from_continuation", None)
            if fc is not None:
                had_own = "_from_continuation" in U.UniqueNumericIdGenerator.__dict__
                raw_fc = U.UniqueNumericIdGenerator.__dict__.get("_from_continuation")
                orig_fc = U.UniqueNumericIdGenerator._from_continuation     # bound classmethod

                def _from_continuation(cls, args):
                    r = orig_fc(args)
                    restored.append((dict(args) if isinstance(args, dict) else None, r))
                    return r
                U.UniqueNumericIdGenerator._from_continuation = classmethod(_from_continuation)
                patches.append((U.UniqueNumericIdGenerator, "_from_continuation", raw_fc if had_own else _DELETE))
            depth = [0]
            for cls in (U.UniqueNumericIdGenerator, U.AlphaUniquifier):
                prop = cls.__dict__["unique_id"]
                fget = prop.fget

                def getter(self, _fget=fget):
                    i0 = len(ev)
                    depth[0] += 1
                    r = {}
                    try:
                        v = _fget(self)
                        r["ok"] = v
                        return v
                    except BaseException as e:  # noqa
                        r["err"] = C.canon_exc(e)
                        raise
                    finally:
                        depth[0] -= 1
                        if depth[0] == 0:
                            order.append(_plain(r.get("ok")) if "ok" in r else None)
                            lst = draws.setdefault(id(self), [])
                            r["k"] = len(lst)
                            r.update(_obs_of(ev[i0:]))
                            lst.append(r)
                setattr(cls, "unique_id", property(getter))
                patches.append((cls, "unique_id", prop))
        except (AttributeError, KeyError):
            instrumented = False
        try:
            opts = {}
            if case["big"] is not None:
                opts["big_ids"] = "true" if case["big"] else "false"
            if case["pid"] is not None:
                opts["pid"] = case["pid"]
            res = {}
            try:
                nf = len(case["fields"])
                text = recipe_text(case)
                if case.get("registry"):
                    # run, then continue iterations-1 times from the continuation file, all in this process
                    res["rows"], cont = [], None
                    for _run in range(case["iterations"]):
                        out, nxt = io.StringIO(), io.StringIO()
                        generate_data(io.StringIO(text), output_file=out, output_format="json", plugin_options=opts,
                                      continuation_file=io.StringIO(cont) if cont else None,
                                      generate_continuation_file=nxt)
                        cont = nxt.getvalue()
                        res["rows"] += [[row.get(f"f{i}") for i in range(nf)] for row in json.loads(out.getvalue())
                                        if row.get("_table") == "A"]
                else:
                    out = io.StringIO()
                    generate_data(io.StringIO(text), output_file=out, output_format="json",
                                  target_number=("A", case["count"] * case["iterations"]), plugin_options=opts)
                    rows = json.loads(out.getvalue())
                    res["rows"] = [[row.get(f"f{i}") for i in range(nf)] for row in rows if row.get("_table") == "A"]
            except BaseException as e:  # noqa
                if isinstance(e, C._CaseTimeout):
                    raise
                res["err"] = C.canon_exc(e)
        finally:
            for obj, name, orig in patches:
                if orig is _DELETE:
                    try:
                        delattr(obj, name)
                    except AttributeError:
                        pass
                else:
                    setattr(obj, name, orig)
    gens = []
    if instrumented:
        for typ, kw, args, obj in created:
            o = _gen_attrs(obj, typ)
            d = getattr(obj, "__dict__", {})
            o.update({"type": typ, "kw": {k: v for k, v in kw.items() if isinstance(v, (str, int, bool, type(None)))},
                      "kw_ok": all(isinstance(v, (str, int, bool, type(None))) for v in kw.values()),
                      "nargs": len(args),
                      "args": [a if isinstance(a, (str, int, bool, type(None))) else "<object>" for a in args],
                      "draws": draws.get(id(obj), [])[:400],
                      "ndraws": len(draws.get(id(obj), []))})
            bp = [r["bpc"] for r in draws.get(id(obj), []) if r.get("bpc") is not None]
            o["bpc"] = bp[0] if bp else None
            gens.append(o)
        for args, obj in restored:
            o = _gen_attrs(obj, "num")
            simple = isinstance(args, dict) and all(isinstance(v, (str, int, bool, type(None))) for v in args.values())
            o.update({"type": "num", "restored_args": args if simple else None,
                      "draws": draws.get(id(obj), [])[:400], "ndraws": len(draws.get(id(obj), [])), "bpc": None})
            gens.append(o)
    res.update({"gens": gens, "instrumented": instrumented, "have": have, "mask_is_function": _mask_table_ok(ev)})
    if instrumented:
        res["drawn"] = order[:20000]
        res["ndrawn"] = len(order)
        res["arrived"] = arrived[:2000]
    return res


# ================================================================ model side
def _cz(n):
    """Z literal; large numbers in hexadecimal (Coq reads 0x... about ten times faster than decimal)"""
    n = int(n)
    if -10 ** 12 < n < 10 ** 12:
        return C.cz(n)
    return f"(-{hex(-n)})" if n < 0 else hex(n)


def parse_template(tpl):
    """UniqueNumericIdGenerator.__init__ / _convert: split on ',', strip, lower, classify."""
    parts = []
    for p in tpl.split(","):
        p = p.strip().lower()
        if p == "pid":
            parts.append("PPid")
        elif p.isnumeric():
            try:
                parts.append(f"(PNum {_cz(int(p))})")
            except ValueError:
                return None
        elif p == "index":
            parts.append("PIndex")
        elif p == "context":
            parts.append("PContext")
        else:
            parts.append("PBad")
    return parts


def _ascii_src(tpl):
    """the template string as code points, or None when the model does not cover it (non-ASCII: Unicode case
    mapping / numeric characters are not modelled; literals beyond Python's int-from-string limit)"""
    if not isinstance(tpl, str) or any(ord(ch) >= 128 for ch in tpl):
        return None
    if any(len(p.strip()) > 4000 for p in tpl.split(",")):
        return None
    return _codes(tpl)


def _parsed(tpl, body):
    """GParsed <string> (fun tpl => <body>): the Coq model parses the string itself"""
    src = _ascii_src(tpl)
    return None if src is None or body is None else f"GParsed {src} (fun tpl => {body})"


def _pid_list(pid_str, pid_arg):
    """the generator's pid string -> list of numbers ("9"-separated octal chunks)"""
    if isinstance(pid_arg, int) and not isinstance(pid_arg, bool) and pid_arg < 0:
        return [pid_arg]
    if not isinstance(pid_str, str) or not pid_str:
        return None
    try:
        return [int(ch, 8) for ch in pid_str.split("9")]
    except ValueError:
        return None


def _codes(s):
    return C.clist(_cz(ord(ch)) for ch in s)


def _abc_opt(abc):
    return "None" if abc is None else f"(Some {_codes(abc)})"


def _zres(r):
    return C.cresult(r, _cz)


def _sres(r):
    if "ok" in r and not isinstance(r["ok"], str):
        return None
    return C.cresult(r, _codes)


def _nb(r):
    return _cz(r["nb"] if r.get("nb") is not None else 0)


def _mask(r):
    return _cz(r["mask"] if r.get("mask") is not None else 0)


def _observable(have, need_log=True):
    return have.get("mask") and (have.get("log") or not need_log)


def _draw_terms(draws, ctor, resf, have, scrambles):
    out = []
    for r in draws:
        if scrambles and "ok" in r and r.get("mask") is None:
            return None           # the mask could not be observed: nothing to compare against
        if r.get("ncalls", 0) > 1:
            return None
        e = resf(r)
        if e is None:
            return None
        out.append(f"{ctor} {_cz(r['k'])} {_nb(r)} {_mask(r)} {e}")
    return C.clist(out)


def _needs_bpc(draws):
    return any("ok" in r or r.get("err") == "AssertionError" for r in draws)


def _gcase_direct(spec, o, have):
    return _parsed(spec["template"], _gcase_direct_body(spec, o, have))


def _gcase_direct_body(spec, o, have):
    tpl = "tpl"
    if spec["type"] == "num":
        if "ctor_err" in o:
            return f"GNumErr {tpl} {C.cerr(o['ctor_err'])}"
        pid = _pid_list(o.get("pid_str"), spec["pid"])
        if pid is None or not isinstance(o.get("ctx"), int):
            return None
        if spec["randomize"] and not _observable(have):
            return None
        dr = _draw_terms(o["draws"], "Draw", _zres, have, spec["randomize"])
        if dr is None:
            return None
        return (f"GNum {tpl} {C.clist(_cz(x) for x in pid)} {_cz(o['ctx'])} {_cz(spec['start'])} "
                f"{C.cbool(spec['randomize'])} {dr}")
    abc = _abc_opt(spec["alphabet"])
    if "ctor_err" in o:
        return (f"GAlphaErr {tpl} {abc} {_cz(spec['min_chars'])} {C.cbool(spec['randomize_codes'])} "
                f"{C.cerr(o['ctor_err'])}")
    pid = _pid_list(o.get("pid_str"), spec["pid"])
    if pid is None or not isinstance(o.get("ctx"), int):
        return None
    rc = spec["randomize_codes"]
    if rc and (not _observable(have) or not have.get("ulog") or (o.get("bpc") is None and _needs_bpc(o["draws"]))):
        return None
    dr = _draw_terms(o["draws"], "ADraw", _sres, have, rc)
    if dr is None:
        return None
    return (f"GAlpha {tpl} {C.clist(_cz(x) for x in pid)} {_cz(o['ctx'])} {abc} {_cz(spec['min_chars'])} "
            f"{C.cbool(rc)} {_cz(o.get('bpc') or 0)} {dr}")


def _gcase_factory(case, o, have):
    """a generator made through UniqueId.Functions.* inside a recipe"""
    if not o.get("kw_ok"):
        return None
    kw = dict(o["kw"])
    args = o.get("args", [])
    # YAML `UniqueId.AlphaCodeGenerator:` without arguments calls the function with one positional None.
    # NumericIdGenerator ignores its positional argument; AlphaCodeGenerator's first positional is the template.
    if any(a is not None for a in args) or len(args) > 1:
        return None
    big = C.cbool(bool(case["big"]))
    user = kw.get("template")
    if user:
        if not isinstance(user, str):
            return None
        user_t = "(Some tpl)"
        wrap = lambda body: _parsed(user, body)        # noqa: E731
    else:
        user_t = "None"
        wrap = lambda body: body                       # noqa: E731
    pid = _pid_list(o.get("pid_str"), case["pid"])
    if pid is None or not isinstance(o.get("ctx"), int):
        return None
    if not _observable(have):
        return None
    if o["type"] == "num":
        if set(kw) - {"template"}:
            return None
        dr = _draw_terms(o["draws"][:48], "Draw", _zres, have, True)
        if dr is None:
            return None
        return wrap(f"GFacNum {big} {user_t} {C.clist(_cz(x) for x in pid)} {_cz(o['ctx'])} {dr}")
    if set(kw) - {"template", "alphabet", "min_chars", "randomize_codes"}:
        return None
    abc = kw.get("alphabet")
    if abc is not None and not isinstance(abc, str):
        return None
    mc = kw.get("min_chars", 8)
    rc = kw.get("randomize_codes", True)
    if not isinstance(mc, int) or not isinstance(rc, bool):
        return None
    if rc and (not have.get("ulog") or (o.get("bpc") is None and _needs_bpc(o["draws"]))):
        return None
    dr = _draw_terms(o["draws"][:48], "ADraw", _sres, have, rc)
    if dr is None:
        return None
    return wrap(f"GFacAlpha {big} {user_t} {C.clist(_cz(x) for x in pid)} {_cz(o['ctx'])} {_abc_opt(abc)} "
                f"{_cz(mc)} {C.cbool(rc)} {_cz(o.get('bpc') or 0)} {dr}")


def _gcase_restored(o, have):
    """a numeric generator re-created from a continuation file: UniqueNumericIdGenerator(**state) with
    state = {parts, min_chars, randomize, start} (no pid: the restored generator takes the default pid)"""
    a = o.get("restored_args")
    if not isinstance(a, dict) or set(a) - {"parts", "min_chars", "randomize", "start"}:
        return None      # the persisted state has a different shape: nothing to compare against
    if not isinstance(a.get("parts"), str) or not isinstance(a.get("randomize", True), bool) \
            or not isinstance(a.get("start", 1), int):
        return None
    spec = {"type": "num", "template": a["parts"], "pid": None, "randomize": a.get("randomize", True),
            "start": a.get("start", 1)}
    return _gcase_direct(spec, dict(o, draws=o["draws"][:48]), have)


def _chain_spec(typ, kw, pid_list):
    """constructor keyword arguments -> pspec term (None: outside the model)"""
    if not isinstance(kw, dict):
        return None
    src = _ascii_src(kw.get("parts"))
    if src is None:
        return None
    pidt = C.clist(_cz(x) for x in pid_list)
    if typ == "num":
        if set(kw) - {"parts", "pid", "min_chars", "randomize", "start"}:
            return None
        start, rand = kw.get("start", 1), kw.get("randomize", True)
        if isinstance(start, bool) or not isinstance(start, int) or not isinstance(rand, bool):
            return None
        return f"SNum {src} {pidt} {_cz(start)} {C.cbool(rand)}"
    if set(kw) - {"parts", "pid", "alphabet", "min_chars", "randomize_codes"}:
        return None
    abc, mc, rc = kw.get("alphabet"), kw.get("min_chars", 8), kw.get("randomize_codes", True)
    if (abc is not None and not isinstance(abc, str)) or isinstance(mc, bool) or not isinstance(mc, int) \
            or not isinstance(rc, bool):
        return None
    return f"SAlpha {src} {pidt} {_abc_opt(abc)} {_cz(mc)} {C.cbool(rc)}"


def _gval(typ):
    if typ == "num":
        return lambda v: f"(VNum {_cz(v)})" if isinstance(v, int) and not isinstance(v, bool) else None
    return lambda v: f"(VCode {_codes(v)})" if isinstance(v, str) else None


def _chain_term(case, obs, max_draws=500):
    if not obs.get("installed") or not obs.get("complete"):
        return None
    have = obs.get("have", {})
    gens = obs["gens"]
    evs = obs["events"]
    # Context numbers: when every generator shows its number, the model checks that each one is not below the
    # counter (= above every number handed out before) and takes the numbers in between as used up by whatever
    # else (failed constructors, ...).  Otherwise the model computes the numbers itself from the counter value
    # at the start (a failed constructor call then counts for one number, as in the code).
    observed = bool(gens) and all(isinstance(o.get("ctx"), int) for o in gens)
    if obs.get("ctx_set"):
        c0 = case["ctx0"]
    elif observed:
        c0 = min(o["ctx"] for o in gens)
    else:
        return None
    specs = []
    for o in gens:
        kw = o.get("kw")
        pid = _pid_list(o.get("pid_str"), (kw or {}).get("pid"))
        sp = _chain_spec(o["type"], kw, pid) if pid is not None else None
        if sp is None:
            return None          # a generator made with arguments the model does not cover: no comparison
        specs.append(sp)
    bpcs = {}
    for o in gens:
        if o["type"] == "alpha" and o.get("bpc") is not None:
            bpcs.setdefault(len((o["kw"].get("alphabet") or DEFAULT_ALPHABET)), o["bpc"])
    terms, ndraws = [], 0
    for e in evs:
        if e[0] == "new":
            ctx = f"(Some {_cz(gens[e[1]]['ctx'])})" if observed else "None"
            terms.append(f"ENew ({specs[e[1]]}) {ctx}")
        elif e[0] == "newerr":
            sp = _chain_spec(e[1], e[2], [])
            if sp is None:
                return None
            terms.append(f"ENewErr ({sp}) {C.cerr(e[3])} {C.cbool(not observed)}")
        elif e[0] == "boundary":
            terms.append("EBoundary")
        elif e[0] == "skip":
            terms.append(f"ESkip {e[1]}%nat {e[2]}%nat")
        elif e[0] == "draw":
            g, r = e[1], e[2]
            o = gens[g]
            kw = o["kw"]
            scr = kw.get("randomize", True) if o["type"] == "num" else kw.get("randomize_codes", True)
            usable = ndraws < max_draws and r.get("ncalls", 0) <= 1
            if scr and "ok" in r and r.get("mask") is None:
                usable = False           # the mask could not be observed: nothing to compare against
            if scr and "ok" in r and r.get("nb") is None:
                usable = False
            if o["type"] == "alpha" and scr and (not have.get("ulog") or
                                                 (o.get("bpc") is None and _needs_bpc([r]))):
                usable = False
            exp = None
            if usable:
                if "ok" in r:
                    v = _gval(o["type"])(r["ok"])
                    exp = None if v is None else f"(Ok {v})"
                else:
                    exp = f"(Err {C.cerr(r['err'])})"
            if exp is None:
                terms.append(f"ESkip {g}%nat 1%nat")
            else:
                ndraws += 1
                terms.append(f"EDraw {g}%nat {_nb(r)} {exp}")
    if not ndraws:
        return None
    masks = C.clist(f"({_cz(k)}, {_cz(nb)}, {_cz(m)})" for k, nb, m in obs.get("masks", [])
                    if isinstance(k, int) and isinstance(nb, int) and isinstance(m, int))
    bpct = C.clist(f"({_cz(k)}, {_cz(v)})" for k, v in sorted(bpcs.items()))
    return f"CProc {_cz(c0)} {masks} {bpct} {C.clist(terms)}"


def _names_pspec(case, v):
    big = bool(case["big"])
    if v["type"] == "num":
        tpl = v["template"] or ("pid,context,index" if big else "context,index")
        src = _ascii_src(tpl)
        return None if src is None else f"SNum {src} [] 1 true"
    tpl = v["template"] or ("pid,context,index" if big else "index")
    src = _ascii_src(tpl)
    mc = 8 if v["min_chars"] is None else v["min_chars"]
    return None if src is None else \
        f"SAlpha {src} [] {_abc_opt(v['alphabet'])} {_cz(mc)} {C.cbool(v['randomize_codes'] is not False)}"


def _names_term(case, obs, max_draws=1500):
    """CNames: the runs of the case as a program over names (the model's store decides which generator a name
    denotes, also after continuations) and, per draw, the index read back from the value in the output.  Generator
    (h, g) has a base name; every spelling used by a read is a name of its own, declared an alias when the holder
    row / variable is made."""
    runs = obs.get("runs", [])
    if not runs or any("rows" not in r for r in runs):
        return None                    # a run failed or was skipped: nothing to compare
    exprs = names_exprs(case)
    base, spell = {}, {}
    for h, hd in enumerate(case["holders"]):
        for g in range(len(hd["gens"])):
            base[(h, g)] = len(base)
    names = dict(base)
    for i, rd in enumerate(case["reads"]):
        key = ("s", exprs[i])
        names.setdefault(key, len(names))
        spell.setdefault((rd["h"], rd["g"]), [])
        if names[key] not in spell[(rd["h"], rd["g"])]:
            spell[(rd["h"], rd["g"])].append(names[key])
    specs = {}
    for (h, g) in base:
        sp = _names_pspec(case, case["holders"][h]["gens"][g])
        if sp is None:
            return None
        specs[(h, g)] = sp

    def make(h):
        out = []
        for g in range(len(case["holders"][h]["gens"])):
            out.append(f"NNew {base[(h, g)]}%nat ({specs[(h, g)]})")
            out += [f"NAlias {s}%nat {base[(h, g)]}%nat" for s in spell.get((h, g), [])]
        return out

    prog, idxs = [], []
    for k, run in enumerate(runs):
        if k > 0:
            for h, hd in enumerate(case["holders"]):       # what lives for one iteration is not saved
                if hd.get("kind", "once") != "once":
                    for g in range(len(hd["gens"])):
                        prog.append(f"NForget {base[(h, g)]}%nat")
                        prog += [f"NForget {s}%nat" for s in spell.get((h, g), [])]
            prog.append("NContinue" if run.get("continued") else "NFresh")
        norder = 0
        for t, cells in run["rows"]:
            if t == "Order":
                if norder % max(1, case["count"]) == 0:        # an iteration starts: the statements above Order
                    for h, hd in enumerate(case["holders"]):
                        if hd.get("kind", "once") != "once" or (norder == 0 and not run.get("continued")):
                            prog += make(h)
                norder += 1
            for i, v, idx in cells:
                if idx is None:
                    return None         # a value that does not read back as (numbers..., index): the oracle's business
                prog.append(f"NDraw {names[('s', exprs[i])]}%nat")
                idxs.append(idx)
    if not idxs or len(idxs) > max_draws:
        return None
    return f"CNames {C.clist(prog)} {C.clist(_cz(x) for x in idxs)}"


def coq_case(case, obs):
    kind = case["kind"]
    if kind == "names":
        return _names_term(case, obs)
    have = obs.get("have", {})
    if kind == "scramble":
        if not have.get("mask"):
            return None
        items = []
        for (n, mb), r in zip(case["items"], obs["items"]):
            if "ok" in r and r.get("mask") is None:
                return None
            if r.get("nb") is None and not have.get("log") and "ok" in r and n // 10 > 0:
                # the float log is not observable any more: fall back to the exact bit length
                r = dict(r, nb=(n // 10).bit_length())
            items.append(f"SItem {_cz(n)} {_cz(mb)} {_nb(r)} {_mask(r)} {_zres(r)}")
        return f"CScramble {C.clist(items)}"
    if kind == "unscramble":
        if not have.get("mask"):
            return None
        items = []
        for n, r in zip(case["items"], obs["items"]):
            if "ok" in r and r.get("mask") is None:
                return None
            items.append(f"UItem {_cz(n)} {_mask(r)} {_zres(r)}")
        return f"CUnscramble {C.clist(items)}"
    if kind == "base":
        if "skip" in obs:
            return None
        if "ctor_err" in obs:
            return (f"CGens [GAlphaErr [PIndex] (Some {_codes(case['alphabet'])}) 0 false "
                    f"{C.cerr(obs['ctor_err'])}]")
        items = []
        for n, r in zip(case["numbers"], obs["items"]):
            e = _sres(r)
            if e is None:
                return None
            items.append(C.cpair(_cz(n), e))
        return f"CBase {_codes(case['alphabet'])} {C.clist(items)}"
    if kind == "gens":
        terms = []
        for spec, o in zip(case["gens"], obs["gens"]):
            t = _gcase_direct(spec, o, have)
            if t is not None:
                terms.append(t)
        return f"CGens {C.clist(terms)}" if terms else None
    if kind == "chain":
        return _chain_term(case, obs)
    if kind == "recipe":
        if not obs.get("instrumented"):
            return None
        terms = []
        for o in obs["gens"]:
            if "restored_args" in o:
                t = _gcase_restored(o, have)
                if t is not None:
                    terms.append(t)
                continue
            t = _gcase_factory(case, o, have)
            if t is not None:
                terms.append(t)
        return f"CGens {C.clist(terms)}" if terms else None


# ================================================================ property oracle (implementation only)
def _shape(tpl):
    p = parse_template(tpl)
    return None if p is None or "PBad" in p else tuple(p)


def _recipe_sources(case):
    """per field: type, default template?, claimed unique?, template shape, alphabet, min_chars, randomize flag"""
    byname = {v["name"]: v for v in case["vars"]}
    big = bool(case["big"])
    dnum = ("PPid", "PContext", "PIndex") if big else ("PContext", "PIndex")
    dalpha = ("PPid", "PContext", "PIndex") if big else ("PIndex",)
    out = []
    for s in case["fields"]:
        if s in ("unique_id", "UniqueId.unique_id"):
            out.append({"type": "num", "default": True, "unique": True, "shape": dnum})
        elif s == "unique_alpha_code":
            out.append({"type": "alpha", "default": True, "unique": True, "shape": dalpha,
                        "alphabet": DEFAULT_ALPHABET, "min_chars": 8, "rc": True})
        else:
            v = byname[s]
            tpl = v["template"]
            shape = _shape(tpl) if tpl else (dnum if v["type"] == "num" else dalpha)
            unique = (not tpl) or (shape is not None and "PContext" in shape and "PIndex" in shape)
            d = {"type": v["type"], "default": not tpl, "unique": unique, "shape": shape}
            if v["type"] == "alpha":
                d["alphabet"] = v["alphabet"] or DEFAULT_ALPHABET
                d["min_chars"] = 8 if v["min_chars"] is None else v["min_chars"]
                d["rc"] = v["randomize_codes"] is not False
            out.append(d)
    return out


def _min_bits_too_small(case):
    """an alpha generator with randomize_codes whose max(min_chars,4)*floor(log2(|alphabet|)) < 10"""
    for v in case["vars"]:
        if v["type"] == "alpha" and v["randomize_codes"] is not False:
            abc = v["alphabet"] or DEFAULT_ALPHABET
            mc = max(8 if v["min_chars"] is None else v["min_chars"], 4)
            if mc * (len(abc).bit_length() - 1) < 10:
                return True
    return False


def _native(code):
    """what snowfakery_version 3 (Jinja native types) makes of a rendered string"""
    import ast
    try:
        return ast.literal_eval(code)
    except Exception:
        return code


def _draw_cells(case, nrows):
    """the cells (row, field) of table A in the order in which their formulas draw: every field draws exactly once
    per row, fields in the order they are written; fields written through a `var:` (count is 1 then) draw before
    the row's other fields.  None when the recipe's shape does not determine the order."""
    nf = len(case["fields"])
    paths = case.get("paths") or []
    varf = [i for i in range(nf) if i < len(paths) and paths[i] == "var"]
    if varf and case.get("count") != 1:
        return None
    rest = [i for i in range(nf) if i not in varf]
    return [(ri, i) for ri in range(nrows) for i in varf + rest]


def _positional(case, obs):
    """{(row, field): the value the generator returned for that cell} - only when the observed number of
    top-level draws is exactly the number of cells (otherwise nothing is claimed about positions)"""
    rows, drawn = obs.get("rows"), obs.get("drawn")
    if not isinstance(rows, list) or not isinstance(drawn, list) or obs.get("ndrawn") != len(drawn):
        return None
    nf = len(case["fields"])
    if any(len(r) != nf for r in rows):
        return None
    cells = _draw_cells(case, len(rows))
    if cells is None or len(cells) != len(drawn) or any(d is None or isinstance(d, dict) for d in drawn):
        return None
    return dict(zip(cells, drawn))


def _same_text(v, c):
    """does the output value v consist of exactly the characters of the code c?  (A number whose decimal spelling
    is the code itself - all-digit codes without a leading zero - is written with the code's characters.)"""
    if isinstance(v, bool):
        return False
    if isinstance(v, str):
        return v == c
    if isinstance(v, int):
        return str(v) == c
    if isinstance(v, float):
        return repr(v) == c
    return False


class _Scan:
    """distinctness / charset / length of the field values of one or several runs of ONE process.
    With the draws observed in order (`drawn`): every output cell must hold, character for character, the value
    its generator returned for it; v2float = (dialect 2 only) cells holding float(c) for a returned code c that is
    ASCII digits with exactly one '.', and runs that fail because an `alphabet:` argument is such a string.
    K5 = collisions among alpha codes that all come from alpha generators created WITHOUT a template in
    small-id mode.  native_mangled = (native-types recipes only) alpha field values that are not the code the
    generator returned but the value of that code read as a Python literal.  cross_shape = equal values from
    generators whose template shapes differ."""

    def __init__(self):
        self.other, self.k5, self.mangled, self.xshape, self.v2float = [], [], [], [], []
        self.seen_num, self.seen_alpha = {}, {}
        self.cells_positional = 0

    def way_in(self, case, obs, label=""):
        """the arguments the plugin's generator functions were called with are the ones the recipe spells"""
        native = bool(case.get("native"))
        abcs = {v.get("alphabet") for v in case["vars"] if v["type"] == "alpha"} | {None}
        tpls = {v.get("template") for v in case["vars"]} | {None}
        for a in obs.get("arrived") or []:
            x = a.get("alphabet")
            if a.get("type") == "alpha":
                xs = str(x) if isinstance(x, int) and not isinstance(x, bool) else x
                if isinstance(x, float) and not native and any(_floatlike(e) and float(e) == x for e in abcs if e):
                    self.v2float.append(("alphabet", x, next(e for e in abcs if e and _floatlike(e) and
                                                             float(e) == x), None, None))
                elif xs not in abcs:
                    self.other.append(f"recipe: {label}an `alphabet:` argument reached UniqueId.AlphaCodeGenerator as "
                                      f"{x!r}; the recipe's alphabets are {sorted(e for e in abcs if e)!r}")
            # templates: only what the constructor reads out of them matters (it strips and lower-cases the parts)
            t = a.get("template")
            if isinstance(t, str) and t and (t not in tpls) and \
                    _shape(t) not in {_shape(e) for e in tpls if isinstance(e, str) and e}:
                self.other.append(f"recipe: {label}a `template:` argument reached the plugin as {t!r}; the recipe's "
                                  f"templates are {sorted(e for e in tpls if e)!r}")

    def run(self, case, obs, recorded=None, complete=False, label=""):
        other, k5, mangled, xshape, v2float = self.other, self.k5, self.mangled, self.xshape, self.v2float
        seen_num, seen_alpha = self.seen_num, self.seen_alpha
        small = not case["big"]
        native = bool(case.get("native"))
        n_other = len(other)
        self.way_in(case, obs, label)
        if not native and "arrived" not in obs:
            # arrivals were not observed (runs of a chain; plugin functions not found): an alphabet that dialect 2
            # reads as a float is attributed to the finding's way-in face without looking
            for v in case["vars"]:
                if v["type"] == "alpha" and _floatlike(v.get("alphabet")):
                    v2float.append(("alphabet", float(v["alphabet"]), v["alphabet"], None, None))
        if "err" in obs:
            if obs["err"] == "DGE" and _min_bits_too_small(case):
                return            # scramble_number's own `assert minbits >= 10` (an error, not a collision)
            if obs["err"] == "DGE" and not native and len(other) == n_other and \
                    any(x[0] == "alphabet" for x in v2float):
                return            # the alphabet arrived as a float (finding C13-v2-float-literal, way in)
            other.append(f"recipe: {label}a valid recipe failed with {obs['err']}")
            return
        rows = obs["rows"]
        pos = _positional(case, obs)
        # generators whose alphabet arrived as a float (".0" arrives as 0.0, which the plugin takes for "no
        # alphabet given"): their codes are over some other alphabet; that is the finding's way-in face
        tainted = set()
        if not native and any(x[0] == "alphabet" for x in v2float):
            tainted = {v["name"] for v in case["vars"] if v["type"] == "alpha" and _floatlike(v.get("alphabet"))}
        src = _recipe_sources(case)
        expected_rows = case["count"] * case["iterations"]
        if len(rows) < expected_rows:
            other.append(f"recipe: {label}{len(rows)} rows instead of at least {expected_rows}")
        recorded = recorded or []
        for ri, row in enumerate(rows):
            for fi, v in enumerate(row):
                s = src[fi]
                here = (f"{label}row {ri} f{fi}", s, case["fields"][fi])
                if case["fields"][fi] in tainted:
                    continue
                if v is None:
                    other.append(f"recipe: {label}row {ri} field f{fi} is empty")
                    continue
                c = pos.get((ri, fi)) if pos is not None else None
                if pos is not None:
                    self.cells_positional += 1
                if s["type"] == "num":
                    if not isinstance(v, int):
                        other.append(f"recipe: numeric id f{fi} is not an integer: {v!r}")
                        continue
                    if pos is not None and (isinstance(v, bool) or c != v):
                        other.append(f"recipe: {label}the generator returned {c!r} for row {ri} f{fi} "
                                     f"({case['fields'][fi]}) but the output row holds {v!r}")
                        continue
                    if s["unique"]:
                        if v in seen_num:
                            prev = seen_num[v]
                            if prev[1]["shape"] != s["shape"]:
                                xshape.append((v, prev, here))
                            else:
                                other.append(f"recipe: numeric id {v} appears twice: {prev[0]} and {here[0]}")
                        seen_num.setdefault(v, here)
                else:
                    abc = s["alphabet"]
                    if pos is not None and not isinstance(c, str):
                        other.append(f"recipe: {label}the alpha generator of row {ri} f{fi} returned {c!r}, "
                                     f"not a string")
                        continue
                    if pos is not None and not _same_text(v, c):
                        # the value that reached the row is not the code the generator returned
                        c_ok = all(ch in abc for ch in c) and len(c) >= s["min_chars"]
                        nv = _native(c) if native else None
                        if native and c_ok and not isinstance(v, str) and type(nv) is type(v) and nv == v:
                            mangled.append((v, c, ri, fi))
                        elif not native and c_ok and isinstance(v, float) and _floatlike(c) and float(c) == v:
                            v2float.append(("code", v, c, ri, fi))
                        else:
                            path = (case.get("paths") or [])[fi:fi + 1]
                            other.append(f"recipe: {label}the generator returned the code {c!r} for row {ri} f{fi} "
                                         f"(alphabet {abc!r}, dialect {3 if native else 2}, path "
                                         f"{path[0] if path else 'direct'}) but the output row holds {v!r}")
                        continue
                    # without positions: the output layer turns all-digit strings without a leading 0 into ints
                    code = c if pos is not None else str(v)
                    bad = None
                    if any(ch not in abc for ch in code):
                        bad = f"recipe: alpha code {v!r} (f{fi}) has characters outside {abc!r}"
                    elif len(code) < s["min_chars"]:
                        bad = f"recipe: alpha code {v!r} (f{fi}) shorter than min_chars={s['min_chars']}"
                    if bad:
                        origin = [c for c in recorded if type(_native(c)) is type(v) and _native(c) == v
                                  and all(ch in abc for ch in c) and len(c) >= s["min_chars"]]
                        if case.get("native") and complete and not isinstance(v, str) and origin:
                            mangled.append((v, origin[0], ri, fi))
                        else:
                            other.append(bad)
                        continue
                    if s["unique"]:
                        key = (abc, code)
                        if key in seen_alpha:
                            prev = seen_alpha[key]
                            if small and s["default"] and prev[1]["default"] and prev[1].get("small", True):
                                k5.append((code, prev, here))
                            elif prev[1]["shape"] != s["shape"] or prev[1]["rc"] != s["rc"]:
                                xshape.append((code, prev, here))
                            else:
                                other.append(f"recipe: alpha code {code!r} appears twice: {prev[0]} and {here[0]}")
                        seen_alpha.setdefault(key, (here[0], dict(s, small=small), here[2]))

    def result(self):
        return self.other, self.k5, self.mangled, self.xshape, self.v2float


def _recipe_failures(case, obs):
    """(other_failures, k5_collisions, native_mangled, cross_shape_collisions, v2_float_literals) of one recipe"""
    # codes the alpha generators really returned (complete only if no generator was truncated)
    recorded, complete = [], bool(obs.get("instrumented"))
    for g in obs.get("gens", []):
        if g.get("type") == "alpha":
            if g.get("ndraws", 0) > len(g.get("draws", [])):
                complete = False
            recorded.extend(r["ok"] for r in g.get("draws", []) if isinstance(r.get("ok"), str))
    sc = _Scan()
    if obs.get("mask_is_function") is False:
        sc.other.append("recipe: mask_for_key returned two different masks for the same (key, numbits) during the "
                        "runs of this recipe in one process")
    sc.run(case, obs, recorded, complete)
    return sc.result()


def _kw_shape(o):
    kw = o.get("kw")
    if not isinstance(kw, dict) or not isinstance(kw.get("parts"), str):
        return None
    return _shape(kw["parts"])


def _chain_failures(case, obs):
    """(other, k5, mangled, xshape) over ALL runs and direct steps of one process"""
    other = []
    if obs.get("mask_changed"):
        k, nb, m1, m2, s1, s2 = obs["mask_changed"]
        other.append(f"chain: the scramble mask for (key {k}, numbits {nb}) was {m1} (step {s1}) and later {m2} (step {s2}) in the "
                     f"same process: the scramble is not one function for the whole process")
    rf = obs.get("replay_fail")
    if rf:
        other.append(f"chain: scramble_number({rf['number']},{rf['minbits']}) gave {rf['value']} in step "
                     f"{rf['made_in_step']}; after step {rf['checked_after_step']} unscramble_number of that value "
                     f"gives {rf['unscrambled_now']} and scramble_number of the same arguments gives "
                     f"{rf['scrambled_now']}")
    sc = _Scan()
    for r in obs.get("runs", []):
        step = case["steps"][r["step"]]
        sc.run(_chain_run_case(case, step), r, label=f"step {r['step']} ")
    o2, k5, mangled, xshape, v2float = sc.result()
    other += o2
    by_out = {}
    for blk in obs.get("scrambles", []):
        for (n, mb), r in zip(case["steps"][blk["step"]]["items"], blk["items"]):
            if "ok" in r:
                v = r["ok"]
                if not isinstance(v, int):
                    other.append(f"chain: scramble_number({n},{mb}) returned a non-integer {v!r}")
                    continue
                if v in by_out and by_out[v] != n:
                    other.append(f"chain: scramble_number maps {by_out[v]} and {n} (minbits {mb}) to the same "
                                 f"value {v}")
                by_out[v] = n
                if r.get("back", {}).get("ok") != n:
                    other.append(f"chain: unscramble_number(scramble_number({n},{mb})) = {r.get('back')} "
                                 f"instead of {n}")
            elif n >= 0 and 10 <= mb <= 1012 and n < 10 ** 290:
                other.append(f"chain: scramble_number({n},{mb}) raised {r['err']} on an ordinary input")
    gens = obs.get("gens", []) if obs.get("installed") else []
    ctxs = [o.get("ctx") for o in gens if isinstance(o.get("ctx"), int)]
    if len(set(ctxs)) != len(ctxs):
        dup = sorted(c for c, n in Counter(ctxs).items() if n > 1)
        other.append(f"chain: generators of one process share context numbers {dup[:5]}")
    for gi, o in enumerate(gens):
        shape = _kw_shape(o)
        kw = o.get("kw") or {}
        abc = (kw.get("alphabet") or DEFAULT_ALPHABET) if o["type"] == "alpha" else ""
        dupfree = isinstance(abc, str) and len(set(abc)) == len(abc)
        if shape is not None and "PIndex" in shape and o.get("dup_within") and dupfree:
            a, b, v = o["dup_within"]
            other.append(f"chain: generator {gi} (template {kw.get('parts')!r}, made in step {o['made_in_step']}) "
                         f"produced {v!r} twice: draws {a} and {b}")
        if o.get("bad_alpha"):
            what, k, v = o["bad_alpha"]
            other.append(f"chain: alpha generator {gi} draw {k}: code {v!r} violates {what} "
                         f"(alphabet {kw.get('alphabet')!r}, min_chars {kw.get('min_chars', 8)})")
    for i, j, ki, kj, v in obs.get("cross", []):
        if i >= len(gens) or j >= len(gens):
            continue
        gi, gj = gens[i], gens[j]
        shi, shj = _kw_shape(gi), _kw_shape(gj)
        if shi is None or shi != shj or "PContext" not in shi or "PIndex" not in shi or gi["type"] != gj["type"]:
            continue       # only generators of the same shape containing context+index are claimed distinct here
        ki_, kj_ = gi.get("kw") or {}, gj.get("kw") or {}
        if gi["type"] == "num":
            if ki_.get("randomize", True) != kj_.get("randomize", True):
                continue
        else:
            ai, aj = ki_.get("alphabet") or DEFAULT_ALPHABET, kj_.get("alphabet") or DEFAULT_ALPHABET
            if ai != aj or len(set(ai)) != len(ai) or \
                    ki_.get("randomize_codes", True) != kj_.get("randomize_codes", True):
                continue
        other.append(f"chain: generators {i} (made in step {gi['made_in_step']}) and {j} (made in step "
                     f"{gj['made_in_step']}), both template {ki_.get('parts')!r}, different context numbers, both "
                     f"produced {v!r} (draws {ki} and {kj})")
    return other, k5, mangled, xshape, v2float


def _tuple_layout(spec, o):
    """the tuple of numbers a generator encodes, position by position: ("c", n) for a number that is the same for
    every draw (literal, pid chunk, context number) and ("i",) for the index; None when unknown"""
    shape = _shape(spec["template"])
    if shape is None or "PIndex" not in shape:
        return None
    out = []
    for p in shape:
        if p == "PPid":
            pid = _pid_list(o.get("pid_str"), spec.get("pid"))
            if pid is None:
                return None
            out.extend(("c", x) for x in pid)
        elif p == "PContext":
            if not isinstance(o.get("ctx"), int):
                return None
            out.append(("c", o["ctx"]))
        elif p == "PIndex":
            out.append(("i",))
        else:
            m = re.fullmatch(r"\(PNum \(?(-?(?:0x)?[0-9a-fA-F]+)\)?\)", p)
            if not m:
                return None
            out.append(("c", int(m.group(1), 0)))
    return out


def _never_equal(si, oi, sj, oj):
    """a reason why the number tuples of two generators differ for all draws (then, by theorem
    C13_values_collide_only_on_same_numbers and its alpha twin, their values never coincide), or None"""
    a, b = _tuple_layout(si, oi), _tuple_layout(sj, oj)
    if a is None or b is None:
        return None
    if len(a) != len(b):
        return f"{len(a)} numbers against {len(b)}"
    for pos, (x, y) in enumerate(zip(a, b)):
        if x[0] == "c" and y[0] == "c" and x[1] != y[1]:
            return f"position {pos}: {x[1]} against {y[1]}"
    return None


def oracle(case, obs):
    kind = case["kind"]
    if kind == "scramble":
        if obs.get("mask_is_function") is False:
            return "scramble: mask_for_key returned two different masks for the same (key, numbits)"
        by_out = {}
        for (n, mb), r in zip(case["items"], obs["items"]):
            if "ok" in r:
                v = r["ok"]
                if not isinstance(v, int):
                    return f"scramble: scramble_number({n},{mb}) returned a non-integer {v!r}"
                if v in by_out and by_out[v] != n:
                    return (f"scramble: scramble_number maps {by_out[v]} and {n} (minbits {mb}) to the same "
                            f"value {v}")
                by_out[v] = n
                b = r.get("back", {})
                if b.get("ok") != n:
                    return f"scramble: unscramble_number(scramble_number({n},{mb})) = {b} instead of {n}"
            elif n >= 0 and 10 <= mb <= 1012 and n < 10 ** 290:
                return f"scramble: scramble_number({n},{mb}) raised {r['err']} on an ordinary input"
        return None
    if kind == "unscramble":
        return None
    if kind == "base":
        if "items" not in obs:
            return None
        abc = case["alphabet"]
        dupfree = len(set(abc)) == len(abc)
        seen = {}
        for n, r in zip(case["numbers"], obs["items"]):
            if "ok" not in r:
                return f"base: encoding {n} over {abc!r} raised {r['err']}"
            s = r["ok"]
            if not isinstance(s, str) or any(ch not in abc for ch in s) or not s:
                return f"base: encoding of {n} = {s!r} is not a non-empty string over {abc!r}"
            if dupfree and s in seen and seen[s] != n:
                return f"base: {seen[s]} and {n} have the same encoding {s!r} over {abc!r}"
            seen[s] = n
        return None
    if kind == "gens":
        specs, gobs = case["gens"], obs["gens"]
        ctxs = [o.get("ctx") for o in gobs if "ctor_err" not in o and isinstance(o.get("ctx"), int)]
        if len(set(ctxs)) != len(ctxs):
            return f"gens: two generators of one process share a context number: {ctxs}"
        for gi, (spec, o) in enumerate(zip(specs, gobs)):
            if "ctor_err" in o:
                shape = _shape(spec["template"])
                abc = spec.get("alphabet") or DEFAULT_ALPHABET
                if shape is not None and (spec["type"] == "num" or (len(abc) >= 2 and "-" not in abc)):
                    return f"gens: constructing generator {gi} ({spec}) raised {o['ctor_err']}"
                continue
            shape = _shape(spec["template"])
            if shape is None:
                return f"gens: generator {gi} with an invalid template {spec['template']!r} was accepted"
            if spec["type"] == "num" and o["nerr"] and (spec["pid"] is None or spec["pid"] >= 0):
                return (f"gens: numeric generator {gi} (template {spec['template']!r}, pid {spec['pid']}) raised "
                        f"{o['errs']} on ordinary draws")
            abc_i = (spec.get("alphabet") or DEFAULT_ALPHABET) if spec["type"] == "alpha" else ""
            dupfree = len(set(abc_i)) == len(abc_i)     # injectivity is only claimed for duplicate-free alphabets
            if "PIndex" in shape and o["dup_within"] is not None and dupfree:
                a, b, v = o["dup_within"]
                return (f"gens: generator {gi} (template {spec['template']!r}) produced {v!r} twice: draws {a} "
                        f"and {b}")
            if o.get("bad_alpha") is not None:
                what, k, v = o["bad_alpha"]
                return (f"gens: alpha generator {gi} draw {k}: code {v!r} violates {what} "
                        f"(alphabet {spec['alphabet']!r}, min_chars {spec['min_chars']})")
        for i, j, ki, kj, v in obs["cross"]:
            si, sj = specs[i], specs[j]
            why = _never_equal(si, gobs[i], sj, gobs[j])
            if why is None:
                continue     # the number tuples of the two generators can coincide: nothing is claimed
            if si["type"] != sj["type"]:
                continue
            if si["type"] == "num" and si["randomize"] != sj["randomize"]:
                continue
            if si["type"] == "alpha":
                ai, aj = si["alphabet"] or DEFAULT_ALPHABET, sj["alphabet"] or DEFAULT_ALPHABET
                if ai != aj or len(set(ai)) != len(ai) or si["randomize_codes"] != sj["randomize_codes"]:
                    continue
            return (f"gens: generators {i} (template {si['template']!r}) and {j} (template {sj['template']!r}) both "
                    f"produced {v!r} (draws {ki} and {kj}) although their number tuples always differ ({why})")
        if obs.get("mask_changed"):
            k, nb, m1, m2 = obs["mask_changed"]
            return (f"gens: mask_for_key({k},{nb}) returned {m1} and later {m2} in the same process: "
                    f"scramble_number is no longer a function of its input (the injectivity argument needs it)")
        return None
    if kind == "names":
        fails = _names_failures(case, obs)
        return fails[0] if fails else None
    if kind in ("recipe", "chain"):
        other, k5, mangled, xshape, v2float = _recipe_failures(case, obs) if kind == "recipe" else \
            _chain_failures(case, obs)
        if other:
            return other[0]
        if xshape:
            v, a, b = xshape[0]
            return (f"cross-shape-class: generators with different template shapes both produced {v!r} "
                    f"({a[0]}: {a[2]}, {b[0]}: {b[2]}); {len(xshape)} such collisions")
        if mangled:
            v, c, ri, fi = mangled[0]
            return (f"native-literal-class: snowfakery_version 3 emitted the alpha code {c!r} as {v!r} "
                    f"({type(v).__name__}) in row {ri} f{fi}; {len(mangled)} such values")
        if v2float:
            what, v, c, ri, fi = v2float[0]
            if what == "alphabet":
                return (f"v2-float-literal-class: dialect 2 handed the `alphabet:` argument {c!r} to the plugin as "
                        f"the float {v!r}; {len(v2float)} such values")
            return (f"v2-float-literal-class: dialect 2 emitted the alpha code {c!r} as the float {v!r} in row "
                    f"{ri} f{fi}; {len(v2float)} such values")
        if k5:
            code, a, b = k5[0]
            return (f"K5-class: default alpha generators in small-id mode emitted {code!r} twice "
                    f"({a[0]} and {b[0]}); {len(k5)} such collisions")
        return None


def violation_class(case, obs, msg):
    return msg.split(":")[0]


def match_finding(case, obs, msg, findings):
    """K5: a recipe in small-id mode whose ONLY failures are repeated codes among alpha generators that were
    created without a template (unique_alpha_code / default UniqueId.AlphaCodeGenerator).
    C13-cross-shape: a recipe whose ONLY failures (besides K5-class ones) are equal values from two generators
    whose template shapes differ (e.g. `index,context` against the default `context,index`).
    C13-v2-float-literal: a dialect-2 recipe whose ONLY failures are cells holding float(c) for the code c the
    generator returned for that cell (c = ASCII digits with exactly one '.'), or an alphabet of that form that
    arrived at the plugin as a float.
    C13-native-literal: a `snowfakery_version: 3` recipe whose ONLY failures are alpha field values that equal
    ast.literal_eval(code) of a code the generator really returned (and that code itself is fine)."""
    ids = {f.get("id") for f in findings}
    if case.get("kind") not in ("recipe", "chain") or not isinstance(msg, str):
        return None
    try:
        other, k5, mangled, xshape, v2float = _recipe_failures(case, obs) if case["kind"] == "recipe" else \
            _chain_failures(case, obs)
    except Exception:
        return None
    if other:
        return None
    if msg.startswith("v2-float-literal-class") and V2FLOAT in ids and not case.get("native") and v2float \
            and not xshape and not mangled:
        return V2FLOAT
    if msg.startswith("cross-shape-class") and XSHAPE in ids and xshape:
        return XSHAPE
    if msg.startswith("native-literal-class") and NATIVE in ids and case.get("native") and mangled and not xshape:
        return NATIVE
    if msg.startswith("K5-class") and K5 in ids and (case["kind"] == "chain" or not case.get("big")) and k5 \
            and not mangled and not xshape and not v2float:
        return K5
    return None


def nontrivial(case, obs):
    kind = case["kind"]
    if kind == "scramble":
        return len({n for (n, mb), r in zip(case["items"], obs["items"]) if "ok" in r}) >= 2
    if kind == "unscramble":
        return len(case["items"]) >= 2
    if kind == "base":
        return "items" in obs and len(set(case["numbers"])) >= 2
    if kind == "gens":
        return any(o.get("n", 0) - o.get("nerr", 0) >= 2 for o in obs["gens"])
    if kind == "recipe":
        return len(obs.get("rows", [])) >= 2
    if kind == "chain":      # at least two runs that produced rows
        return sum(1 for r in obs.get("runs", []) if len(r.get("rows", [])) >= 1) >= 2
    if kind == "names":      # at least two runs in which some generator was read through two different names
        exprs = names_exprs(case)
        good = 0
        for r in obs.get("runs", []):
            by = {}
            for i, ri, v in r.get("cells", []):
                if 0 <= i < len(case["reads"]):
                    by.setdefault((case["reads"][i]["h"], case["reads"][i]["g"]), set()).add(exprs[i])
            good += any(len(x) >= 2 for x in by.values())
        return good >= 2
    return False


def stats(cases, obss):
    kinds = Counter(c["kind"] for c in cases)
    digits, minbits, outcomes = Counter(), Counter(), Counter()
    abc_sizes, tpl_parts, tpl_len, gen_types, draws = Counter(), Counter(), Counter(), Counter(), Counter()
    recipe_modes, recipe_rows, pid_kinds = Counter(), 0, Counter()
    features = Counter()
    chain = Counter()
    wayout = Counter()
    names = Counter()
    total_draws = total_numbers = 0
    for c, o in zip(cases, obss):
        if not isinstance(o, dict):
            continue
        k = c["kind"]
        if k == "scramble" and "items" in o:
            for (n, mb), r in zip(c["items"], o["items"]):
                total_numbers += 1
                d = len(str(abs(n)))
                digits["neg" if n < 0 else "1-3" if d <= 3 else "4-20" if d <= 20 else "21-100" if d <= 100
                       else "101-200" if d <= 201 else ">200"] += 1
                minbits["<10" if mb < 10 else "10-23" if mb <= 23 else "24-60" if mb <= 60 else "61-120"
                        if mb <= 120 else ">120"] += 1
                outcomes["scramble:" + (r.get("err") or "ok")] += 1
        elif k == "base":
            abc_sizes[len(c["alphabet"])] += 1
            outcomes["base:" + (o.get("ctor_err") or "ok")] += 1
        elif k == "gens" and "gens" in o:
            if any(e[0] == "flush" for e in c["schedule"]):
                features["process_with_mask_cache_flush"] += 1
            for spec, g in zip(c["gens"], o["gens"]):
                gen_types[spec["type"]] += 1
                pid_kinds["default" if spec["pid"] is None else "negative" if spec["pid"] < 0 else "given"] += 1
                p = parse_template(spec["template"]) or []
                tpl_len[len(p)] += 1
                for x in p:
                    tpl_parts["PNum" if x.startswith("(PNum") else x] += 1
                if "ctor_err" in g:
                    outcomes["ctor:" + g["ctor_err"]] += 1
                else:
                    n = g.get("n", 0)
                    total_draws += n
                    draws["0" if n == 0 else "1-99" if n < 100 else "100-999" if n < 1000 else ">=1000"] += 1
                    for e, cnt in g.get("errs", {}).items():
                        outcomes["draw:" + e] += cnt
                    if spec["type"] == "alpha":
                        abc_sizes[len(spec["alphabet"] or DEFAULT_ALPHABET)] += 1
        elif k == "recipe":
            recipe_modes["big" if c["big"] else "small"] += 1
            if c.get("registry"):
                features["recipe_with_registry_and_continuations"] += 1
                features["continuation_runs"] += c["iterations"] - 1
                features["generators_restored_from_continuation"] += sum(
                    1 for g in o.get("gens", []) if "restored_args" in g)
            if c.get("native"):
                features["recipe_native_types"] += 1
            if "abc_classes" in c:
                wayout["recipes"] += 1
                wayout["dialect_3" if c.get("native") else "dialect_2"] += 1
                for lab in c["abc_classes"]:
                    wayout["alphabet:" + lab] += 1
                for pth in c.get("paths", []):
                    wayout["path:" + pth] += 1
            for v in c["vars"]:
                a = v.get("alphabet") if v["type"] == "alpha" else None
                if a:
                    if any(ord(ch) > 127 and ch.isdecimal() for ch in a):
                        wayout["alphabets_with_non_ascii_decimal_digits"] += 1
                    if any(ord(ch) > 127 and ch.isdecimal() for ch in a) and any(ch in ASCII_DIGITS for ch in a):
                        wayout["alphabets_mixing_ascii_and_other_digits"] += 1
                    if _floatlike(a):
                        wayout["alphabets_that_read_as_a_float"] += 1
            pos = _positional(c, o)
            wayout["recipes_with_every_cell_tied_to_its_draw" if pos is not None else
                   "recipes_without_positions"] += 1
            if pos is not None:
                wayout["cells_compared_with_their_draw"] += len(pos)
                for (ri, fi), code in pos.items():
                    v = o["rows"][ri][fi]
                    if isinstance(code, str):
                        wayout["alpha_cell_is_" + type(v).__name__] += 1
                        if any(ord(ch) > 127 and ch.isdecimal() for ch in code) and \
                                all(ch.isdecimal() for ch in code):
                            wayout["codes_made_of_decimal_digits_not_all_ascii"] += 1
            wayout["arguments_observed_on_arrival"] += len(o.get("arrived") or [])
            recipe_rows += len(o.get("rows", []))
            outcomes["recipe:" + (o.get("err") or "ok")] += 1
        elif k == "chain":
            runs = [st for st in c["steps"] if st["op"] == "run"]
            chain["chains"] += 1
            chain["runs_per_chain:" + str(len(runs))] += 1
            chain["runs_fresh"] += sum(1 for st in runs if not st["cont"])
            chain["runs_continuation"] += sum(1 for st in runs if st["cont"])
            chain["runs_plugin_declared"] += sum(1 for st in runs if c["lineages"][st["lin"]].get("plugin", True))
            chain["runs_builtins_only"] += sum(1 for st in runs if not c["lineages"][st["lin"]].get("plugin", True))
            chain["runs_big_ids"] += sum(1 for st in runs if st["big"])
            chain["runs_small_ids"] += sum(1 for st in runs if not st["big"])
            modes = {bool(st["big"]) for st in runs}
            chain["chains_mixing_id_modes"] += len(modes) > 1
            chain["chains_with_2_recipes"] += len({st["lin"] for st in runs}) > 1
            chain["steps_direct_scramble_widths"] += sum(1 for st in c["steps"] if st["op"] == "scramble")
            chain["steps_cache_flood"] += sum(1 for st in c["steps"] if st["op"] == "flush")
            chain["steps_objects_across_runs"] += sum(1 for st in c["steps"] if st["op"] == "draw")
            chain["checkpoints_" + str(c.get("checkpoints"))] += 1
            chain["rows"] += sum(len(r.get("rows", [])) for r in o.get("runs", []))
            chain["generators"] += len(o.get("gens", []))
            chain["draws"] += sum(g.get("n", 0) for g in o.get("gens", []))
            chain["mask_table_entries"] += len(o.get("masks", []))
            widths = {m[1] for m in o.get("masks", [])}
            chain["distinct_numbits:" + ("1-3" if len(widths) <= 3 else "4-10" if len(widths) <= 10 else ">10")] += 1
            chain["scramble_calls_replayed_later"] += o.get("n_scr", 0) if o.get("replayed") else 0
            chain["trace_complete"] += bool(o.get("installed") and o.get("complete"))
            for r in o.get("runs", []):
                outcomes["chain-run:" + (r.get("err") or "ok")] += 1
                rc_ = _chain_run_case(c, c["steps"][r["step"]])
                posr = _positional(rc_, r)
                chain["runs_with_every_cell_tied_to_its_draw"] += posr is not None
                chain["cells_compared_with_their_draw"] += len(posr or {})
        elif k == "names":
            names["cases"] += 1
            for h in c["holders"]:
                names["generator_held_by:" + {"once": "just_once_row", "row": "ordinary_row",
                                              "var": "var"}[h.get("kind", "once")]] += 1
            names["holder_rows_without_nickname"] += sum(1 for h in c["holders"] if not h["nick"])
            tabs = [h["table"] for h in c["holders"] if h["table"]]
            names["cases_with_two_holder_rows_of_one_table"] += len(set(tabs)) < len(tabs)
            for h in c["holders"]:
                for v in h["gens"]:
                    typ, shape, _ = _names_spec(c, v)
                    names["generators_" + typ] += 1
                    names["template_" + ("default" if v["template"] is None else "given")] += 1
                    names["template_" + ("with" if shape and "PContext" in shape else "without") + "_context"] += 1
                    for x in shape or ():
                        names["template_part:" + ("PNum" if x.startswith("(PNum") else x)] += 1
            for i, rd in enumerate(c["reads"]):
                names["read_by_" + ("nickname" if rd["fam"] == "nick" else "table_name")] += 1
                names["route:" + _names_route(rd, i)["route"] + ("_in_friend_row" if rd["row"] == "Line" else "")] += 1
            for l in c["links"]:
                names["link_" + l["via"]] += 1
            names["option_pid_given"] += c["pid"] is not None
            names["option_big_ids"] += bool(c["big"])
            exprs = names_exprs(c)
            for r in o.get("runs", []):
                outcomes["names-run:" + ("skip" if "skip" in r else (r.get("err") or "ok")[:40])] += 1
                names["runs_continued" if r.get("continued") else "runs_fresh"] += 1
                names["runs_continued_via_" + str(r.get("via"))] += bool(r.get("continued"))
                names["cells"] += len(r.get("cells", []))
                fams, spell = {}, {}
                for i, ri, v in r.get("cells", []):
                    if 0 <= i < len(c["reads"]):
                        rd = c["reads"][i]
                        fams.setdefault((rd["h"], rd["g"]), set()).add(rd["fam"])
                        spell.setdefault((rd["h"], rd["g"]), set()).add(exprs[i])
                names["generator_read_through_2+_names_in_a_run"] += sum(1 for x in spell.values() if len(x) >= 2)
                both = [key for key, x in fams.items() if len(x) == 2]
                names["generator_read_by_nickname_AND_table_name_in_a_run"] += len(both)
                if r.get("continued"):
                    names["...of_these_in_a_continued_run"] += len(both)
                    names["...of_these_in_a_continued_run_just_once_holder_template_without_context"] += sum(
                        1 for (h, g) in both
                        if c["holders"][h].get("kind", "once") == "once" and "PContext" not in (_names_spec(c, c["holders"][h]["gens"][g])[1] or ("PContext",)))
    return {"kinds": dict(kinds), "scramble_numbers": total_numbers, "number_digits": dict(digits),
            "minbits": dict(minbits), "alphabet_sizes": {str(k): v for k, v in sorted(abc_sizes.items())},
            "generator_types": dict(gen_types), "template_lengths": {str(k): v for k, v in tpl_len.items()},
            "template_parts": dict(tpl_parts), "pid": dict(pid_kinds), "draws_per_generator": dict(draws),
            "total_generator_draws": total_draws, "recipe_modes": dict(recipe_modes), "recipe_rows": recipe_rows, "features": dict(features),
            "chains_of_runs_in_one_process": dict(chain),
            "way_in_and_way_out_of_recipes": dict(wayout),
            "one_generator_several_names": dict(names),
            "outcomes": dict(outcomes)}


def shrink(case):
    kind = case["kind"]
    if kind in ("scramble", "unscramble"):
        items = case["items"]
        if len(items) > 2:
            yield dict(case, items=items[:len(items) // 2])
            yield dict(case, items=items[len(items) // 2:])
        for i in range(len(items)):
            if len(items) > 1:
                yield dict(case, items=items[:i] + items[i + 1:])
    elif kind == "base":
        nums = case["numbers"]
        for i in range(len(nums)):
            if len(nums) > 1:
                yield dict(case, numbers=nums[:i] + nums[i + 1:])
    elif kind == "gens":
        sched = case["schedule"]
        for i in range(len(sched)):
            if len(sched) > 1:
                yield dict(case, schedule=sched[:i] + sched[i + 1:])
        for i, (gi, n) in enumerate(sched):
            if n > 2 and gi != "flush":
                yield dict(case, schedule=sched[:i] + [[gi, max(2, n // 4)]] + sched[i + 1:])
    elif kind == "chain":
        steps = case["steps"]
        for i in range(len(steps)):         # drop a step (draw steps refer to objects by position: keep objects)
            if len(steps) > 1 and steps[i]["op"] != "objects":
                yield dict(case, steps=steps[:i] + steps[i + 1:])
        for i, st in enumerate(steps):
            if st["op"] == "run" and st["count"] > 1:
                yield dict(case, steps=steps[:i] + [dict(st, count=max(1, st["count"] // 2))] + steps[i + 1:])
            if st["op"] == "run" and st["iterations"] > 1:
                yield dict(case, steps=steps[:i] + [dict(st, iterations=1)] + steps[i + 1:])
        if case.get("checkpoints") == "every":
            yield dict(case, checkpoints="end")
    elif kind == "names":
        links = case["links"]
        for i in range(len(links)):
            if len(links) > 1:
                rest = links[:i] + links[i + 1:]
                yield dict(case, links=[dict(rest[0], cont=False)] + rest[1:])
        for i, l in enumerate(links):
            if l["n"] > 1:
                yield dict(case, links=links[:i] + [dict(l, n=1)] + links[i + 1:])
            if l["via"] != "text":
                yield dict(case, links=links[:i] + [dict(l, via="text")] + links[i + 1:])
        reads = case["reads"]
        for i in range(len(reads)):
            if len(reads) > 2:
                yield dict(case, reads=reads[:i] + reads[i + 1:])
        for i, rd in enumerate(reads):
            if rd["route"] != "direct" or rd["row"] != "Order":
                yield dict(case, reads=reads[:i] + [dict(rd, route="direct", row="Order")] + reads[i + 1:])
        if case["count"] > 1:
            yield dict(case, count=1)
        if case["lines"] and all(rd["row"] == "Order" for rd in reads):
            yield dict(case, lines=0)
        if case["pid"] is not None:
            yield dict(case, pid=None)
        if case["big"] is not None:
            yield dict(case, big=None)
    elif kind == "recipe":
        if case["iterations"] > 1:
            yield dict(case, iterations=case["iterations"] - 1)
        if case["count"] > 1:
            yield dict(case, count=case["count"] - 1)
        f = case["fields"]
        for i in range(len(f)):
            if len(f) > 1:
                yield dict(case, fields=f[:i] + f[i + 1:])


def directed_search(rng, disagreeing):
    out = list(gen_scramble_edges())
    out.extend(gen_scramble(rng, 40) for _ in range(300))
    # dense consecutive runs: same key every 10 numbers, masks shared -> collisions of a broken xor / key mix-up
    for base in (0, 1000, 10 ** 6, 2 ** 40, 10 ** 30):
        for mb in (10, 40):
            out.append({"kind": "scramble", "items": [[base + j, mb] for j in range(400)]})
    out.extend(gen_base(rng) for _ in range(200))
    out.extend(gen_process(rng, "quick") for _ in range(60))
    out.extend(gen_recipe(rng) for _ in range(40))
    out.extend(gen_outpath_edges())
    out.extend(gen_outpath(rng) for _ in range(80))
    out.extend(gen_chain(rng, "quick") for _ in range(30))
    out.extend(gen_literal_pairs(rng) for _ in range(30))
    out.extend(gen_padding_probe(rng, abc) for abc in ("GATC", "TGCA", "ZYX", "BA", "cba", None, None, None))
    out.extend(gen_names_edges())
    out.extend(gen_names(rng, no_context=True, vias=["text", "path", "cli"]) for _ in range(60))
    return out
