"""C05 — the continuation file is a complete, re-loadable snapshot of persistent state.

Implementation: snowfakery/data_generator_runtime.py (Globals / IdManager / Transients
__getstate__/__setstate__), object_rows.py (ObjectRow.__getstate__/__setstate__),
data_generator.py (load/save_continuation_yaml, initialize_globals), utils/yaml_utils.py.
Model: coq/theories/Continuation.v; theorems: coq/props/C05.v.

Three kinds of generated input:
  recipe    just_once templates holding typed hostile values (through a tiny test plugin or as
            YAML literals), run once with a continuation file, then continued 1-3 times; the
            file is also re-loaded / re-saved 1-4 times without generating;
  direct    a Globals object built through its constructor / register_object / generate_id,
            saved, loaded and re-saved (volume: hostile names, big counters, many rows);
  malformed a hand-damaged continuation tree fed to load_continuation_yaml (model comparison only).
"""
import datetime as dt
import decimal
import hashlib
import io
import os
import re
import struct
import sys
from collections import Counter

from . import common as C

PROPERTY = "C05"
# common.check_cases_in_coq names its shard files coq/cases/<PROP>_s<k>.v and deletes <PROP>_s* first.
# Two C05 checks running at the same time (e.g. several bin/try-seeded ... C05 in parallel) therefore
# compiled each other's shards: on the unchanged tree that showed up as "disagreements 5" / "Unable to
# unify true with false" / a half-written _loc.v.  The prefix is made unique per check process.
PROP = f"{PROPERTY}_p{os.getpid()}"
MODEL = "Continuation"
CHECK_FN = "check_cases"
SKIPPED_FN = "cases_unsupported"
SHARD = 60
CASE_TIMEOUT = 120      # a case takes ~50 ms; on a timeout run_impl retries once before the driver sees a hang
RULE = ("cases: (recipe) 1-3 just_once templates (by nickname and by table name, hostile names) whose fields hold "
        "typed hostile scalars / references, run with a continuation file, file re-loaded and re-saved 1-4 times, "
        "run continued 1-3 times (optionally from a file whose `today` was moved, optionally with one more template "
        "in the recipe); (direct) Globals objects built through the API; (malformed) damaged files.  Compared with "
        "the model: tree of the written file (save), Globals built by load_continuation_yaml (load), tree after n "
        "write/read steps (chain), nicknames_and_tables of first / continued runs.  non-trivial: at least one "
        "persisted row with a non-id field went through a written file (or hit a listed finding), or a damaged "
        "file reached __setstate__; distinct by case hash")
TRUSTED = ["harness/c05.py: abstraction of the implementation's Globals object (reads id_manager.last_used_ids / "
           "start_ids, persistent_nicknames, persistent_objects_by_table, nicknames_and_tables, today, "
           "intertable_dependencies, transients.named_slots / orig_used_ids; a missing name skips the comparison)",
           "harness/c05.py: test plugin sfv_c05_vals.Vals written to /var/tmp (returns prepared values, records "
           "values read through context.field_vars())",
           "data_generator.save_continuation_yaml wrapped from the harness side to see the Globals object being saved"]
ASSUMPTIONS = ["PyYAML: yaml.safe_load(yaml.dump(t, Dumper=SnowfakeryDumper)) gives back the key-sorted tree t for "
               "trees of str/bool/int/float/null/date/datetime/Decimal scalars (Section hypothesis yaml_roundtrip; sampled "
               "on every case: oracle class file-differs-from-state)",
               "dict keys of the persistent state are Python str; Python str order = UTF-8 byte order"]
EXHAUSTIVE = {"quick": False, "thorough": False}

PROBE_TABLE = "P_"
EXTRA_TABLE = "X9_"
EXTRA_NICK = "x9nick_"
FINDING_K1 = "C05-K1-row-valued-field-dropped"
FINDING_K2 = "C05-K2-unrepresentable-value"
UNREPRESENTABLE_SPECS = ("objref", "randref", "slot", "lazy")


# =============================================================================== value specs
# spec (JSON): ["str", s] ["int", n] ["float", hex] ["bool", b] ["null"] ["date", y, m, d]
#              ["datetime", y, mo, d, H, M, S, us, offset_minutes|None] ["decimal", txt]
#              recipe only:  ["ref", name] ["randref", name] ["objref", table, id]
#              direct only:  ["row", table, id] ["slot", table, id|None] ["lazy", table, id] ["objref", table, id]
# typed value (JSON) as observed: ["str", s] ["int", n] ["float", hex] ["bool", b] ["null"] ["date", ordinal]
#              ["datetime", wall_us, offset_s|None] ["decimal", txt] ["row", t, id] ["slot", t, id|None]
#              ["lazy", t, id] ["objref", t, id] ["other", typename, repr]

HOSTILE_STRINGS = [
    "", " ", "a ", " a", "yes", "no", "Yes", "NO", "on", "off", "y", "n", "true", "False", "null", "Null", "~",
    "None", "12", "0012", "-7", "+7", "0x1F", "0o17", "017", "0b101", "1_000", "1:30", "190:20:30", "1.5", ".5",
    "5.", "1e5", "1.0e+5", "-1.5E-3", ".inf", "-.inf", ".nan", ".NaN", "2020-02-29", "2020-02-29 05:00:00",
    "2020-02-29T05:00:00+05:30", "2001-1-1", "=", "<<", "a: b", "a:b", "a #b", "a#b", "#c", "- a", "-", "? a",
    ": a", "'", "''", "'a'", '"', '"a"', "\\", "\\n", "a\\", "\t", "a\tb", "\ta", "a\t", "\n", "a\nb", "a\n",
    "\na", "a\n\n", "\r", "a\rb", "\r\n", "a\r\nb", "\x85", "a\x85b", "\u2028", "a\u2028b", "\u2029", "\ufeff",
    "\ufeffa", "a\ufeff", "\U0001F600", "\U0001F600\U00010000\U0010FFFF", "\x00", "a\x00b", "\x07", "\x1b[0m",
    "\x7f", "\x80", "\xa0", "\ufffe", "\uffff", "\xe9", "e\u0301", "\u65e5\u672c\u8a9e", "%", "%TAG", "@", "@a",
    "`", "`a", "!", "!!str x", "!a", "&a", "*a", "|", "|-", ">", ">+", "{a: 1}", "{", "}", "[1]", "[", "]", ",",
    "a, b", "#", "---", "...", "--- a", "... a", "a ---", "${x}", "$", "a" * 300, "word " * 50, " " * 5,
    "a  b", "key: value\nother: 2", "- 1\n- 2", "x: |\n  y", "\"quoted\" and 'single'", "C:\\path\\to", "\\u00e9",
    "\\x41", "1,000", "1 000", "0.0", "-0.0", "00", "0", "1e", "e5", "0x", "0xZZ", "++1", "--1", "1.2.3",
    "12:30:45", "-12:30", "1__0", "_1", "1_", "0_1", "infinity", "nan", "NaN", "inf", "-inf", "+.inf",
    "TRUE", "Y", "N", "ON", "OFF", "nULL", "NULL", "<", "<<:", "=a", "2020-13-45", "20200229", "0000-00-00",
]
HOSTILE_INTS = [0, 1, -1, 7, 255, 2 ** 31 - 1, 2 ** 31, -2 ** 31, 2 ** 53, 2 ** 53 + 1, 2 ** 63 - 1, 2 ** 63,
                -2 ** 63 - 1, 2 ** 64, 10 ** 18, 10 ** 19, 2 ** 100 + 1, 2 ** 200, -2 ** 200, 10 ** 60 + 7]
HOSTILE_FLOATS = [0.0, -0.0, 1.0, -1.0, 0.1, 0.5, 1 / 3, 1e15, 1e16, 1e17, 1e22, 1e23, 123456789012345678.0, 1e-4,
                  1e-5, 1e-7, 5e-324, 1e-320, 2.2250738585072014e-308, 2.225073858507201e-308,
                  1.7976931348623157e308, float("inf"), float("-inf"), float("nan"), 1e100, -1.5e-200, 100000.0,
                  3.0, 2 ** 53 + 0.0, 0.30000000000000004]
HOSTILE_DATES = [(1, 1, 1), (9999, 12, 31), (2020, 2, 29), (2000, 2, 29), (1900, 2, 28), (1970, 1, 1), (999, 12, 31),
                 (2024, 12, 31), (10, 10, 10), (2038, 1, 19)]
HOSTILE_OFFSETS = [None, 0, 330, -480, 60, -1, 1, 845, -720, 1439, -1439, 14 * 60]
HOSTILE_DECIMALS = ["1.50", "0", "-0", "-0.00", "1E+3", "1E-30", "123456789.123456789", "NaN", "sNaN", "-NaN123",
                    "Infinity", "-Infinity", "0.1", "12", "1e400", "0.30000000000000004", "9" * 40 + ".5"]
IDENT_TABLES = ["J", "K", "Acct", "Lead_2", "t9", "M"]
IDENT_NICKS = ["jj", "kk", "first_acct", "n2", "mm"]
HOSTILE_TABLES = ["yes", "No", "null", "~", "123", "0x1F", "1e3", "a: b", "x #y", "- q", "\xe9", "\u65e5\u672c",
                  "\U0001F600", "A B", " lead", "trail ", "true", "2020-01-01", "__H", "\xdcn\xef", "a'b", 'q"r',
                  "Z", "a", "\uffff", "\U00010000z"]
IDENT_FIELDS = ["f", "name", "amount", "x1", "When", "b_c"]
HOSTILE_FIELDS = ["yes", "no", "null", "~", "123", "1.5", "a: b", "x #y", "- q", "\xe9t\xe9", "\U0001F600", "A B", " f",
                  "f ", "__hid", "true", "2020-01-01", "tab\there", "line\nbreak", "nel\x85", "'", '"', "\\",
                  "ID", "Id", "[x]", "{y}", "=", "<<", "z", "Z", "\uffff", "\U00010000", "\xff"]
RESERVED = {"id", "this", "today", "fake", "and", "or", "not", "in", "is", "if", "else", "true", "false", "none",
            "True", "False", "None", "child_index", "count", "template", "now", "date", "datetime"}
IDENT_RE = re.compile(r"^[A-Za-z][A-Za-z0-9_]*$")


def f2hex(x):
    return float(x).hex()


def gen_string(rng):
    r = rng.random()
    if r < 0.55:
        return rng.choice(HOSTILE_STRINGS)
    if r < 0.7:   # combine two hostile pieces
        return rng.choice(HOSTILE_STRINGS) + rng.choice([" ", "", ": ", " #", "\n", "\t"]) + rng.choice(HOSTILE_STRINGS)
    alphabet = rng.choice([
        "abc XYZ019", " :#-?[]{},&*!|>'\"%@`~=<\\", "\t\n\r \x85\u2028\u2029\ufeff\xa0", "0123456789.eE+-_:xo",
        "\xe9\xfc\u0416\u65e5\U0001F600\U00010348\U0010FFFF\u0301", "\x00\x01\x07\x08\x0b\x0c\x1b\x7f\x80\x9f",
        "yesnotruefalsenull~YN"])
    return "".join(rng.choice(alphabet) for _ in range(rng.choice([1, 2, 3, 5, 9, 40])))


def gen_scalar_spec(rng):
    r = rng.random()
    if r < 0.45:
        return ["str", gen_string(rng)]
    if r < 0.58:
        if rng.random() < 0.6:
            return ["int", rng.choice(HOSTILE_INTS)]
        return ["int", rng.choice([1, -1]) * rng.getrandbits(rng.choice([3, 16, 40, 64, 65, 128, 200]))]
    if r < 0.72:
        if rng.random() < 0.6:
            return ["float", f2hex(rng.choice(HOSTILE_FLOATS))]
        x = struct.unpack("<d", struct.pack("<Q", rng.getrandbits(64)))[0]
        return ["float", f2hex(x)]
    if r < 0.745:
        return ["decimal", rng.choice(HOSTILE_DECIMALS) if rng.random() < 0.7
                else "%s%d.%0*d" % (rng.choice(["", "-"]), rng.getrandbits(rng.choice([4, 40, 90])), rng.choice([1, 2, 9]), rng.getrandbits(3))]
    if r < 0.77:
        return ["bool", rng.random() < 0.5]
    if r < 0.81:
        return ["null"]
    if r < 0.90:
        if rng.random() < 0.5:
            return ["date"] + list(rng.choice(HOSTILE_DATES))
        return ["date"] + list(_random_date(rng))
    y, m, d = rng.choice(HOSTILE_DATES) if rng.random() < 0.4 else _random_date(rng)
    us = rng.choice([0, 0, 1, 999999, 500000, rng.randrange(1000000)])
    off = rng.choice(HOSTILE_OFFSETS) if rng.random() < 0.7 else rng.randint(-1439, 1439)
    return ["datetime", y, m, d, rng.choice([0, 5, 23]), rng.choice([0, 30, 59]), rng.choice([0, 1, 59]), us, off]


def _random_date(rng):
    o = rng.randint(1, dt.date.max.toordinal())
    d = dt.date.fromordinal(o)
    return (d.year, d.month, d.day)


def pyval(spec):
    """the Python value a scalar spec stands for"""
    k = spec[0]
    if k == "str":
        return spec[1]
    if k == "int":
        return int(spec[1])
    if k == "float":
        return float.fromhex(spec[1])
    if k == "bool":
        return bool(spec[1])
    if k == "null":
        return None
    if k == "date":
        return dt.date(spec[1], spec[2], spec[3])
    if k == "datetime":
        tz = None if spec[8] is None else dt.timezone(dt.timedelta(minutes=spec[8]))
        return dt.datetime(spec[1], spec[2], spec[3], spec[4], spec[5], spec[6], spec[7], tzinfo=tz)
    if k == "decimal":
        return decimal.Decimal(spec[1])
    raise ValueError(k)


_EPOCH = dt.datetime(1, 1, 1)


def tv(v):
    """typed canonical form of a Python value (no ==-coercions: bool/int/float/-0.0 kept apart)"""
    if v is None:
        return ["null"]
    if isinstance(v, bool):
        return ["bool", v]
    if isinstance(v, int):
        return ["int", int(v)]
    if isinstance(v, float):
        return ["float", v.hex()]
    if isinstance(v, str):
        return ["str", str(v)] if type(v) is str else ["other", type(v).__name__, repr(v)[:60]]
    if isinstance(v, dt.datetime):
        off = v.utcoffset()
        if off is not None:
            secs = off.total_seconds()
            if secs != int(secs):
                return ["other", "datetime", repr(v)]
            off = int(secs)
        wall = (v.replace(tzinfo=None) - _EPOCH) // dt.timedelta(microseconds=1)
        return ["datetime", wall, off] if type(v) is dt.datetime else ["other", type(v).__name__, repr(v)[:60]]
    if isinstance(v, dt.date):
        return ["date", v.toordinal()] if type(v) is dt.date else ["other", type(v).__name__, repr(v)[:60]]
    if isinstance(v, decimal.Decimal):
        return ["decimal", str(v)]
    mod = sys.modules.get("snowfakery.object_rows")
    if mod is not None:
        if isinstance(v, getattr(mod, "ObjectRow", ())):
            try:
                return ["row", v._tablename, v._values.get("id")]
            except Exception:
                return ["other", "ObjectRow", ""]
        if isinstance(v, getattr(mod, "NicknameSlot", ())):
            return ["slot", v._tablename, getattr(v, "allocated_id", None)]
        if isinstance(v, getattr(mod, "LazyLoadedObjectReference", ())):
            return ["lazy", v._tablename, v.id]
        if isinstance(v, getattr(mod, "ObjectReference", ())):
            return ["objref", v._tablename, v.id]
    return ["other", type(v).__name__, repr(v)[:60]]


def show(t):
    """short human-readable form of a typed value for messages"""
    if t is None:
        return "<absent>"
    if t[0] == "str":
        return "str " + repr(t[1])[:60]
    return " ".join(str(x) for x in t)[:80]


# =============================================================================== abstraction of the implementation's state
def _rows_abs(d):
    out = []
    for k, r in d.items():
        out.append([k, r._tablename, [[f, tv(x)] for f, x in r._values.items()]])
    return out


def abstract(G):
    """model-level view of a Globals object; None if the internal names are not there"""
    try:
        idm = G.id_manager
        tr = G.transients
        return {
            "last_used": [[k, v] for k, v in idm.last_used_ids.items()],
            "start_ids": [[k, v] for k, v in idm.start_ids.items()],
            "nicks": _rows_abs(G.persistent_nicknames),
            "tables": _rows_abs(G.persistent_objects_by_table),
            "nat": [[k, v] for k, v in G.nicknames_and_tables.items()],
            "today": tv(G.today),
            "deps": [[d.table_name_from, d.table_name_to, d.field_name] for d in G.intertable_dependencies],
            "slots": [[k, s._tablename] for k, s in tr.named_slots.items()],
            "orig": [[k, v] for k, v in tr.orig_used_ids.items()],
            "legacy": _rows_abs(getattr(G, "nicknamed_objects", {})),
            "transient_objects": len(tr.nicknamed_objects) + len(tr.last_seen_obj_by_table),
        }
    except Exception:      # also RecursionError: ObjectRow.__getattr__ on a row hydrated without _values
        return None


def typed_tree(o):
    """typed tree of a Python object made of dicts / lists / scalars (dict order kept)"""
    if isinstance(o, dict):
        return ["map", [[k, typed_tree(v)] for k, v in o.items()]]
    if isinstance(o, (list, tuple)):
        return ["list", [typed_tree(v) for v in o]]
    return ["val", tv(o)]


def sorted_typed_tree(o):
    if isinstance(o, dict):
        if not all(type(k) is str for k in o):
            return ["map", [[k, sorted_typed_tree(v)] for k, v in o.items()]]
        return ["map", [[k, sorted_typed_tree(o[k])] for k in sorted(o)]]
    if isinstance(o, (list, tuple)):
        return ["list", [sorted_typed_tree(v) for v in o]]
    return ["val", tv(o)]


# =============================================================================== Coq terms
def cs(s):
    b = s.encode("utf-8", "surrogatepass")
    if all(32 <= x < 127 and x != 34 for x in b):
        return '"' + s + '"'
    return "(bs " + C.clist(str(x) for x in b) + ")"


class Unrenderable(Exception):
    pass


def _key(k):
    if type(k) is not str:
        raise Unrenderable("non-str key")
    return cs(k)


def _z(n):
    if type(n) is not int:
        raise Unrenderable("non-int")
    return C.cz(n)


def value_coq(t):
    k = t[0]
    if k == "null":
        return "VNull"
    if k == "bool":
        return f"(VBool {C.cbool(t[1])})"
    if k == "int":
        return f"(VInt {_z(t[1])})"
    if k == "float":
        return f"(VFloat {cs(t[1])})"
    if k == "str":
        return f"(VStr {cs(t[1])})"
    if k == "date":
        return f"(VDate {_z(t[1])})"
    if k == "datetime":
        return f"(VDateTime {_z(t[1])} {C.copt(t[2], _z)})"
    if k == "decimal":
        return f"(VDec {cs(t[1])})"
    if k == "row":
        return f"(VRow {_key(t[1])} {_z(t[2])})"
    if k == "slot":
        return f"(VSlot {_key(t[1])} {C.copt(t[2], _z)})"
    if k == "lazy":
        return f"(VLazy {_key(t[1])} {_z(t[2])})"
    if k == "objref":
        return f"(VRef {_key(t[1])} {_z(t[2])})"
    raise Unrenderable(k)


def _smap(items, f):
    return C.clist(C.cpair(_key(k), f(v)) for k, v in items)


def _rows_coq(rows):
    return C.clist(C.cpair(_key(k), f"(mkRow {_key(t)} {_smap(vals, value_coq)})") for k, t, vals in rows)


def globals_coq(a):
    deps = C.clist(f"(mkDep {_key(x)} {_key(y)} {_key(z)})" for x, y, z in a["deps"])
    return (f"(mkGlobals {_smap(a['last_used'], _z)} {_smap(a['start_ids'], _z)} {_rows_coq(a['nicks'])} "
            f"{_rows_coq(a['tables'])} {_smap(a['nat'], _key)} {value_coq(a['today'])} {deps} "
            f"(mkTr {_smap(a['slots'], _key)} {_smap(a['orig'], _z)}) {_rows_coq(a['legacy'])})")


def tree_coq(t):
    if t[0] == "map":
        return "(TMap " + C.clist(C.cpair(_key(k), tree_coq(v)) for k, v in t[1]) + ")"
    if t[0] == "list":
        return "(TList " + C.clist(tree_coq(v) for v in t[1]) + ")"
    return f"(TVal {value_coq(t[1])})"


def tpls_coq(tpls):
    return C.clist(C.cpair(C.copt(n, cs), cs(t)) for n, t in tpls)


def _res(r, okf):
    if r is None:
        raise Unrenderable("missing observation")
    if "ok" in r:
        if r["ok"] is None:
            raise Unrenderable("no abstraction")
        return f"(Ok {okf(r['ok'])})"
    return f"(Err {C.cerr(r['err'])})"


# =============================================================================== the test plugin
PLUGIN_SRC = '''"""Test plugin of the C05 check (written by harness/c05.py).
Vals.get: i   -> the i-th prepared value;   Vals.peek: i -> records what name.field holds."""
from snowfakery.plugins import SnowfakeryPlugin

VALUES = []
PEEKS = []
LOG = []


class Vals(SnowfakeryPlugin):
    class Functions:
        def get(self, i):
            return VALUES[int(i)]

        def peek(self, i):
            i = int(i)
            name, field = PEEKS[i]
            names = self.context.field_vars()
            if name not in names:
                LOG.append((i, "noname", None))
                return i
            obj = names[name]
            if field is None:
                LOG.append((i, "ok", obj))
                return i
            try:
                v = getattr(obj, field)
            except AttributeError:
                LOG.append((i, "nofield", None))
                return i
            LOG.append((i, "ok", v))
            return i
'''
PLUGIN_MOD = "sfv_c05_vals"


def _plugin():
    if PLUGIN_MOD in sys.modules:
        return sys.modules[PLUGIN_MOD]
    h = hashlib.sha256(PLUGIN_SRC.encode()).hexdigest()[:10]
    d = f"/var/tmp/sfv_c05_plugin_{os.getuid()}_{h}"
    os.makedirs(d, exist_ok=True)
    p = os.path.join(d, PLUGIN_MOD + ".py")
    if not os.path.exists(p):
        tmp = p + f".{os.getpid()}.tmp"
        with open(tmp, "w") as f:
            f.write(PLUGIN_SRC)
        os.replace(tmp, p)
    if d not in sys.path:
        sys.path.insert(0, d)
    import importlib
    return importlib.import_module(PLUGIN_MOD)


# =============================================================================== recipes
def is_ident(s):
    return (bool(IDENT_RE.match(s)) and s not in RESERVED and s.lower() not in RESERVED | {"null", "yes", "no"}
            and not s.startswith("_"))


def formula_safe(spec):
    """`${{name.field}}` re-reads a str through ast.literal_eval (Jinja native types): keep the
    formula probe to values whose re-read is again a plain scalar (the probe compares first and
    continued runs, so the distortion itself is harmless; a list / Ellipsis would fail the run)"""
    if spec[0] != "str":
        return spec[0] in ("int", "float", "bool", "null", "date", "datetime", "decimal")
    import ast
    try:
        v = ast.literal_eval(spec[1])
    except Exception:
        return True
    return type(v) in (str, int, float, bool, type(None))


def literal_ok(spec, version):
    k = spec[0]
    if k in ("int", "float", "bool", "null", "date", "datetime"):
        return True
    if k == "str":
        s = spec[1]
        bad = ["${{", "${%"] + (["<<", "<%"] if version == 2 else [])
        return not any(b in s for b in bad) and "\ud800" not in s
    return False


def field_def(case, spec, values):
    k = spec[0]
    if k == "ref":
        return {"reference": spec[1]}
    if k == "randref":
        return {"random_reference": spec[1]}
    if k == "objref":
        return {"reference": {"object": spec[1], "id": spec[2]}}
    if k == "altref":      # one field, two target tables: the first row of the template refers to spec[1], later rows to spec[2]
        return {"if": [{"choice": {"when": "${{child_index == 0}}", "pick": {"reference": spec[1]}}},
                       {"choice": {"pick": {"reference": spec[2]}}}]}
    if case.get("route") == "literal" and literal_ok(spec, case["version"]):
        return pyval(spec)
    values.append(pyval(spec))
    return {"Vals.get": len(values) - 1}


def build_recipe(case, second):
    """returns (yaml text, prepared values, peeks)"""
    import yaml
    values, peeks = [], []
    stmts = [{"snowfakery_version": case["version"]}, {"plugin": PLUGIN_MOD + ".Vals"}]
    probe = {}
    for ti, t in enumerate(case["templates"]):
        jo = t.get("just_once", True)
        st = {"object": t["table"], "just_once": True} if jo else {"object": t["table"]}
        if t.get("nick"):
            st["nickname"] = t["nick"]
        if t.get("count", 1) != 1:
            st["count"] = t["count"]
        st["fields"] = {fn: field_def(case, spec, values) for fn, spec in t["fields"]}
        if not st["fields"]:
            del st["fields"]
        stmts.append(st)
        # at the end of an iteration the table name denotes the row of the LAST just_once template
        # of that table (register_object: last created wins); the nickname denotes its own row
        last_of_table = all(u["table"] != t["table"] for u in case["templates"][ti + 1:])
        shared = sum(1 for u in case["templates"] if u["table"] == t["table"]) > 1
        # rows of ordinary (not just_once) templates are made again by every iteration: they are not
        # persistent state, and they take over the table name while their iteration lasts
        all_jo = all(u.get("just_once", True) for u in case["templates"] if u["table"] == t["table"])
        handles = (([t["table"]] if last_of_table and all_jo else []) + ([t["nick"]] if t.get("nick") else [])) if jo else []
        last_of_table = last_of_table and all_jo
        for h in handles:
            for fn, spec in [["id", ["int", 0]]] + t["fields"]:
                peeks.append([h, fn])
                probe[f"p{len(peeks) - 1}"] = {"Vals.peek": len(peeks) - 1}
                if case["version"] == 3 and is_ident(h) and is_ident(fn) and formula_safe(spec):
                    probe[f"q{len(peeks) - 1}"] = "${{%s.%s}}" % (h, fn)
        if last_of_table and shared:
            # fields that only the other rows of this table have: absent before and after a load
            for u in case["templates"][:ti]:
                if u["table"] == t["table"]:
                    for fn, _ in u["fields"]:
                        if fn not in [f for f, _ in t["fields"]] and [t["table"], fn] not in peeks:
                            peeks.append([t["table"], fn])
                            probe[f"p{len(peeks) - 1}"] = {"Vals.peek": len(peeks) - 1}
            if case["version"] == 3 or is_ident(t["table"]):
                probe[f"r{ti}"] = {"reference": t["table"]}      # `reference: Table` resolves by table name
    peeks.append(["today", None])
    probe["ptoday"] = {"Vals.peek": len(peeks) - 1}
    if second and case.get("extra"):
        stmts.append({"object": EXTRA_TABLE, "nickname": EXTRA_NICK, "fields": {"v": 1}})
    stmts.append({"object": PROBE_TABLE, "fields": probe})
    return yaml.safe_dump(stmts, sort_keys=False, allow_unicode=True, width=10 ** 6), values, peeks


def template_list(case, second):
    out = [[t.get("nick") or None, t["table"]] for t in case["templates"]]
    if second and case.get("extra"):
        out.append([EXTRA_NICK, EXTRA_TABLE])
    out.append([None, PROBE_TABLE])
    return out


def make_capture():
    from snowfakery.output_streams import OutputStream

    class Capture(OutputStream):
        def __init__(self):
            self.rows = []

        def write_row(self, tablename, row_with_references):
            self.rows.append([tablename, [[k, tv(v)] for k, v in row_with_references.items()]])

        def write_single_row(self, *a):
            pass

        def close(self, **kw):
            return []

    return Capture()


def one_run(recipe_text, values, peeks, continuation, target=None):
    """one generate() call with a continuation file requested.
    -> {"rows", "log", "run_err", "dump_err", "text", "saved"(abstraction of the Globals handed to save)}"""
    from snowfakery import data_generator as DG
    from snowfakery.api import SnowfakeryApplication
    from snowfakery.data_generator_runtime import StoppingCriteria
    plug = _plugin()
    plug.VALUES[:] = values
    plug.PEEKS[:] = [tuple(p) for p in peeks]
    plug.LOG[:] = []
    cap = make_capture()
    app = SnowfakeryApplication(StoppingCriteria(PROBE_TABLE, target) if target else StoppingCriteria("__REPS__", 1))
    app.echo = lambda *a, **k: None
    out = io.StringIO()
    seen = {}
    orig = getattr(DG, "save_continuation_yaml", None)

    def spy(data, f):
        seen["saved"] = abstract(data)
        try:
            seen["state"] = sorted_typed_tree(data.__getstate__())
        except Exception:
            seen["state"] = None
        try:
            return orig(data, f)
        except BaseException as e:
            seen["dump_err"] = C.canon_exc(e)
            seen["dump_msg"] = str(e)[:160]
            raise

    spy._sfv_orig = orig
    if orig is not None:
        DG.save_continuation_yaml = spy
    res = {"rows": None, "log": None, "run_err": None, "dump_err": None, "text": None, "saved": None, "state": None,
           "mapping": None}
    try:
        summary = DG.generate(io.StringIO(recipe_text), {}, cap, app, generate_continuation_file=out,
                              continuation_file=io.StringIO(continuation) if continuation is not None else None)
        res["text"] = out.getvalue()
        res["mapping"] = cci_mapping(summary)
    except BaseException as e:
        if type(e).__name__ == "_CaseTimeout":
            raise
        if "dump_err" in seen:
            res["dump_err"] = seen["dump_err"]
            res["dump_msg"] = seen.get("dump_msg")
        else:
            res["run_err"] = C.canon_exc(e)
            res["run_msg"] = str(e)[:200]
    finally:
        if orig is not None:
            DG.save_continuation_yaml = orig
    res["rows"] = cap.rows
    res["log"] = [[i, st, tv(v) if st == "ok" else None] for i, st, v in plug.LOG]
    res["saved"] = seen.get("saved")
    res["state"] = seen.get("state")
    return res


def cci_mapping(summary):
    """the CCI mapping generated from a finished run (what `--generate-cci-mapping-file` writes), as an
    ordered list of [step name, step]; None when it cannot be produced (not this property's business)"""
    import json
    try:
        from snowfakery.generate_mapping_from_recipe import mapping_from_recipe_templates
        m = mapping_from_recipe_templates(summary)
        return json.loads(json.dumps([[k, v] for k, v in m.items()], default=str))
    except BaseException as e:
        if type(e).__name__ == "_CaseTimeout":
            raise
        return None


def load_text(text):
    """load_continuation_yaml -> {"ok": abstraction} | {"err": kind}"""
    from snowfakery import data_generator as DG
    try:
        G = DG.load_continuation_yaml(io.StringIO(text))
    except BaseException as e:
        if type(e).__name__ == "_CaseTimeout":
            raise
        return {"err": C.canon_exc(e), "msg": str(e)[:160]}, None
    return {"ok": abstract(G)}, G


def save_obj(G):
    from snowfakery import data_generator as DG
    out = io.StringIO()
    try:
        DG.save_continuation_yaml(G, out)
    except BaseException as e:
        if type(e).__name__ == "_CaseTimeout":
            raise
        return {"err": C.canon_exc(e), "msg": str(e)[:160]}
    return {"ok": out.getvalue()}


def parse_tree(text):
    import yaml
    try:
        return typed_tree(yaml.safe_load(text))
    except Exception as e:
        return ["unparsable", type(e).__name__]


def shift_today(text, today):
    """the same file written on another day: replace the top-level `today:` entry"""
    if today is None:
        return text
    new = "today: %04d-%02d-%02d" % tuple(today)
    lines = text.split("\n")
    idx = [i for i, l in enumerate(lines) if l.startswith("today:")]
    if len(idx) != 1:
        return None
    # an anchored today (`today: &id001 2026-..`) is shared with a field value: leave such files alone
    if "&" in lines[idx[0]] or "*" in lines[idx[0]]:
        return text
    lines[idx[0]] = new
    return "\n".join(lines)


def reload_steps(text, n):
    """n times: load the file, save it again.  -> list of {"same": bool} / error, last tree"""
    steps = []
    cur = text
    for _ in range(n):
        lo, G = load_text(cur)
        if "err" in lo:
            steps.append({"load_err": lo["err"], "msg": lo.get("msg")})
            return steps, None
        sv = save_obj(G)
        if "err" in sv:
            steps.append({"save_err": sv["err"], "msg": sv.get("msg")})
            return steps, None
        steps.append({"same": sv["ok"] == text, "diff": None if sv["ok"] == text else _first_diff(text, sv["ok"])})
        cur = sv["ok"]
    return steps, parse_tree(cur)


def _first_diff(a, b):
    la, lb = a.split("\n"), b.split("\n")
    for i in range(max(len(la), len(lb))):
        x = la[i] if i < len(la) else "<eof>"
        y = lb[i] if i < len(lb) else "<eof>"
        if x != y:
            return f"line {i + 1}: {x[:70]!r} became {y[:70]!r}"
    return "?"


def run_recipe_case(case):
    obs = {"kind": "recipe"}
    text_r1, values, peeks = build_recipe(case, second=False)
    r1 = one_run(text_r1, values, peeks, None)
    obs["run1"] = {k: r1[k] for k in ("rows", "log", "run_err", "dump_err", "saved", "state", "mapping")}
    obs["run1"]["msg"] = r1.get("run_msg") or r1.get("dump_msg")
    obs["peeks"] = peeks
    if r1["run_err"] or r1["dump_err"]:
        return obs
    text1 = r1["text"]
    obs["tree1"] = parse_tree(text1)
    lo, _ = load_text(text1)
    obs["load1"] = lo
    fed = shift_today(text1, case.get("today"))
    if fed is None:
        obs["shift_failed"] = True
        fed = text1
    obs["shifted"] = fed != text1
    if obs["shifted"]:
        obs["tree_fed"] = parse_tree(fed)
        lo2, _ = load_text(fed)
        obs["load_fed"] = lo2
    steps, last = reload_steps(fed, case.get("chain", 1))
    obs["reload"] = steps
    obs["tree_chain"] = last
    # continued runs
    text_r2, values2, peeks2 = build_recipe(case, second=True)
    hops = []
    cur = fed
    for _ in range(case.get("hops", 1)):
        r = one_run(text_r2, values2, peeks2, cur, target=case.get("target"))
        h = {k: r[k] for k in ("rows", "log", "run_err", "dump_err", "mapping")}
        h["msg"] = r.get("run_msg") or r.get("dump_msg")
        if r["text"] is not None:
            h["tree"] = parse_tree(r["text"])
        hops.append(h)
        if r["text"] is None:
            break
        cur = r["text"]
    obs["hops"] = hops
    return obs


# =============================================================================== direct cases
def build_globals(case):
    from snowfakery.data_generator_runtime import Globals
    from snowfakery import object_rows as OR
    y, m, d = case["today"]
    G = Globals(today=dt.date(y, m, d), name_slots={k: v for k, v in case["nat"]})
    for t, n in case["ids"]:
        if 0 <= n <= 8:
            for _ in range(n):
                G.id_manager.generate_id(t)
            if n == 0:
                G.id_manager[t]
        else:
            G.id_manager.last_used_ids[t] = n
    G.reset_slots()

    def mk(spec):
        k = spec[0]
        if k == "row":
            return OR.ObjectRow(spec[1], {"id": spec[2]})
        if k == "slot":
            s = OR.NicknameSlot(spec[1], G.id_manager)
            if spec[2] is not None:
                s.allocated_id = spec[2]
            return s
        if k == "lazy":
            return OR.LazyLoadedObjectReference(spec[1], spec[2], spec[1])
        if k == "objref":
            return OR.ObjectReference(spec[1], spec[2])
        return pyval(spec)

    for r in case["rows"]:
        row = OR.ObjectRow(r["table"], {f: mk(s) for f, s in r["values"]})
        G.register_object(row, r.get("nick"), True)
    G.reset_slots()
    for a, b, c in case["deps"]:
        G.register_intertable_reference(a, b, c)
    return G


def run_direct_case(case):
    obs = {"kind": "direct"}
    try:
        G = build_globals(case)
    except (AttributeError, TypeError, ImportError) as e:
        obs["build_err"] = f"{type(e).__name__}: {e}"
        return obs
    obs["saved"] = abstract(G)
    try:
        obs["state"] = sorted_typed_tree(G.__getstate__())
    except Exception:
        obs["state"] = None
    sv = save_obj(G)
    if "err" in sv:
        obs["dump_err"] = sv["err"]
        obs["msg"] = sv.get("msg")
        return obs
    text1 = sv["ok"]
    obs["tree1"] = parse_tree(text1)
    lo, _ = load_text(text1)
    obs["load1"] = lo
    steps, last = reload_steps(text1, case.get("chain", 1))
    obs["reload"] = steps
    obs["tree_chain"] = last
    return obs


# =============================================================================== malformed cases
def ptree_to_py(p):
    if p[0] == "map":
        return {k: ptree_to_py(v) for k, v in p[1]}
    if p[0] == "list":
        return [ptree_to_py(v) for v in p[1]]
    return pyval(p[1])


def ptree_typed(p):
    if p[0] == "map":
        return ["map", [[k, ptree_typed(v)] for k, v in p[1]]]
    if p[0] == "list":
        return ["list", [ptree_typed(v) for v in p[1]]]
    return ["val", tv(pyval(p[1]))]


def run_malformed_case(case):
    import yaml
    obs = {"kind": "malformed"}
    text = yaml.safe_dump(ptree_to_py(case["tree"]), sort_keys=False, allow_unicode=True)
    obs["fed"] = parse_tree(text)
    lo, _ = load_text(text)
    obs["load"] = lo
    return obs


def _run_impl_once(case):
    k = case["kind"]
    if k == "recipe":
        return run_recipe_case(case)
    if k == "direct":
        return run_direct_case(case)
    if k == "malformed":
        return run_malformed_case(case)
    raise ValueError(k)


def run_impl(case):
    """A time limit hit because the machine is overloaded must not become a verdict: the case is
    run a second time with a fresh limit; only a second timeout is reported (by the driver) as a hang."""
    import signal
    try:
        return _run_impl_once(case)
    except BaseException as e:
        if type(e).__name__ != "_CaseTimeout":
            raise
    _restore_patches()
    signal.alarm(CASE_TIMEOUT)
    obs = _run_impl_once(case)
    if isinstance(obs, dict):
        obs["retried_after_timeout"] = True
    return obs


def _restore_patches():
    """a timeout can interrupt one_run between patching and restoring save_continuation_yaml"""
    try:
        from snowfakery import data_generator as DG
        f = getattr(DG, "save_continuation_yaml", None)
        while getattr(f, "_sfv_orig", None) is not None:
            f = f._sfv_orig
        if f is not None:
            DG.save_continuation_yaml = f
    except Exception:
        pass


def _janitor():
    """shard files left behind by failed C05 checks whose process is gone"""
    if not C.CASES_DIR.exists():
        return
    for f in C.CASES_DIR.glob(f"{PROPERTY}_p*_s*"):
        m = re.match(rf"{PROPERTY}_p(\d+)_s", f.name)
        if not m or int(m.group(1)) == os.getpid():
            continue
        try:
            os.kill(int(m.group(1)), 0)
        except ProcessLookupError:
            try:
                f.unlink()
            except OSError:
                pass
        except OSError:
            pass


# =============================================================================== model side
def coq_case(case, obs):
    terms = []
    shared = {}          # big sub-terms (trees, states) are written once and bound with `let`

    def sh(term):
        if len(term) < 200:
            return term
        if term not in shared:
            shared[term] = f"x{len(shared)}"
        return shared[term]

    def G(a):
        return sh(globals_coq(a))

    def T(t):
        return sh(tree_coq(t))

    def add(f):
        try:
            terms.append(f())
        except (Unrenderable, KeyError, TypeError, IndexError):
            pass

    def finish():
        if not terms:
            return None
        body = C.clist(terms)
        for term, name in reversed(list(shared.items())):
            body = f"let {name} := {term} in {body}"
        return f"({body})"

    k = obs.get("kind")
    if k in ("recipe", "direct"):
        base = obs["run1"] if k == "recipe" else obs
        if k == "recipe" and base.get("run_err"):
            return None
        saved = base.get("saved")
        if saved is None or saved.get("transient_objects"):
            return None
        if base.get("dump_err"):
            add(lambda: f"CSave {G(saved)} (Err {C.cerr(base['dump_err'])})")
            return finish()
        if obs.get("tree1", ["unparsable"])[0] == "unparsable":
            return None
        add(lambda: f"CSave {G(saved)} (Ok {T(obs['tree1'])})")
        add(lambda: f"CLoad {T(obs['tree1'])} {_res(obs['load1'], G)}")
        if obs.get("shifted"):
            add(lambda: f"CLoad {T(obs['tree_fed'])} {_res(obs['load_fed'], G)}")
        n = len(obs.get("reload") or [])
        if n and obs.get("tree_chain") and all("same" in s for s in obs["reload"]):
            start = obs["load_fed"] if obs.get("shifted") else obs["load1"]
            if "ok" in start and start["ok"] is not None:
                # file_n = save(load(file_{n-1})): n loads and n saves, the first load gave `start`
                add(lambda: f"CChain {G(start['ok'])} {C.cnat(n - 1)} (Ok {T(obs['tree_chain'])})")
        if k == "recipe":
            add(lambda: f"CFresh {tpls_coq(template_list(case, False))} {_nat_of(obs['tree1'])}")
            hops = obs.get("hops") or []
            if hops and hops[0].get("tree") and not hops[0].get("run_err"):
                fed = obs["tree_fed"] if obs.get("shifted") else obs["tree1"]
                add(lambda: f"CResume {T(fed)} {tpls_coq(template_list(case, True))} "
                            f"(Ok {_nat_of(hops[0]['tree'])})")
    elif k == "malformed":
        if obs["fed"][0] == "unparsable":
            return None
        add(lambda: f"CLoad {tree_coq(obs['fed'])} {_res(obs['load'], globals_coq)}")
    return finish()


def _nat_of(tree):
    if tree[0] != "map":
        raise Unrenderable("no map")
    for k, v in tree[1]:
        if k == "nicknames_and_tables":
            if v[0] != "map":
                raise Unrenderable("nat")
            out = []
            for kk, vv in v[1]:
                if vv[0] != "val" or vv[1][0] != "str":
                    raise Unrenderable("nat value")
                out.append((kk, vv[1][1]))
            return _smap(out, _key)
    raise Unrenderable("no nat")


# =============================================================================== property oracle (implementation only)
def _rows_dict(rows):
    return {k: (t, {f: v for f, v in vals}) for k, t, vals in rows}


def restored_check(g0, g1, check_today=True):
    """everything later iterations can observe in g0 (state when the file was written) is in g1
    (state rebuilt from the file), value by value, type by type"""
    dropped = None
    nz = lambda l: {k: v for k, v in l if v != 0}     # a counter that is absent reads as 0 (defaultdict)
    if nz(g1["last_used"]) != nz(g0["last_used"]):
        return f"ids-not-restored: id counters {g0['last_used'][:6]} were restored as {g1['last_used'][:6]}"
    if dict(map(tuple, g1["nat"])) != dict(map(tuple, g0["nat"])):
        return f"bindings-not-restored: nicknames_and_tables {g0['nat'][:6]} restored as {g1['nat'][:6]}"
    if check_today and g1["today"] != g0["today"]:
        return f"today-not-restored: today {show(g0['today'])} restored as {show(g1['today'])}"
    if g1["deps"] != g0["deps"]:
        return f"deps-not-restored: inter-table references {g0['deps'][:5]} restored as {g1['deps'][:5]}"
    for which in ("nicks", "tables"):
        a, b = _rows_dict(g0[which]), _rows_dict(g1[which])
        for name, (table, vals) in a.items():
            how = "nickname" if which == "nicks" else "table name"
            if name not in b:
                return f"row-missing: just_once row reachable by {how} {name!r} is not restored"
            if b[name][0] != table:
                return f"row-table-changed: row {name!r}: table {table!r} restored as {b[name][0]!r}"
            for f, v in vals.items():
                w = b[name][1].get(f)
                if v[0] == "row":
                    if w is None and dropped is None:   # finding class K1: reported last, so that it hides nothing
                        dropped = (f"row-valued-field-dropped: field {f!r} of the row reachable by {how} {name!r} "
                                   f"held a row of {v[1]!r}; it is absent after loading the file")
                    continue
                if w is None:
                    return f"field-missing: field {f!r} of the row reachable by {how} {name!r} is absent after loading"
                if w != v:
                    return (f"value-changed: field {f!r} of the row reachable by {how} {name!r}: {show(v)} "
                            f"restored as {show(w)}")
            extra = set(b[name][1]) - set(vals)
            if extra:
                return f"field-invented: row {name!r} has new fields {sorted(extra)[:4]} after loading"
        if set(b) - set(a):
            return f"row-invented: {which} {sorted(set(b) - set(a))[:4]} appear after loading"
    return dropped


def _tree_get(tree, *path):
    cur = tree
    for p in path:
        if cur is None or cur[0] != "map":
            return None
        cur = next((v for k, v in cur[1] if k == p), None)
    return cur


def _count_rows(rows):
    c = Counter()
    for t, _ in rows:
        c[t] += 1
    return c


def _deps_of_rows(rows):
    out = []
    for t, fs in rows:
        for f, v in fs:
            if v[0] in ("row", "slot", "lazy", "objref") and [t, v[1], f] not in out:
                out.append([t, v[1], f])
    return out


def _tree_deps(tree):
    d = _tree_get(tree, "intertable_dependencies")
    if d is None or d[0] != "list":
        return None
    out = []
    for e in d[1]:
        m = {k: v for k, v in e[1]} if e[0] == "map" else {}
        try:
            out.append([m["table_name_from"][1][1], m["table_name_to"][1][1], m["field_name"][1][1]])
        except Exception:
            return None
    return out


def _tree_ids(tree):
    d = _tree_get(tree, "id_manager", "last_used_ids")
    if d is None or d[0] != "map":
        return None
    return {k: v[1][1] for k, v in d[1] if v[0] == "val" and v[1][0] == "int"}


def _peek_log(log):
    return {i: (st, v) for i, st, v in log}


def _probe_q(rows):
    """formula probes (q*) and by-table references (r*) of the first probe row of a run"""
    for t, fs in rows:
        if t == PROBE_TABLE:
            return {f: v for f, v in fs if f.startswith("q") or f.startswith("r")}
    return None


def oracle_reload(obs, what):
    for j, s in enumerate(obs.get("reload") or []):
        if "load_err" in s:
            return f"reload-raised: loading the {what} (step {j + 1}) raised {s['load_err']}: {s.get('msg')}"
        if "save_err" in s:
            return f"resave-raised: saving the loaded {what} again (step {j + 1}) raised {s['save_err']}: {s.get('msg')}"
        if not s["same"]:
            return f"resave-differs: load + save step {j + 1} does not reproduce the file: {s.get('diff')}"
    return None


def oracle_common(obs, base, what):
    if base.get("dump_err"):
        return (f"dump-raised: writing the continuation file after a completed run raised {base['dump_err']}: "
                f"{base.get('msg')}")
    t1 = obs.get("tree1")
    if t1 is None or t1[0] == "unparsable":
        return f"file-unreadable: the written file cannot be parsed: {t1}"
    # PyYAML's law, sampled: the parsed file is the key-sorted state tree
    if base.get("state") is not None and base["state"] != t1:
        return (f"file-differs-from-state: the tree parsed from the written file is not the (key-sorted) state that "
                f"was saved - save_continuation_yaml or PyYAML's round trip altered it: {_tree_diff(base['state'], t1)}")
    lo = obs.get("load1")
    if lo is None:
        return None
    if "err" in lo:
        return f"reload-raised: loading the written file raised {lo['err']}: {lo.get('msg')}"
    deferred = None
    if lo["ok"] is not None and base.get("saved") is not None:
        m = restored_check(base["saved"], lo["ok"])
        if m and not m.startswith("row-valued-field-dropped:"):
            return m
        deferred = m
    return oracle_reload(obs, what) or deferred


def _tree_diff(a, b, path=""):
    if a[0] != b[0]:
        return f"{path}: {a[0]} vs {b[0]}"
    if a[0] == "val":
        return None if a[1] == b[1] else f"{path}: {show(a[1])} read back as {show(b[1])}"
    if a[0] == "list":
        if len(a[1]) != len(b[1]):
            return f"{path}: list length {len(a[1])} vs {len(b[1])}"
        for i, (x, y) in enumerate(zip(a[1], b[1])):
            d = _tree_diff(x, y, f"{path}[{i}]")
            if d:
                return d
        return None
    ka, kb = [k for k, _ in a[1]], [k for k, _ in b[1]]
    if ka != kb:
        return f"{path}: keys {ka[:8]} vs {kb[:8]}"
    for (k, x), (_, y) in zip(a[1], b[1]):
        d = _tree_diff(x, y, f"{path}.{k}")
        if d:
            return d
    return None


def oracle(case, obs):
    k = obs.get("kind")
    if k == "malformed":
        return None
    if k == "direct":
        if "build_err" in obs:
            return None
        return oracle_common(obs, obs, "file")
    r1 = obs["run1"]
    if r1.get("run_err"):
        # premise (the run completes) does not hold.  How a run fails is not this property's
        # business (e.g. a table name containing a double quote + random_reference escapes as
        # sqlite3 OperationalError: that belongs to C20); the outcome is counted in stats().
        return None
    deferred = None
    m = oracle_common(obs, r1, "file")
    if m and not m.startswith("row-valued-field-dropped:"):
        return m
    deferred = m
    t1 = obs["tree1"]
    # (iii) id counters, today, dependencies in the file, from the first run's own output
    ids = _tree_ids(t1)
    counts = _count_rows(r1["rows"])
    if ids is not None:
        for t, n in counts.items():
            if ids.get(t) != n:
                return f"ids-in-file: {n} rows of {t!r} were written, the file says last id {ids.get(t)}"
    log1 = _peek_log(r1["log"])
    today_i = len(obs["peeks"]) - 1
    ft = _tree_get(t1, "today")
    if today_i in log1 and log1[today_i][0] == "ok" and ft is not None and ft[0] == "val":
        if log1[today_i][1] != ft[1]:
            return f"today-in-file: the run used today = {show(log1[today_i][1])}, the file says {show(ft[1])}"
    fd = _tree_deps(t1)
    want = _deps_of_rows(r1["rows"])
    if fd is not None:
        # rows of hidden tables and hidden fields (names starting with __) are not handed to output streams
        fd = [d for d in fd if not d[0].startswith("__") and not d[2].startswith("__")]
    if fd is not None and sorted(fd) != sorted(want):
        return f"deps-in-file: rows written imply references {want[:5]}, the file lists {fd[:5]}"
    if obs.get("shifted"):
        lo = obs.get("load_fed") or {}
        if "err" in lo:
            return f"reload-raised: loading the file with another `today` raised {lo['err']}"
        want_today = ["date", dt.date(*case["today"]).toordinal()]
        if lo.get("ok") and lo["ok"]["today"] != want_today:
            return f"today-not-restored: file says today = {show(want_today)}, loaded state has {show(lo['ok']['today'])}"
    # (i) what continued runs see
    prev_tree = obs["tree_fed"] if obs.get("shifted") else t1
    q1 = _probe_q(r1["rows"])
    for hi, h in enumerate(obs.get("hops") or []):
        nth = f"continued run {hi + 1}"
        if h.get("run_err"):
            return f"continued-run-fails: {nth} raised {h['run_err']}: {h.get('msg')}"
        if h.get("dump_err"):
            return f"dump-raised: writing the continuation file after {nth} raised {h['dump_err']}: {h.get('msg')}"
        made = sum(1 for t, _ in h["rows"] if t == PROBE_TABLE)
        if made != (case.get("target") or 1):
            return (f"ids-not-restored: {nth} was asked for {case.get('target') or 1} more rows of {PROBE_TABLE!r} "
                    f"(counted from the restored id counter) and wrote {made}")
        logn = _peek_log(h["log"])
        for i, (name, field) in enumerate(obs["peeks"]):
            a, b = log1.get(i), logn.get(i)
            if a is None or a[0] != "ok":
                continue
            if field is None:   # today
                want_today = ["date", dt.date(*case["today"]).toordinal()] if obs.get("shifted") else a[1]
                if b is None or b[0] != "ok" or b[1] != want_today:
                    return (f"today-not-restored: {nth} sees today = {show(b[1] if b else None)}, the file says "
                            f"{show(want_today)}")
                continue
            if b is None:
                return f"probe-missing: {nth} did not evaluate the probe of {name!r}.{field!r}"
            if b[0] == "noname":
                return f"row-missing: {nth} cannot see the just_once row {name!r}"
            if b[0] == "nofield":
                if a[1][0] == "row":
                    deferred = deferred or (f"row-valued-field-dropped: {name!r}.{field!r} held a row of "
                                            f"{a[1][1]!r} in the first run and does not exist in {nth}")
                    continue
                return f"field-missing: {name!r}.{field!r} = {show(a[1])} in the first run does not exist in {nth}"
            if b[1] != a[1]:
                return f"value-changed: {name!r}.{field!r} was {show(a[1])} in the first run and is {show(b[1])} in {nth}"
        qn = _probe_q(h["rows"])
        if q1 is not None and qn is not None and q1 != qn:
            f = next(f for f in q1 if q1.get(f) != qn.get(f))
            what = "`reference: <table>` probe" if f.startswith("r") else "formula probe"
            return f"probe-differs: {what} {f} gave {show(q1[f])} in the first run and {show(qn.get(f))} in {nth}"
        # the file written by the continued run: persistent rows, bindings, today unchanged; counters advanced
        t2 = h.get("tree")
        if t2 is None or t2[0] == "unparsable":
            return f"file-unreadable: file written by {nth}: {t2}"
        for key in ("persistent_nicknames", "persistent_objects_by_table", "nicknames_and_tables", "today"):
            a, b = _tree_get(prev_tree, key), _tree_get(t2, key)
            if a != b:
                return f"not-carried-over: {key} changed across {nth}: {_tree_diff(a, b, key) if a and b else (a, b)}"
        i1, i2 = _tree_ids(prev_tree), _tree_ids(t2)
        c2 = _count_rows(h["rows"])
        if i1 is not None and i2 is not None:
            for t in set(i1) | set(i2) | set(c2):
                if i2.get(t, 0) != i1.get(t, 0) + c2.get(t, 0):
                    return (f"ids-not-restored: table {t!r}: file said {i1.get(t, 0)}, {nth} wrote {c2.get(t, 0)} rows, "
                            f"new file says {i2.get(t, 0)}")
        d1, d2 = _tree_deps(prev_tree), _tree_deps(t2)
        if d1 is not None and d2 is not None and d2[:len(d1)] != d1:
            return f"deps-not-restored: references {d1[:6]} of the file are {d2[:6]} after {nth}"
        if d1 is not None and d2 is not None:
            # ... and what the continued run recorded itself comes after them, once each
            vis = lambda l: [d for d in l if not d[0].startswith("__") and not d[2].startswith("__")]
            tail = vis(d2[len(d1):])
            new = [d for d in _deps_of_rows(h["rows"]) if d not in d1]
            if sorted(tail) != sorted(new):
                return (f"deps-after-continuation: the file said {d1[:6]}, {nth} wrote rows with the new references "
                        f"{new[:6]}, its file adds {tail[:6]}")
        # (iii) the CCI mapping generated by the continued run: same recipe + restored references = same mapping
        m1, mn = r1.get("mapping"), h.get("mapping")
        if m1 is not None and mn is not None and not case.get("extra") and m1 != mn:
            return f"mapping-differs: the CCI mapping generated by {nth} differs from the first run's: {_mapping_diff(m1, mn)}"
        prev_tree = t2
    return deferred


def _mapping_diff(a, b):
    ka, kb = [k for k, _ in a], [k for k, _ in b]
    if ka != kb:
        return f"load steps {ka[:6]} became {kb[:6]}"
    for (k, x), (_, y) in zip(a, b):
        if x != y:
            for f in sorted(set(x) | set(y)):
                if x.get(f) != y.get(f):
                    return f"step {k!r}: {f} {str(x.get(f))[:90]} became {str(y.get(f))[:90]}"
    return "?"


# =============================================================================== findings
def _specs(case):
    if case["kind"] == "recipe":
        seen = []
        for ti, t in enumerate(case["templates"]):
            for fn, s in t["fields"]:
                yield ti, s, seen
            seen = seen + [t["table"]] + ([t["nick"]] if t.get("nick") else [])
    elif case["kind"] == "direct":
        for r in case["rows"]:
            for fn, s in r["values"]:
                yield 0, s, []


def has_unrepresentable(case):
    for ti, s, seen in _specs(case):
        if s[0] in UNREPRESENTABLE_SPECS:
            return True
        if s[0] == "ref" and s[1] not in seen:      # forward reference -> NicknameSlot
            return True
    return False


def has_row_valued(case):
    for ti, s, seen in _specs(case):
        if s[0] in ("row", "altref") or (s[0] == "ref" and s[1] in seen):
            return True
    return False


def match_finding(case, obs, msg, findings):
    ids = {f["id"] for f in findings}
    if case.get("kind") not in ("recipe", "direct"):
        return None
    if (FINDING_K2 in ids and msg.startswith("dump-raised:") and "RepresenterError" in msg
            and "after a completed run" in msg and has_unrepresentable(case)):
        return FINDING_K2
    if FINDING_K1 in ids and msg.startswith("row-valued-field-dropped:") and has_row_valued(case):
        return FINDING_K1
    return None


def violation_class(case, obs, msg):
    return msg.split(":")[0]


# =============================================================================== generation
def _names(rng, pool_ident, pool_hostile, n, p_hostile, taken):
    out = []
    while len(out) < n:
        s = rng.choice(pool_hostile) if rng.random() < p_hostile else rng.choice(pool_ident)
        if s not in taken and s not in out:
            out.append(s)
    return out


def gen_recipe_case(rng, findings=False, single=None, shared_tables=None):
    version = 3 if rng.random() < 0.8 else 2
    nt = rng.choice([1, 1, 2, 2, 3])
    taken = {PROBE_TABLE, EXTRA_TABLE, EXTRA_NICK}
    tables = _names(rng, IDENT_TABLES, HOSTILE_TABLES, nt, 0.3, taken)
    if shared_tables is None:
        shared_tables = nt > 1 and rng.random() < 0.45
    if shared_tables:      # several just_once templates feeding one table, with and without nicknames
        for ti in range(1, nt):
            if rng.random() < 0.7:
                tables[ti] = tables[rng.randrange(ti)]
    taken |= set(tables)
    templates = []
    for ti in range(nt):
        nick = None
        if rng.random() < 0.6:
            nick = _names(rng, IDENT_NICKS, [x for x in HOSTILE_TABLES if not x.startswith("__")], 1, 0.25, taken)[0]
            taken.add(nick)
        nf = rng.choice([1, 1, 2, 3, 5])
        fnames = _names(rng, IDENT_FIELDS, HOSTILE_FIELDS, nf, 0.35, {"id"})
        fields = [[fn, gen_scalar_spec(rng)] for fn in fnames]
        templates.append({"table": tables[ti], "nick": nick, "count": rng.choice([1, 1, 1, 2]), "fields": fields})

    if single is not None:
        templates[0]["fields"][0][1] = single
    if findings:
        kind = rng.choice(["fwd", "back", "randref", "objref"])
        if kind in ("fwd", "back", "randref") and nt == 1:
            other = _names(rng, IDENT_TABLES, HOSTILE_TABLES, 1, 0.2, taken)[0]
            templates.append({"table": other, "nick": None, "count": 1, "fields": [["nm", gen_scalar_spec(rng)]]})
            nt = 2
        ti = {"fwd": 0, "back": nt - 1, "randref": nt - 1}.get(kind, rng.randrange(nt))
        t = templates[ti]
        hidden = t["table"].startswith("__")
        others = [x for j, x in enumerate(templates) if j != ti and "." not in x["table"]]
        earlier = [x for x in templates[:ti] if "." not in x["table"] and x["table"] != t["table"]]
        later = [x for x in templates[ti + 1:] if "." not in x["table"] and x["table"] != t["table"]]
        spec = None
        if kind == "objref":
            spec = ["objref", rng.choice(IDENT_TABLES), rng.randint(1, 9)]
        elif kind == "fwd" and later and not hidden:
            spec = ["ref", rng.choice(later)["table"]]
        elif kind == "back" and earlier and not hidden:
            x = rng.choice(earlier)
            spec = ["ref", x["nick"] if x["nick"] and rng.random() < 0.5 else x["table"]]
        elif kind == "randref" and earlier and not hidden:
            spec = ["randref", rng.choice(earlier)["table"]]
        if spec is None:
            spec = ["objref", rng.choice(IDENT_TABLES), rng.randint(1, 9)]
        fn = _names(rng, ["owner", "parent", "amt"], HOSTILE_FIELDS, 1, 0.2, {f for f, _ in t["fields"]} | {"id"})[0]
        t["fields"].insert(rng.randrange(len(t["fields"]) + 1), [fn, spec])
    return {"kind": "recipe", "version": version, "route": "literal" if rng.random() < 0.3 else "plugin",
            "templates": templates, "chain": rng.choice([1, 2, 3, 4]),
            # a table fed by several templates: look at the by-table binding after one AND after two loads
            "hops": rng.choice([2, 3]) if len({t["table"] for t in templates}) < len(templates) else rng.choice([1, 1, 2, 3]),
            "today": rng.choice([None, [2001, 2, 3], [2024, 2, 29], [1, 1, 1], [9999, 12, 31], list(_random_date(rng))]),
            "extra": rng.random() < 0.3, "target": rng.choice([None, None, 2, 3])}


# names that collide under a too-coarse notion of "the same reference": equal up to case, surrounding
# blanks, or in one component only
DEP_FIELDS = ["WhoId", "ParentId", "whoid", "WhoId ", "owner", "x #y", "yes", "\xe9t\xe9"]
DEP_TABLES = ["Task", "Contact", "Lead", "lead", "Attachment", "Acct"]


def gen_deps(rng, tables):
    """a list of (from, to, field) references in recording order.  Drawn from small pools so that entries
    agree in one or two components: one field of one table referring to two tables (polymorphic lookup),
    two fields between the same pair of tables, the same field name in two tables, self-references,
    tables that have no rows / no counter, exact repetitions"""
    n = rng.choice([0, 0, 1, 2, 3, 4, 6])
    if n == 0:
        return []
    tabs = list(tables) + rng.sample(DEP_TABLES, rng.choice([0, 1, 2, 3]))
    if not tabs:
        tabs = rng.sample(DEP_TABLES, 2)
    tabs = tabs[:4] if rng.random() < 0.7 else tabs
    fields = rng.sample(DEP_FIELDS, rng.choice([1, 2, 2, 3])) if rng.random() < 0.7 else \
        [rng.choice(IDENT_FIELDS + HOSTILE_FIELDS) for _ in range(3)]
    deps = [[rng.choice(tabs), rng.choice(tabs), rng.choice(fields)] for _ in range(n)]
    for _ in range(rng.choice([0, 1, 1, 2])):
        a = list(rng.choice(deps))
        k = rng.choice(["to", "field", "from", "self", "same", "swap"])
        if k == "to":
            a[1] = rng.choice(tabs)
        elif k == "field":
            a[2] = rng.choice(fields)
        elif k == "from":
            a[0] = rng.choice(tabs)
        elif k == "self":
            a[1] = a[0]
        elif k == "swap":
            a[0], a[1] = a[1], a[0]
        deps.insert(rng.randrange(len(deps) + 1), a)
    return deps


def dep_features(deps):
    """which kinds of near-collisions a dependency list contains"""
    out = set()
    u = []
    for d in deps:
        if d in u:
            out.add("deps:recorded-twice")
        else:
            u.append(d)
    for i, a in enumerate(u):
        if a[0] == a[1]:
            out.add("deps:self-reference")
        for b in u[i + 1:]:
            same = (a[0] == b[0], a[1] == b[1], a[2] == b[2])
            if same == (True, False, True):
                out.add("deps:one-field-two-targets")
            elif same == (True, True, False):
                out.add("deps:two-fields-same-pair")
            elif same == (False, True, True):
                out.add("deps:same-field-and-target-two-sources")
            elif [x.strip().lower() for x in a] == [x.strip().lower() for x in b]:
                out.add("deps:equal-up-to-case-or-blanks")
    if len(u) >= 2 and u != sorted(u):
        out.add("deps:not-in-sorted-order")
    if u:
        out.add("deps:some")
    return out


def gen_polyref_case(rng):
    """inter-table references across continuation: 2-3 target tables, then 2-4 referencing templates whose
    reference fields come from a pool of 1-2 names and whose tables come from a pool of 1-2 tables - so one
    field of one table refers to several tables (polymorphic lookup, e.g. Task.WhoId -> Contact | Lead),
    several fields refer to one table, etc.  Each template is just_once (persistent: the continued run skips
    it, what it knows is what the file restored) or ordinary (re-records the reference in every iteration)."""
    version = 3 if rng.random() < 0.85 else 2
    taken = {PROBE_TABLE, EXTRA_TABLE, EXTRA_NICK}
    ntg = rng.choice([2, 2, 3])
    tg_tables = _names(rng, ["Contact", "Lead", "Acct", "Campaign", "K"], HOSTILE_TABLES, ntg, 0.15, taken)
    taken |= set(tg_tables)
    nsrc = rng.choice([1, 1, 2])
    src_tables = _names(rng, ["Task", "Event", "Note_2"], HOSTILE_TABLES, nsrc, 0.15, taken)
    taken |= set(src_tables)
    p_jo = rng.choice([1.0, 0.7, 0.3, 0.0])
    templates = []
    handles = []          # (name to refer to, table it denotes)
    for t in tg_tables:
        nick = None
        if rng.random() < 0.4:
            nick = _names(rng, IDENT_NICKS + ["c1", "l1"], ["yes", "123", "A B"], 1, 0.15, taken)[0]
            taken.add(nick)
        templates.append({"table": t, "nick": nick, "count": 1, "just_once": rng.random() < max(p_jo, 0.5),
                          "fields": [[rng.choice(IDENT_FIELDS), gen_scalar_spec(rng)]]})
        if "." not in t:
            handles.append((t, t))
        if nick and "." not in nick:
            handles.append((nick, t))
    if len({tb for _, tb in handles}) < 2:
        return gen_polyref_case(rng)
    fields = rng.sample(DEP_FIELDS[:6], rng.choice([1, 1, 2]))
    nref = rng.choice([2, 2, 3, 4])
    refs = []
    for i in range(nref):
        refs.append([rng.choice(src_tables), rng.choice(fields), rng.choice(handles)])
    if rng.random() < 0.75:      # make sure of one polymorphic lookup
        i, j = rng.sample(range(nref), 2)
        refs[j][0], refs[j][1] = refs[i][0], refs[i][1]
        others = [h for h in handles if h[1] != refs[i][2][1]]
        refs[j][2] = rng.choice(others)
    src_nicks = []
    for tb, fn, (name, _) in refs:
        nick = None
        if rng.random() < 0.5:
            nick = _names(rng, ["t1", "t2", "t3", "t4", "contact_task", "lead_task"], [], 1, 0.0, taken)[0]
            taken.add(nick)
        jo = rng.random() < p_jo
        flds = [[fn, ["ref", name]]]
        count = 1
        if rng.random() < 0.2:
            other = rng.choice([h for h in handles if h[0] != name])
            flds = [[fn, ["altref", name, other[0]]]]
            count = rng.choice([2, 3])
        if rng.random() < 0.3:
            f2 = rng.choice([f for f in DEP_FIELDS[:6] + ["Second"] if f != fn])
            flds.append([f2, ["ref", rng.choice(handles)[0]]])
        if rng.random() < 0.5:
            flds.insert(rng.randrange(len(flds) + 1), [rng.choice(["Subject", "n", "amount"]), gen_scalar_spec(rng)])
        templates.append({"table": tb, "nick": nick, "count": count, "just_once": jo, "fields": flds})
        if nick:
            src_nicks.append(nick)
    if rng.random() < 0.5:        # something recorded after them (an ordinary template, as `Attachment` in a Salesforce recipe)
        tgt = rng.choice(src_nicks) if src_nicks and rng.random() < 0.6 else \
            rng.choice([x for x in src_tables if "." not in x] or [handles[0][0]])
        tb = _names(rng, ["Attachment", "Doc"], [], 1, 0.0, taken)[0]
        templates.append({"table": tb, "nick": None, "count": rng.choice([1, 2]), "just_once": False,
                          "fields": [[rng.choice(["ParentId", "WhoId"]), ["ref", tgt]]]})
    return {"kind": "recipe", "stream": "polyref", "version": version, "route": "plugin", "templates": templates,
            "chain": rng.choice([1, 2, 3]), "hops": rng.choice([1, 2, 2, 3]),
            "today": rng.choice([None, None, [2001, 2, 3]]), "extra": rng.random() < 0.15,
            "target": rng.choice([None, None, 2, 3])}


def gen_direct_case(rng, findings=False):
    nt = rng.choice([0, 1, 2, 3, 6])
    tables = _names(rng, IDENT_TABLES, HOSTILE_TABLES, nt, 0.5, set()) if nt else []
    nat = [[t, t] for t in tables]
    rows = []
    taken = set(tables)
    for t in tables:
        if rng.random() < 0.85:
            nick = None
            if rng.random() < 0.5:
                nick = _names(rng, IDENT_NICKS, HOSTILE_TABLES, 1, 0.5, taken)[0]
                taken.add(nick)
                nat.append([nick, t])
            nf = rng.choice([0, 1, 2, 4, 8])
            fnames = _names(rng, IDENT_FIELDS, HOSTILE_FIELDS, nf, 0.5, {"id"}) if nf else []
            vals = [["id", ["int", rng.choice([1, 2, 7, 2 ** 40])]]] + [[f, gen_scalar_spec(rng)] for f in fnames]
            if findings and tables:
                k = rng.choice(["row", "slot", "lazy", "objref"])
                tgt = rng.choice(tables)
                spec = {"row": ["row", tgt, 1], "slot": ["slot", tgt, rng.choice([None, 3])], "lazy": ["lazy", tgt, 2],
                        "objref": ["objref", tgt, 5]}[k]
                vals.insert(rng.randrange(1, len(vals) + 1), ["ref_" + k, spec])
            rng.shuffle(vals)
            rows.append({"table": t, "nick": nick, "values": vals})
            while rng.random() < 0.3:      # further just_once rows of the same table; the last one owns the table name
                nick2 = None
                if rng.random() < 0.6:
                    nick2 = _names(rng, IDENT_NICKS, HOSTILE_TABLES, 1, 0.4, taken)[0]
                    taken.add(nick2)
                    nat.append([nick2, t])
                rows.append({"table": t, "nick": nick2,
                             "values": [["id", ["int", len(rows) + 2]], [rng.choice(IDENT_FIELDS), gen_scalar_spec(rng)]]})
    rng.shuffle(nat)
    ids = [[t, rng.choice([0, 1, 2, 8, 9, 1000, 2 ** 64, 2 ** 200])] for t in tables if rng.random() < 0.9]
    rng.shuffle(ids)
    deps = gen_deps(rng, tables)
    if deps and rng.random() < 0.3:
        deps.append(list(deps[0]))       # registering the same reference twice: a set
    return {"kind": "direct", "nat": nat, "ids": ids, "rows": rows, "deps": deps,
            "today": list(rng.choice(HOSTILE_DATES)), "chain": rng.choice([1, 2, 3, 4])}


def _pv(spec):
    return ["val", spec]


def base_ptree(rng):
    spec = gen_scalar_spec(rng)
    while spec[0] == "decimal":        # the damaged file is written with plain yaml.safe_dump
        spec = gen_scalar_spec(rng)
    row = ["map", [["_tablename", _pv(["str", "J"])],
                   ["_values", ["map", [["id", _pv(["int", 1])], ["f", _pv(spec)]]]]]]
    return [
        ["id_manager", ["map", [["last_used_ids", ["map", [["J", _pv(["int", 1])], ["P_", _pv(["int", 3])]]]]]]],
        ["intertable_dependencies", ["list", [["map", [["field_name", _pv(["str", "b"])],
                                                        ["table_name_from", _pv(["str", "J"])],
                                                        ["table_name_to", _pv(["str", "K"])]]]]]],
        ["nicknames_and_tables", ["map", [["J", _pv(["str", "J"])], ["jj", _pv(["str", "J"])]]]],
        ["persistent_nicknames", ["map", [["jj", row]]]],
        ["persistent_objects_by_table", ["map", [["J", row]]]],
        ["today", _pv(["date", 2024, 2, 29])],
    ]


JUNK = [_pv(["null"]), _pv(["str", ""]), _pv(["str", "abc"]), _pv(["int", 0]), _pv(["int", 5]), _pv(["bool", False]),
        ["list", []], ["list", [_pv(["int", 1])]], ["map", []], ["map", [["zz", _pv(["int", 1])]]]]


def gen_malformed_case(rng):
    top = base_ptree(rng)
    r = rng.random()
    what = ""
    if r < 0.25:      # drop top-level keys
        k = rng.sample(range(len(top)), rng.choice([1, 1, 2, 3]))
        what = "drop:" + ",".join(sorted(top[i][0] for i in k))
        top = [e for i, e in enumerate(top) if i not in k]
    elif r < 0.5:     # replace a top-level value by junk
        i = rng.randrange(len(top))
        what = "junk:" + top[i][0]
        top[i] = [top[i][0], rng.choice(JUNK)]
    elif r < 0.6:     # whole state is not a mapping
        what = "top-junk"
        return {"kind": "malformed", "what": what, "tree": rng.choice(JUNK[:8])}
    elif r < 0.75:    # damage a row
        i = rng.choice([3, 4])
        row = ["map", [list(e) for e in top[i][1][1][0][1][1]]]
        c = rng.choice(["slot", "child", "junkrow", "novalues"])
        what = "row:" + c
        if c == "slot":
            row[1].append([rng.choice(["_id", "extra", "id", "_Values"]), _pv(["int", 1])])
        elif c == "child":
            row[1].append(["_child_index", _pv(["int", 0])])
        elif c == "junkrow":
            row = rng.choice(JUNK)
        else:
            row[1] = [e for e in row[1] if e[0] != "_values"]
        top[i] = [top[i][0], ["map", [[top[i][1][1][0][0], row]]]]
    elif r < 0.9:     # damage dependencies / id manager
        c = rng.choice(["depkey", "depmissing", "depjunk", "dupdep", "idm-nokey", "idm-junk", "legacy"])
        what = c
        dep = top[1][1][1][0]
        if c == "depkey":
            top[1] = [top[1][0], ["list", [["map", dep[1] + [["extra", _pv(["str", "x"])]]]]]]
        elif c == "depmissing":
            top[1] = [top[1][0], ["list", [["map", dep[1][:2]]]]]
        elif c == "depjunk":
            top[1] = [top[1][0], ["list", [rng.choice(JUNK)]]]
        elif c == "dupdep":
            other = ["map", [["field_name", _pv(["str", "c"])], ["table_name_from", _pv(["str", "J"])],
                             ["table_name_to", _pv(["str", "K"])]]]
            top[1] = [top[1][0], ["list", [dep, other, dep, other, dep]]]
        elif c == "idm-nokey":
            top[0] = [top[0][0], ["map", [["other", _pv(["int", 1])]]]]
        elif c == "idm-junk":
            top[0] = [top[0][0], rng.choice(JUNK)]
        else:
            top.append(["nicknamed_objects", top[3][1]])
    else:             # valid but reordered / extra unknown top-level key
        what = "reordered"
        rng.shuffle(top)
        if rng.random() < 0.5:
            top.append(["unknown_key", _pv(["int", 1])])
    return {"kind": "malformed", "what": what, "tree": ["map", top]}


def boundary_cases(rng):
    """every hostile value once, as the only field of a just_once row (by nickname and table name)"""
    out = []
    specs = ([["str", s] for s in HOSTILE_STRINGS] + [["int", n] for n in HOSTILE_INTS] +
             [["float", f2hex(x)] for x in HOSTILE_FLOATS] + [["bool", True], ["bool", False], ["null"]] +
             [["date", *d] for d in HOSTILE_DATES] + [["decimal", d] for d in HOSTILE_DECIMALS] +
             [["datetime", 2020, 2, 29, 5, 0, 0, us, off] for off in HOSTILE_OFFSETS for us in (0, 123)] +
             [["datetime", 1, 1, 1, 0, 0, 0, 0, None], ["datetime", 9999, 12, 31, 23, 59, 59, 999999, None]])
    for i in range(0, len(specs), 6):
        chunk = specs[i:i + 6]
        fields = [[f"f{j}", s] for j, s in enumerate(chunk)]
        out.append({"kind": "recipe", "version": 3, "route": "plugin" if (i // 6) % 3 else "literal",
                    "templates": [{"table": "J", "nick": "jj", "count": 1, "fields": fields}],
                    "hops": 1, "chain": 2, "today": [2001, 2, 3] if (i // 6) % 2 else None, "extra": False})
    return out


def shared_table_cases():
    """several just_once templates feeding ONE table, with and without nicknames, in every order;
    chains of 3-4 runs so that the by-table binding is seen after one and after two loads"""
    out = []
    orders = [["West", "East"], ["East", "West"], ["Home", None], [None, "Home"], [None, None],
              ["a1", "b1", None], ["a1", None, "b1"], ["b1", "a1", None], ["b1", None, "a1"],
              [None, "a1", "b1"], [None, "b1", "a1"], ["West", "East", "Mid"]]
    for i, nicks in enumerate(orders):
        tpls = [{"table": "Region", "nick": n, "count": 1,
                 "fields": [["name", ["str", f"row{j}"]]] + ([[f"only{j}", ["int", j]]] if j % 2 else [])}
                for j, n in enumerate(nicks)]
        if i % 3 == 2:      # another table in between
            tpls.insert(1, {"table": "Shop", "nick": "sh", "count": 1, "fields": [["name", ["str", "s"]]]})
        out.append({"kind": "recipe", "version": 3 if i % 4 else 2, "route": "plugin", "templates": tpls,
                    "hops": 2 + i % 2, "chain": 3, "today": [2001, 2, 3] if i % 2 else None,
                    "extra": i % 5 == 0, "target": [None, 2, 3][i % 3]})
        rows = [{"table": "Region", "nick": n, "values": [["id", ["int", j + 1]], ["name", ["str", f"row{j}"]]]}
                for j, n in enumerate(nicks)]
        nat = [["Region", "Region"]] + [[n, "Region"] for n in nicks if n]
        out.append({"kind": "direct", "nat": nat, "ids": [["Region", len(nicks)]], "rows": rows, "deps": [],
                    "today": [2024, 2, 29], "chain": 3})
    return out


def polyref_cases():
    """one field of one table referring to two tables (Salesforce: Task.WhoId -> Contact | Lead), written as two
    templates or as one template with a conditional reference; referencing templates just_once or ordinary, in
    both orders, with and without a later reference; plus the same lists through the API"""
    out = []
    i = 0
    for jo_refs in (True, False):
        for order in (("Contact", "Lead"), ("Lead", "Contact")):
            for later in (True, False):
                for form in ("two", "alt"):
                    tpls = [{"table": "Contact", "nick": None, "count": 1, "just_once": True, "fields": [["LastName", ["str", "Seed"]]]},
                            {"table": "Lead", "nick": None, "count": 1, "just_once": True, "fields": [["Company", ["str", "Seed"]]]}]
                    if form == "two":
                        for tg in order:
                            tpls.append({"table": "Task", "nick": tg.lower() + "_task", "count": 1, "just_once": jo_refs,
                                         "fields": [["Subject", ["str", "call"]], ["WhoId", ["ref", tg]]]})
                        parent = "lead_task"
                    else:
                        tpls.append({"table": "Task", "nick": "any_task", "count": 2, "just_once": jo_refs,
                                     "fields": [["WhoId", ["altref", order[0], order[1]]]]})
                        parent = "any_task"
                    if later:
                        tpls.append({"table": "Attachment", "nick": None, "count": 2, "just_once": False,
                                     "fields": [["ParentId", ["ref", parent]]]})
                    out.append({"kind": "recipe", "stream": "polyref", "version": 3, "route": "plugin", "templates": tpls,
                                "chain": 2, "hops": 2, "today": [2001, 2, 3] if i % 2 else None, "extra": False,
                                "target": [None, 2][i % 2]})
                    i += 1
    lists = [
        [["Task", "Contact", "WhoId"], ["Task", "Lead", "WhoId"]],
        [["Task", "Lead", "WhoId"], ["Task", "Contact", "WhoId"], ["Attachment", "Task", "ParentId"]],
        [["Task", "Contact", "WhoId"], ["Task", "Contact", "WhatId"]],
        [["Task", "Contact", "WhoId"], ["Event", "Contact", "WhoId"]],
        [["Acct", "Acct", "ParentId"], ["Acct", "Contact", "ParentId"], ["Contact", "Acct", "ParentId"]],
        [["Task", "Lead", "WhoId"], ["Task", "lead", "WhoId"], ["task", "Lead", "whoid"], ["Task", "Lead", "WhoId "]],
        [["Z", "Y", "f"], ["Y", "X", "f"], ["A", "Z", "f"], ["A", "B", "a"]],
    ]
    for deps in lists:
        tabs = []
        for a, b, _ in deps:
            for t in (a, b):
                if t not in tabs:
                    tabs.append(t)
        out.append({"kind": "direct", "nat": [[t, t] for t in tabs[:2]], "ids": [[t, 1] for t in tabs[:2]],
                    "rows": [{"table": tabs[0], "nick": None, "values": [["id", ["int", 1]], ["name", ["str", "x"]]]}],
                    "deps": deps, "today": [2024, 2, 29], "chain": 2})
    return out


def generate(rng, tier):
    _janitor()
    quick = tier == "quick"
    cases = []
    cases.extend(boundary_cases(rng))
    cases.extend(shared_table_cases())
    cases.extend(polyref_cases())
    for _ in range(40 if quick else 1500):
        cases.append(gen_polyref_case(rng))
    for _ in range(140 if quick else 4000):
        cases.append(gen_recipe_case(rng))
    for _ in range(24 if quick else 400):
        cases.append(gen_recipe_case(rng, findings=True))
    for _ in range(160 if quick else 6000):
        cases.append(gen_direct_case(rng))
    for _ in range(24 if quick else 400):
        cases.append(gen_direct_case(rng, findings=True))
    for _ in range(120 if quick else 1500):
        cases.append(gen_malformed_case(rng))
    return cases


# =============================================================================== evidence
def _persisted_fields(obs):
    base = obs.get("run1") if obs.get("kind") == "recipe" else obs
    s = (base or {}).get("saved")
    if not s:
        return 0
    return sum(len([1 for f, _ in vals if f != "id"]) for which in ("nicks", "tables") for _, _, vals in s[which])


def nontrivial(case, obs):
    k = obs.get("kind")
    if k == "malformed":
        return "load" in obs
    base = obs.get("run1") if k == "recipe" else obs
    if not base or base.get("run_err"):
        return False
    return _persisted_fields(obs) >= 1 and ("tree1" in obs or bool(base.get("dump_err")))


def stats(cases, obss):
    C.LAST_SKIPPED[PROPERTY] = C.LAST_SKIPPED.get(PROP, 0)     # the driver reads it under the property id
    kinds = Counter(c["kind"] for c in cases)
    vt = Counter()
    feats = Counter()
    outcomes = Counter()
    loads = Counter()
    for c, o in zip(cases, obss):
        if not isinstance(o, dict) or "kind" not in o:
            outcomes["harness-error"] += 1
            continue
        if c["kind"] in ("recipe", "direct"):
            for _, s, _ in _specs(c):
                vt[s[0]] += 1
        if c["kind"] in ("recipe", "direct"):
            base = o.get("run1") if c["kind"] == "recipe" else o
            sv = (base or {}).get("saved")
            if sv:
                for f in dep_features(sv["deps"]):
                    feats[f] += 1
        if c["kind"] == "recipe":
            if c.get("stream") == "polyref":
                feats["polyref-stream"] += 1
                refs = [t for t in c["templates"] if any(sp[0] in ("ref", "altref") for _, sp in t["fields"])]
                jo = [t.get("just_once", True) for t in refs]
                feats["  referencing templates " + ("all just_once" if all(jo) else "all ordinary" if not any(jo) else "mixed")] += 1
                if any(sp[0] == "altref" for t in refs for _, sp in t["fields"]):
                    feats["  conditional reference (one template, two targets)"] += 1
            ms = [o["run1"].get("mapping")] + [h.get("mapping") for h in o.get("hops") or []]
            if len(ms) > 1 and all(m is not None for m in ms) and not c.get("extra"):
                feats["cci-mapping-compared"] += 1
                if any("lookups" in st for _, st in ms[0]):
                    feats["  with lookups"] += 1
            feats[f"version{c['version']}"] += 1
            feats[f"route-{c['route']}"] += 1
            feats[f"hops{c['hops']}"] += 1
            feats[f"chain{c['chain']}"] += 1
            feats["today-moved" if o.get("shifted") else "today-kept"] += 1
            feats[f"continued-until-{c.get('target')}-more-rows" if c.get("target") else "continued-one-iteration"] += 1
            if c.get("extra"):
                feats["extra-template-in-continued-run"] += 1
            feats[f"templates{len(c['templates'])}"] += 1
            tabs = [t["table"] for t in c["templates"]]
            if len(set(tabs)) < len(tabs):
                feats["several-templates-one-table"] += 1
                last = max(i for i, t in enumerate(c["templates"]) if tabs.count(t["table"]) > 1)
                feats["  table name owned by " + ("a nicknamed" if c["templates"][last].get("nick") else "an anonymous") + " row"] += 1
            if any(not is_ident(t["table"]) or (t.get("nick") and not is_ident(t["nick"])) for t in c["templates"]):
                feats["hostile-table-or-nickname"] += 1
            if any(not is_ident(f) for t in c["templates"] for f, _ in t["fields"]):
                feats["hostile-field-name"] += 1
            r1 = o["run1"]
            if r1.get("run_err"):
                outcomes["first-run-" + r1["run_err"]] += 1
            elif r1.get("dump_err"):
                outcomes["dump-" + r1["dump_err"]] += 1
            else:
                bad = [h for h in o.get("hops", []) if h.get("run_err") or h.get("dump_err")]
                outcomes["continued-run-error" if bad else "completed"] += 1
        elif c["kind"] == "direct":
            feats[f"direct-chain{c['chain']}"] += 1
            feats[f"direct-rows{min(len(c['rows']), 6)}"] += 1
            outcomes["direct-dump-" + o["dump_err"] if o.get("dump_err") else "direct-completed"] += 1
        else:
            lo = o.get("load", {})
            loads[c.get("what", "?").split(":")[0] + "->" + (lo.get("err") or "ok")] += 1
    return {"kinds": dict(kinds), "value_types": dict(vt), "features": dict(feats), "outcomes": dict(outcomes),
            "malformed_outcomes": dict(loads),
            "retried_after_timeout": sum(1 for o in obss if isinstance(o, dict) and o.get("retried_after_timeout"))}


def shrink(case):
    if case["kind"] == "recipe":
        ts = case["templates"]
        if len(ts) > 1:
            for i in range(len(ts)):
                gone = {ts[i]["table"], ts[i].get("nick")}
                rest = [t for j, t in enumerate(ts) if j != i]
                if not any(s[0] in ("ref", "randref", "altref") and (s[1] in gone or (s[0] == "altref" and s[2] in gone))
                           for t in rest for _, s in t["fields"]):
                    yield dict(case, templates=rest)
        for i, t in enumerate(ts):
            if len(t["fields"]) > 1:
                for j in range(len(t["fields"])):
                    t2 = dict(t, fields=t["fields"][:j] + t["fields"][j + 1:])
                    yield dict(case, templates=ts[:i] + [t2] + ts[i + 1:])
            if t.get("count", 1) != 1:
                yield dict(case, templates=ts[:i] + [dict(t, count=1)] + ts[i + 1:])
        if case.get("hops", 1) > 1:
            yield dict(case, hops=1)
        if case.get("chain", 1) > 1:
            yield dict(case, chain=1)
        if case.get("extra"):
            yield dict(case, extra=False)
        if case.get("target") == 3:
            yield dict(case, target=2)
        if case.get("today"):
            yield dict(case, today=None)
        if case.get("route") == "literal":
            yield dict(case, route="plugin")
    elif case["kind"] == "direct":
        rows = case["rows"]
        for i in range(len(rows)):
            yield dict(case, rows=rows[:i] + rows[i + 1:])
        for i, r in enumerate(rows):
            for j in range(len(r["values"])):
                if r["values"][j][0] != "id":
                    r2 = dict(r, values=r["values"][:j] + r["values"][j + 1:])
                    yield dict(case, rows=rows[:i] + [r2] + rows[i + 1:])
        if case["deps"]:
            yield dict(case, deps=case["deps"][1:])
        if case["ids"]:
            yield dict(case, ids=case["ids"][1:])
        if case.get("chain", 1) > 1:
            yield dict(case, chain=1)


def directed_search(rng, disagreeing):
    out = boundary_cases(rng)
    for c in out:
        c["today"] = [2001, 2, 3]
    out.extend(shared_table_cases())
    out.extend(polyref_cases())
    for _ in range(150):
        out.append(gen_polyref_case(rng))
    for _ in range(200):
        out.append(gen_recipe_case(rng, shared_tables=True))
    for _ in range(400):
        out.append(gen_recipe_case(rng))
    for _ in range(600):
        out.append(gen_direct_case(rng))
    return out
