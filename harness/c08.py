"""C08 — every configured output receives every row, faithfully.
Implementation: snowfakery/output_streams.py, api.py (configure_output_stream, _get_output_streams),
parse_recipe_yaml.py (TableInfo).  Model: coq/theories/Streams.v; theorems: coq/props/C08.v.

Case kinds
  recipe : a generated recipe (typed values come from a tiny plugin written next to the recipe),
           run once into a capturing stream (raw values at write_row) and once through
           generate_data into the real outputs; every artefact is re-read by an independent decoder
  direct : the real stream classes (alone or under MultiplexOutputStream) driven with synthetic typed
           rows; the database streams additionally with a second connection watching what is visible
  buffer : SqlDbOutputStream / SqlTextOutputStream with the model's synthetic row pattern around the
           flush / commit thresholds
  mux    : MultiplexOutputStream over test doubles that may raise at a write or at close
"""
import csv
import datetime
import decimal
import io
import json
import os
import re
import shutil
import sqlite3
import tempfile
from collections import Counter
from pathlib import Path

from . import common as C

PROP = "C08"
MODEL = "Streams"
COQ_IMPORTS = ("From SFV Require Import StreamParse StreamCodecs StreamCases.",)
CHECK_FN = "check_xcase"
BYTES_LIMIT = 6000          # artefacts up to this many characters go to the model's readers / writers as bytes
SHARD = 60
CASE_TIMEOUT = 240
RULE = ("recipe cases: 1-4 tables, heterogeneous templates per table, friends, hidden fields/tables, update keys, "
        "references, typed values (bool, None, date, datetime +-microseconds +-offset, Decimal, ints up to and beyond "
        "64 bits, unicode and quoting-hostile strings incl. control characters, U+2028, U+10FFFF, SQL-looking text) through every "
        "single output (txt, json, csv folder, sql script, sqlite dburl) and pairs / triples of simultaneous outputs, row counts "
        "straddling 1000 / 10000; project recipes: 0-3 include files (files including files), macros defined in any file "
        "(macros including macros, macro friends, redefinition), templates nested in field values / in function arguments "
        "(block and flow style: several templates on one line) / in variables, templates of one table with different field "
        "sets in different files starting on the same line number; update recipes with pass-through columns; recipes the "
        "parser must refuse; direct cases: the stream classes driven with synthetic typed rows (tables obtained through the "
        "real parser), database visibility watched by a second connection; buffer cases: thresholds with default and "
        "overridden limits; mux cases: fan-out over test doubles with failing writes / closes; twin cases (direct and recipe): "
        "values Python calls equal (same hash) that are written differently -- one instant in several UTC offsets, an integer "
        "as bool / int / Decimal with different exponents -- in one row, in several rows of one table and field, in different "
        "tables, under several outputs at once, and after an earlier session / run in the same process that wrote other "
        "members of the family (and equal floats) to tables of the same names.  Oracle: decoded cell == "
        "encoding table (DESIGN appendix B) of the raw value captured at write_row; same tables, counts, ids, order of rows.  "
        "Model comparison: schema inferred by the model's parser from the recipe syntax vs the columns of the artefacts, "
        "sampled rows per format, buffer trace, run summaries, and for every artefact up to 6000 characters its bytes: read by "
        "the model's csv / json / sql readers (must give the expected cells) and compared with the model's writers (byte-exact "
        "unless the implementation's format changed in a way the readers still decode).  non-trivial: a case that writes at "
        "least one row to at least one output; distinct by case hash")
TRUSTED = ["harness/c08.py: capture stream, decoders (csv.reader, json.loads, sqlite3 on the database and on the executed "
           "SQL script, regex reader for the debug text), the Python copy of the encoder table used by the oracle, the Python "
           "mirror of the parser's registration order (oracle side of the schema), the ports of the writers (csv.writer, "
           "json.dumps, SQLite quote) that only decide whether an artefact is expected to be byte-exact; CPython's == on "
           "None / bool / int / date / datetime values (the expected side of the model's py_eq)"]
ASSUMPTIONS = ["sqlite3 and SQLAlchemy move cells faithfully between the stream and the database file (the csv / json / sql-dump "
               "text formats themselves are modelled, proved invertible and compared byte by byte for artefacts up to 6000 characters; "
               "larger artefacts are only read by Python's csv / json / sqlite3)",
               "floats are never generated nor compared",
               "values reach the streams unchanged by the interpreter only in so far as the capture stream sees the same raw values "
               "(recipes are deterministic: the capture run and the real run see the same rows)",
               "table and field names are ASCII identifiers; no field is itself called id / _sf_update_key",
               "the YAML reader hands the parser the structure the harness wrote (yaml.safe_dump / safe_load round trip)"]

I64_LO, I64_HI = -2 ** 63, 2 ** 63
TABLES = ["A", "B", "C", "D"]
HIDDEN_TABLE = "__H"
FIELDS = ["f0", "f1", "f2", "f3", "f4", "f5"]
HIDDEN_FIELD = "__h0"

HOSTILE = ["", "plain", "zé\U0001F600", "日本語", "a,b \"q\" 'x'; l1\nl2", "\"", ",", "'", ";", "''",
           "\"\"", "l1\r\nl2", " lead", "trail ", "tab\there", "0012", "None", "NULL", "null", "true", "1.50", "\\",
           "a\\nb", "--", "');DROP TABLE A;--", "%s", "{x}", "x=1", "[1, 2]", "\r", "\n", "a\nb\n", " ", "﻿bom",
           "x" * 300, "café, \"crème\"\n;'", "\x7f", "\x1f\x01", "\u2028\u2029", "\x85", "\\u0041", "\\\"", "\U0010ffff",
           "a\x0bb\x0c", "\\n", "/", "</script>", "\ud7ff\ue000", "'';", ");\nINSERT INTO \"A\" VALUES(9);"]
# finding C08-sql-script-nul: a NUL character ends the text in the SQL script
NUL_VALUES = [["str", "a\x00b"], ["str", "\x00"], ["str", "x\x00"], ["str", "\x00'q"], ["str", "é\x00\U0001F600"]]


# ============================================================================ value specs
def gen_value(rng, allow_big=True, allow_k9=False):
    r = rng.random()
    if r < 0.08:
        return ["bool", rng.random() < 0.5]
    if r < 0.15:
        return ["none"]
    if r < 0.25:
        return rng.choice([["date", 2020, 2, 29], ["date", 1, 1, 1], ["date", 9999, 12, 31], ["date", 999, 3, 7],
                           ["date", rng.randint(1, 9999), rng.randint(1, 12), rng.randint(1, 28)]])
    if r < 0.42:
        us = rng.choice([0, 0, 123, 999999, 100000, rng.randint(1, 999999)])
        off = rng.choice([None, 0, 0, 330, -330, 345, -720, 840, -1, 59, rng.randint(-1439, 1439)])
        y = rng.choice([2020, 1999, 1, 9999, 987, rng.randint(1, 9999)])
        return ["dt", y, rng.randint(1, 12), rng.randint(1, 28), rng.choice([0, 23, rng.randint(0, 23)]),
                rng.choice([0, 59, rng.randint(0, 59)]), rng.choice([0, 59, rng.randint(0, 59)]), us, off]
    if r < 0.52:
        return ["dec", rng.choice(["3.00", "-0.0", "1E+3", "0.1", "123456789.123456789", "NaN", "Infinity", "-7",
                                   "0E-10", "1.50", "%d.%02d" % (rng.randint(0, 999), rng.randint(0, 99))])]
    if r < 0.72:
        pool = [0, 1, -1, 7, 2 ** 31, -2 ** 31 - 1, 2 ** 53 + 1, I64_HI - 1, I64_LO, rng.randint(-10 ** 6, 10 ** 6)]
        if allow_big and allow_k9:
            pool += [I64_HI, I64_LO - 1, 2 ** 70, -2 ** 64, 10 ** 30]
        return ["int", rng.choice(pool)]
    s = rng.choice(HOSTILE) if rng.random() < 0.8 else "".join(
        rng.choice("ab ,\"'\n;é中\U0001F600\\=()") for _ in range(rng.randint(1, 12)))
    return ["str", s]


# ---------------------------------------------------------------------------- twins (round 4)
# Values that Python calls equal (== and the same hash) although every one of them has its own written form:
# one instant in several UTC offsets; an integer as bool / int / Decimal with different exponents.  A run that
# holds several members of such a family -- in one row, in several rows of a table, in different tables -- or
# that comes after an earlier run of the same process that wrote another member must still write every cell
# from its own value (anything that looks encoded values up by equality writes the first member's text).
TWIN_OFFSETS = [0, 0, 330, -330, 345, -720, 840, 60, -60, 1, -1, 59, 1439, -1439]


def _canon_dec(s):
    return ["dec", str(decimal.Decimal(s))]


def gen_twin_family(rng):
    """-> (kind, members): value specs that are pairwise equal in Python (kinds instant, number) or have the same
    str() although they are of different types (kind same_str), all written differently somewhere"""
    r0 = rng.random()
    if r0 < 0.15:
        n = rng.choice([0, 1, -3, 12, 2 ** 40])
        dt = ["dt", rng.choice([2020, 987]), rng.randint(1, 12), rng.randint(1, 28), rng.randint(0, 23), 59, 0,
              rng.choice([0, 250000]), rng.choice([None, 0, 330, -720])]
        members = rng.choice([
            [["bool", True], ["str", "True"]], [["bool", False], ["str", "False"]], [["none"], ["str", "None"]],
            [["int", n], ["str", str(n)], ["dec", str(n)]], [["dec", "1.50"], ["str", "1.50"]],
            [["date", 2020, 2, 29], ["str", "2020-02-29"]], [dt, ["str", _dt_str(dt)]]])
        members = [list(m) for m in members]
        rng.shuffle(members)
        assert len({str(py_value(m)) for m in members}) == 1, members
        return "same_str", members
    if r0 < 0.6:
        y = rng.choice([2021, 1999, 2, 9998, 987, rng.randint(2, 9998)])
        base = datetime.datetime(y, rng.randint(1, 12), rng.randint(1, 28), rng.choice([0, 23, 12, rng.randint(0, 23)]),
                                 rng.choice([0, 59, 30, rng.randint(0, 59)]), rng.choice([0, 59, rng.randint(0, 59)]),
                                 rng.choice([0, 0, 123, 999999, rng.randint(1, 999999)]), tzinfo=datetime.timezone.utc)
        offs = []
        for o in rng.sample(TWIN_OFFSETS, 4) + [rng.randint(-1439, 1439)]:
            if o not in offs:
                offs.append(o)
        members = []
        for o in offs:
            x = base.astimezone(datetime.timezone(datetime.timedelta(minutes=o)))
            members.append(["dt", x.year, x.month, x.day, x.hour, x.minute, x.second, x.microsecond, o])
        kind = "instant"
    else:
        n = rng.choice([0, 0, 1, 1, -1, 3, 7, 10, 1000, -7, 123, 2 ** 53 + 1, -2 ** 31 - 1, rng.randint(-10 ** 6, 10 ** 6)])
        members = [["int", n], _canon_dec("%d.0" % n), _canon_dec("%d.00" % n), _canon_dec("%d.000000" % n)]
        if n in (0, 1):
            members.append(["bool", bool(n)])
        if n == 0:
            members += [_canon_dec("-0"), _canon_dec("-0.0"), _canon_dec("0E-10"), _canon_dec("0E+2")]
        else:
            members.append(_canon_dec(str(n)))
            m, e = abs(n), 0
            while m % 10 == 0:
                m, e = m // 10, e + 1
            if e:
                members.append(_canon_dec("%s%dE+%d" % ("-" if n < 0 else "", m, e)))
        uniq = []
        for m in members:
            if m not in uniq:
                uniq.append(m)
        members = uniq
        rng.shuffle(members)
        kind = "number"
    pv = [py_value(m) for m in members]
    assert all(a == b and hash(a) == hash(b) for a in pv for b in pv), members
    return kind, members


def twin_floats(kind, members):
    """floats equal to a number family: only ever written by an EARLIER run (floats are never compared)"""
    if kind != "number":
        return []
    n = py_value(members[0])
    f = float(n)
    return [["float", repr(f)]] + ([["float", "-0.0"]] if f == 0 else []) if f == n else []


def py_value(v):
    k = v[0]
    if k == "float":
        return float(v[1])
    if k == "none":
        return None
    if k in ("bool", "int", "str"):
        return v[1]
    if k == "date":
        return datetime.date(v[1], v[2], v[3])
    if k == "dt":
        tz = None if v[8] is None else datetime.timezone(datetime.timedelta(minutes=v[8]))
        return datetime.datetime(v[1], v[2], v[3], v[4], v[5], v[6], v[7], tzinfo=tz)
    if k == "dec":
        return decimal.Decimal(v[1])
    if k == "other":
        return [1, 2]
    raise ValueError(k)


def spec_of(x):
    """raw value as the interpreter hands it to write_row -> value spec"""
    from snowfakery.object_rows import ObjectRow, ObjectReference
    if isinstance(x, (ObjectRow, ObjectReference)):
        return ["ref", x._tablename, x.id]
    if x is None:
        return ["none"]
    if isinstance(x, bool):
        return ["bool", x]
    if isinstance(x, int):
        return ["int", x]
    if isinstance(x, str) and type(x) is str:
        return ["str", x]
    if isinstance(x, datetime.datetime):
        off = x.utcoffset()
        if off is None:
            o = None
        else:
            secs = off.total_seconds()
            if secs != int(secs) or int(secs) % 60:
                return ["other", "datetime-odd-offset"]
            o = int(secs) // 60
        return ["dt", x.year, x.month, x.day, x.hour, x.minute, x.second, x.microsecond, o]
    if isinstance(x, datetime.date):
        return ["date", x.year, x.month, x.day]
    if isinstance(x, decimal.Decimal):
        return ["dec", str(x)]
    if isinstance(x, float):
        return ["float"]
    return ["other", type(x).__name__]


# ---------------------------------------------------------------------------- the encoder table (oracle copy, appendix B)
def _d(y, m, d):
    return "%04d-%02d-%02d" % (y, m, d)


def _off(o):
    if o is None:
        return ""
    return ("-" if o < 0 else "+") + "%02d:%02d" % (abs(o) // 60, abs(o) % 60)


def _dt_seconds(v):
    return _d(v[1], v[2], v[3]) + "T" + "%02d:%02d:%02d" % (v[4], v[5], v[6]) + _off(v[8])


def _dt_str(v):
    return (_d(v[1], v[2], v[3]) + " " + "%02d:%02d:%02d" % (v[4], v[5], v[6])
            + (".%06d" % v[7] if v[7] else "") + _off(v[8]))


def exp_cell(fmt, is_id, v):
    """cell an independent reader must find for raw value v; ["reject"] = the database refuses it;
    None = outside the compared value types"""
    k = v[0]
    if k in ("float", "other"):
        return None
    if k == "str" and has_surrogate(v[1]) and fmt != "json":
        return ["reject"]       # not encodable as UTF-8: a text file / sqlite3 refuses it
    if fmt == "txt":
        t = {"none": lambda: "None", "bool": lambda: "1" if v[1] else "0", "int": lambda: str(v[1]),
             "str": lambda: v[1], "date": lambda: _d(*v[1:]), "dt": lambda: _dt_seconds(v),
             "dec": lambda: v[1], "ref": lambda: "%s(%d)" % (v[1], v[2])}[k]()
        return ["text", t]
    if fmt == "json":
        if k == "none":
            return ["null"]
        if k == "bool":
            return ["bool", v[1]]
        if k == "int":
            return ["num", v[1]]
        if k == "ref":
            return ["num", v[2]]
        return ["text", {"str": lambda: v[1], "date": lambda: _d(*v[1:]), "dt": lambda: _dt_str(v),
                         "dec": lambda: v[1]}[k]()]
    if fmt == "csv":
        t = {"none": lambda: "", "bool": lambda: "1" if v[1] else "0", "int": lambda: str(v[1]),
             "str": lambda: v[1], "date": lambda: _d(*v[1:]), "dt": lambda: _dt_seconds(v),
             "dec": lambda: v[1], "ref": lambda: str(v[2])}[k]()
        return ["text", t]
    if fmt in ("db", "sql"):
        if k == "none":
            return ["null"]
        n = {"bool": lambda: int(v[1]), "int": lambda: v[1], "ref": lambda: v[2]}.get(k)
        if n is not None:
            n = n()
            if not (I64_LO <= n < I64_HI):
                return ["reject"] if is_id else ["text", str(n)]      # sql_int: beyond 64 bits -> text
            return ["num", n] if is_id else ["text", str(n)]
        return ["text", {"str": lambda: v[1], "date": lambda: _d(*v[1:]),
                         "dt": lambda: _dt_seconds(v) if fmt == "db" else _dt_str(v),
                         "dec": lambda: v[1]}[k]()]
    raise ValueError(fmt)


def has_surrogate(s):
    return any(0xD800 <= ord(ch) <= 0xDFFF for ch in s)


def is_k9_value(v):
    """a value the database refuses when the batch is flushed"""
    return v[0] == "str" and has_surrogate(v[1])


K9_VALUES = [["str", "\ud800"], ["str", "a\udfffb"], ["str", "\udc00\ud800"]]


def is_k10_value(v):
    """a text SQLite's quote() cuts short when the SQL script is dumped"""
    return v[0] == "str" and "\x00" in v[1]


# ============================================================================ schema (oracle copy)
# A recipe case is a small project: the main file (`templates` = its statements, `includes`, `macros`) and
# `files` it includes (each {name, includes, macros, stmts}).  A statement is a template
# {table, fields, friends, count?, upd?, nick?, include?: [macro names]} or {"var": name, "value": ["obj", template]}.
# A field value may hold nested templates: ["obj", template] or ["fn", [templates], flow?].
# A macro is {name, include?: [...], fields, friends}.
MAIN_FILE = "r.yml"


class ParseErr(Exception):
    """the harness's reading of the recipe says the parser must refuse it"""


def _dedupe(names):
    out = []
    for n in names:
        if n not in out:
            out.append(n)
    return out


def load_project(case):
    """(macros by name, statement list) the way parse_file collects them: the statements of included
    files first (depth first), a later macro definition replaces an earlier one"""
    files = {f["name"]: f for f in case.get("files", [])}
    macros = {}

    def load(f, name, stack):
        stmts = []
        for inc in f.get("includes", []):
            if inc not in files:
                raise ParseErr("include file %s does not exist" % inc)
            if inc == name or inc in stack:
                raise ParseErr("include file %s includes itself" % inc)
            stmts += load(files[inc], inc, stack + [name])
        for m in f.get("macros", []):
            macros[m["name"]] = m
        return stmts + list(f.get("stmts", []))

    main = {"includes": case.get("includes", []), "macros": case.get("macros", []), "stmts": main_statements(case)}
    return macros, load(main, MAIN_FILE, [])


def main_statements(case):
    """the statements of the main file as far as the schema goes: in an update recipe (build_update_recipe) the
    pass-through columns of the input file become fields of the one template"""
    sts = case["templates"]
    up = case.get("update")
    if up and up.get("passthrough") and sts and "table" in sts[0]:
        extra = [[n, ["inp", n]] for n in up["passthrough"]]
        return [dict(sts[0], fields=sts[0]["fields"] + extra)] + sts[1:]
    return sts


def _walk_value(v, macros, stack, out):
    if v and v[0] == "obj":
        _walk_tpl(v[1], macros, stack, out)
    elif v and v[0] == "fn":
        for t in v[1]:
            _walk_tpl(t, macros, stack, out)


def _walk_fields(fields, macros, stack, out):
    names = []
    for name, v in fields:
        _walk_value(v, macros, stack, out)
        names.append(name)
    return names


def _walk_stmts(stmts, macros, stack, out):
    for st in stmts:
        if "var" in st:
            _walk_value(st["value"], macros, stack, out)
        else:
            _walk_tpl(st, macros, stack, out)


def _expand_macro(name, macros, parent, out):
    if name not in macros:
        raise ParseErr("no macro %s" % name)
    if name in parent:
        raise ParseErr("macro %s includes itself" % name)
    m = macros[name]
    st = parent + (name,)
    names = []
    for m2 in m.get("include", []):
        names += _expand_macro(m2, macros, st, out)
    names += _walk_fields(m.get("fields", []), macros, st, out)
    _walk_stmts(m.get("friends", []), macros, st, out)
    return _dedupe(names)


def _walk_tpl(t, macros, stack, out):
    """parse_object_template: macros, own fields (nested templates first), friends, then the template itself"""
    names = []
    for m in t.get("include", []):
        names += _expand_macro(m, macros, stack, out)
    names += _walk_fields(t["fields"], macros, stack, out)
    _walk_stmts(t.get("friends", []), macros, stack, out)
    out.append({"table": t["table"], "fields": [[n, None] for n in _dedupe(names)], "friends": [],
                "upd": t.get("upd") or None})


def registration_order(templates, macros=None):
    """flat templates (all their fields, macro fields included) in the order the parser registers them"""
    out = []
    _walk_stmts(templates, macros or {}, (), out)
    return out


def case_flat(case):
    macros, stmts = load_project(case)
    return registration_order(stmts, macros)


def case_templates(case):
    """what py_infer / ctemplates / _names_hint take: flat templates for a recipe case, the given list otherwise"""
    if case.get("kind") == "recipe":
        return case_flat(case)
    return case["templates"]


def py_infer(templates):
    tabs = {}
    for t in registration_order(templates):
        ti = tabs.setdefault(t["table"], {"fields": [], "upd": False})
        for name, _ in t["fields"]:
            if not name.startswith("__") and name not in ti["fields"]:
                ti["fields"].append(name)
        if t.get("upd"):
            ti["upd"] = True
    return {k: v for k, v in tabs.items() if not k.startswith("__")}


def columns_of(ti):
    return ti["fields"] + ["id"] + (["_sf_update_key"] if ti["upd"] else [])


# ============================================================================ generators
def gen_template(rng, table, known, nvalues, depth, counts):
    nf = rng.randint(0, 4)
    names = rng.sample(FIELDS, nf)
    if names and rng.random() < 0.15:
        names[rng.randrange(len(names))] = HIDDEN_FIELD
    fields = []
    for n in names:
        r = rng.random()
        if r < 0.55 and nvalues:
            fields.append([n, ["val", rng.randrange(nvalues)]])
        elif r < 0.7 and known:
            fields.append([n, ["ref", rng.choice(known)]])
        elif r < 0.8:
            fields.append([n, ["idx"]])
        else:
            fields.append([n, ["lit", rng.choice(["abc", "x y", 5, 0, -3, "k9"])]])
    t = {"table": table, "count": rng.choice(counts), "fields": fields, "friends": []}
    visible = [n for n in names if not n.startswith("__")]
    if visible and rng.random() < 0.25:
        t["upd"] = rng.choice(visible)
    if depth == 0 and rng.random() < 0.3:
        for _ in range(rng.randint(1, 2)):
            tb = rng.choice(TABLES + [HIDDEN_TABLE]) if rng.random() < 0.9 else table
            t["friends"].append(gen_template(rng, tb, known + ([table] if not table.startswith("__") else []),
                                             nvalues, 1, [None, None, 1, 2, 0]))
    return t


OUTPUT_SETS = [["txt"], ["json"], ["csv"], ["sql"], ["db"],
               ["txt", "json"], ["json", "sql"], ["txt", "db"], ["json", "db"], ["sql", "db"], ["csv", "db"],
               ["db", "db"], ["sql", "txt"], ["txt", "json", "sql"], ["json", "sql", "db"], ["txt", "json", "db"],
               ["csv", "db", "db"], ["sql", "json", "txt", "db"], ["txt", "txt"], ["json", "json", "db"]]


def gen_recipe_case(rng, big_count=None, outputs=None, k9=False, k10=False):
    outputs = outputs or rng.choice(OUTPUT_SETS)
    sqlish = any(o in ("db", "sql") for o in outputs)
    nvalues = rng.randint(3, 10)
    values = [gen_value(rng, allow_k9=True) for _ in range(nvalues)]
    if k9:
        values[rng.randrange(nvalues)] = rng.choice(K9_VALUES)
    if k10:
        values = [v for v in values if not (v[0] == "int" and not I64_LO <= v[1] < I64_HI)] + [["none"]] * 3
        values = values[:nvalues]
        values[rng.randrange(nvalues)] = rng.choice(NUL_VALUES)
    ntab = rng.randint(1, 4)
    tabs = rng.sample(TABLES, ntab)
    templates = []
    known = []
    small = [None, None, 1, 2, 3, 7, 0]
    for i in range(rng.randint(1, 5)):
        tb = rng.choice(tabs) if rng.random() < 0.92 else HIDDEN_TABLE
        t = gen_template(rng, tb, list(known), nvalues, 0, small)
        templates.append(t)
        if not tb.startswith("__") and (t["count"] != 0 or rng.random() < 0.1):
            known.append(tb)
    if k9 or k10:
        # make sure the rejected value reaches a visible table exactly through a plain field
        i = next(j for j, v in enumerate(values) if is_k9_value(v) or is_k10_value(v))
        tgt = next((t for t in templates if not t["table"].startswith("__")), None)
        if tgt is None:
            tgt = {"table": "A", "count": None, "fields": [], "friends": []}
            templates.append(tgt)
        tgt["fields"] = [f for f in tgt["fields"] if f[0] != "f5"] + [["f5", ["val", i]]]
        if not tgt["count"]:
            tgt["count"] = rng.choice([1, 2, 3])
    if big_count is not None:
        cheap = {"table": rng.choice(tabs), "count": big_count,
                 "fields": [["f0", ["idx"]]] + ([["f1", ["lit", "abc"]]] if rng.random() < 0.5 else []),
                 "friends": []}
        templates.insert(rng.randrange(len(templates) + 1), cheap)
    return {"kind": "recipe", "version": rng.choice([2, 3]), "values": values, "templates": templates,
            "outputs": outputs}


MACRO_FIELDS = ["m0", "m1", "m2"]
INCLUDE_NAMES = ["inc0.yml", "inc1.yml", "inc2.yml"]


def gen_project_case(rng, outputs=None, align=None):
    """a recipe spread over include files, with macros (fields, friends, macros including macros), templates
    nested in fields / in function arguments (block and flow style) / in variables, friends; the same table
    described by templates with different field sets in different places"""
    outputs = outputs or rng.choice(OUTPUT_SETS)
    nvalues = rng.randint(3, 8)
    values = [gen_value(rng, allow_k9=False) for _ in range(nvalues)]
    tabs = rng.sample(TABLES, rng.randint(1, 4))
    nvar = [0]

    def table():
        return rng.choice(tabs) if rng.random() < 0.93 else HIDDEN_TABLE

    def simple_value():
        r = rng.random()
        if r < 0.6:
            return ["val", rng.randrange(nvalues)]
        if r < 0.75:
            return ["idx"]
        return ["lit", rng.choice(["abc", "x y", 5, 0, -3])]

    def nested(depth, pool):
        return {"table": table(), "fields": fields(depth + 1, rng.randint(0, 2), pool), "friends": []}

    def fields(depth, n, pool):
        names = rng.sample(pool, min(n, len(pool)))
        if names and rng.random() < 0.1:
            names[rng.randrange(len(names))] = HIDDEN_FIELD
        out = []
        for nm in names:
            r = rng.random()
            if depth < 2 and r < 0.18:
                out.append([nm, ["obj", nested(depth, pool), rng.random() < 0.5]])
            elif depth < 2 and r < 0.30:
                out.append([nm, ["fn", [nested(depth, pool) for _ in range(rng.randint(1, 2))], rng.random() < 0.6]])
            else:
                out.append([nm, simple_value()])
        return out

    def stmts(depth, n, macro_names, counts):
        out = []
        for _ in range(n):
            if depth < 2 and rng.random() < 0.1:
                nvar[0] += 1
                out.append({"var": "v%d" % nvar[0], "value": ["obj", nested(depth, FIELDS), rng.random() < 0.5]})
                continue
            t = {"table": table(), "count": rng.choice(counts), "fields": fields(depth, rng.randint(0, 3), FIELDS), "friends": []}
            if macro_names and rng.random() < 0.45:
                t["include"] = rng.sample(macro_names, rng.randint(1, min(2, len(macro_names))))
            vis = [nm for nm, _ in t["fields"] if not nm.startswith("__")]
            if vis and rng.random() < 0.15:
                t["upd"] = rng.choice(vis)
            if depth == 0 and rng.random() < 0.25:
                t["friends"] = stmts(depth + 1, rng.randint(1, 2), macro_names, [None, None, 1, 2, 0])
            out.append(t)
        return out

    # macros: macro i may include macros with a smaller index (no cycle)
    nmac = rng.choice([0, 1, 1, 2, 3])
    macros = []
    for i in range(nmac):
        m = {"name": "mac%d" % i, "fields": fields(0, rng.randint(0, 3), MACRO_FIELDS + (FIELDS[:2] if rng.random() < 0.4 else [])),
             "friends": []}
        if i and rng.random() < 0.4:
            m["include"] = rng.sample(["mac%d" % j for j in range(i)], 1)
        if rng.random() < 0.35:
            m["friends"] = stmts(1, 1, ["mac%d" % j for j in range(i)] if rng.random() < 0.3 else [], [None, 1, 2])
        macros.append(m)
    if nmac and rng.random() < 0.15:          # a second definition of a name: the later one wins
        macros.append({"name": "mac0", "fields": fields(0, rng.randint(1, 2), MACRO_FIELDS), "friends": []})
    macro_names = sorted({m["name"] for m in macros})
    small = [None, None, 1, 2, 3, 0]
    nfiles = rng.choice([0, 1, 1, 2, 2, 3])
    files = [{"name": INCLUDE_NAMES[i], "includes": [], "macros": [], "stmts": stmts(0, rng.randint(1, 3), macro_names, small),
              "version_line": rng.random() < 0.5, "macros_last": rng.random() < 0.3} for i in range(nfiles)]
    for i, f in enumerate(files):              # a file may include files with a larger index (no cycle)
        for j in range(i + 1, nfiles):
            if rng.random() < 0.35:
                f["includes"].append(files[j]["name"])
    includes = [f["name"] for f in files if rng.random() < 0.8]
    if files and not includes:
        includes = [files[0]["name"]]
    rng.shuffle(includes)
    main_macros = []
    reach, todo = [], list(includes)
    while todo:
        n = todo.pop()
        if n not in reach:
            reach.append(n)
            todo.extend(next(f for f in files if f["name"] == n)["includes"])
    homes = [main_macros] + [f["macros"] for f in files if f["name"] in reach or rng.random() < 0.05]
    for m in macros:
        rng.choice(homes).append(m)
    case = {"kind": "recipe", "version": rng.choice([2, 3]), "values": values,
            "templates": stmts(0, rng.randint(1, 3), macro_names, small), "outputs": outputs,
            "files": files, "includes": includes, "macros": main_macros, "macros_last": rng.random() < 0.3}
    if align if align is not None else (files and rng.random() < 0.7):
        case["align"] = True
        # the first template of every file: often the same table (that is when line numbers can be confused)
        firsts = [f["stmts"] for f in files] + [case["templates"]]
        tb = rng.choice(tabs)
        for sts in firsts:
            if sts and "table" in sts[0] and rng.random() < 0.75:
                sts[0]["table"] = tb
                sts[0]["nick"] = None if rng.random() < 0.85 else "nk"
                if sts[0].get("count") == 0:
                    sts[0]["count"] = 1
    return case


def gen_update_case(rng, outputs=None):
    """an update recipe: one template, one row per line of an input CSV file; pass-through columns of the input
    become fields of the rows (and columns of the schema) without being written in the recipe"""
    outputs = outputs or rng.choice(OUTPUT_SETS)
    values = [gen_value(rng, allow_k9=False) for _ in range(4)]
    cols = rng.sample(["c0", "c1", "c2", "Oid", "Name"], rng.randint(1, 4))
    pool = [h for h in HOSTILE if not has_surrogate(h) and "\x00" not in h and len(h) < 50 and h != "[1, 2]"]
    rows = [[rng.choice(pool) if rng.random() < 0.7 else str(rng.randint(-5, 10 ** 6)) for _ in cols]
            for _ in range(rng.choice([0, 1, 2, 3, 7]))]
    names = rng.sample(FIELDS, rng.randint(0, 3))
    fields = []
    for n in names:
        r = rng.random()
        fields.append([n, ["inp", rng.choice(cols)] if r < 0.5 else ["val", rng.randrange(4)] if r < 0.8 else ["lit", "abc"]])
    t = {"table": rng.choice(TABLES), "count": None, "fields": fields, "friends": []}
    if names and rng.random() < 0.3:
        t["upd"] = rng.choice(names)
    if rng.random() < 0.3:
        t["friends"] = [{"table": rng.choice(TABLES), "count": rng.choice([None, 2]),
                         "fields": [[rng.choice(FIELDS), ["inp", rng.choice(cols)]]], "friends": []}]
    return {"kind": "recipe", "version": rng.choice([2, 3]), "values": values, "templates": [t], "outputs": outputs,
            "update": {"cols": cols, "rows": rows, "passthrough": rng.sample(cols, rng.randint(0, len(cols)))}}


def gen_parse_error_case(rng):
    """recipes the parser must refuse: a macro that is not defined / includes itself, an include file that
    does not exist / includes itself"""
    case = gen_project_case(rng, outputs=[rng.choice(["json", "csv", "db"])], align=False)
    kind = rng.choice(["no-macro", "macro-cycle", "no-file", "file-cycle"])
    if kind == "no-macro":
        case["templates"].append({"table": "A", "count": None, "fields": [], "friends": [], "include": ["nosuch"]})
    elif kind == "macro-cycle":
        case["macros"] = case.get("macros", []) + [{"name": "cy0", "include": ["cy1"], "fields": [], "friends": []},
                                                   {"name": "cy1", "include": ["cy0"], "fields": [], "friends": []}]
        case["templates"].append({"table": "A", "count": None, "fields": [], "friends": [], "include": ["cy0"]})
    elif kind == "no-file":
        case["includes"] = case.get("includes", []) + ["nosuch.yml"]
    else:
        case["files"] = case.get("files", []) + [{"name": "cyc0.yml", "includes": ["cyc1.yml"], "macros": [], "stmts": []},
                                                 {"name": "cyc1.yml", "includes": ["cyc0.yml"], "macros": [], "stmts": []}]
        case["includes"] = case.get("includes", []) + ["cyc0.yml"]
    case["parse_error"] = kind
    return case


def gen_forward_case(rng, outputs=None, cont=False):
    """a forward reference reserves an id for a row that is written after another row of the same table"""
    outputs = outputs or rng.choice([o for o in OUTPUT_SETS if any(x in ("db", "sql") for x in o)])
    values = [gen_value(rng, allow_k9=False) for _ in range(4)]
    tb, ta = rng.sample(TABLES, 2)
    templates = [{"table": ta, "count": rng.choice([None, 2]), "fields": [["f0", ["lit", "points ahead"]], ["f1", ["ref", "bb"]]],
                  "friends": []},
                 {"table": tb, "count": rng.choice([None, 2]), "fields": [["f0", ["lit", "first"]], ["f2", ["val", rng.randrange(4)]]],
                  "friends": []},
                 {"table": tb, "nick": "bb", "count": None, "fields": [["f0", ["lit", "second"]], ["f3", ["val", rng.randrange(4)]]],
                  "friends": []}]
    if rng.random() < 0.5:
        templates.append({"table": rng.choice(TABLES), "count": rng.choice([1, 3]), "fields": [["f5", ["val", rng.randrange(4)]]],
                          "friends": []})
    case = {"kind": "recipe", "version": rng.choice([2, 3]), "values": values, "templates": templates, "outputs": outputs}
    if cont:
        case["continued"] = True
    return case


def gen_continued_case(rng, outputs=None):
    """a run started from a continuation file, written into fresh outputs: ids do not start at 1"""
    outputs = outputs or rng.choice([o for o in OUTPUT_SETS if any(x in ("db", "sql") for x in o)])
    values = [rng.choice([["int", rng.randint(-9, 9)], ["str", rng.choice(HOSTILE[:12])], ["bool", True], ["none"]]) for _ in range(4)]
    tabs = rng.sample(TABLES, rng.randint(1, 3))
    templates = []
    for _ in range(rng.randint(1, 3)):
        tb = rng.choice(tabs)
        fields = [[n, rng.choice([["val", rng.randrange(4)], ["idx"], ["lit", "abc"]])] for n in rng.sample(FIELDS, rng.randint(1, 3))]
        templates.append({"table": tb, "count": rng.choice([None, 2, 3]), "fields": fields, "friends": []})
    return {"kind": "recipe", "version": rng.choice([2, 3]), "values": values, "templates": templates, "outputs": outputs,
            "continued": True}


def gen_direct_case(rng, k9=False, k10=False):
    fmts = rng.choice(OUTPUT_SETS + [["csv", "txt"], ["csv", "json", "sql"], ["csv"], ["db"], ["sql"]])
    if k10:
        fmts = rng.choice([["sql"], ["sql", "db"], ["json", "sql"], ["csv", "sql", "txt"]])
    sqlish = any(o in ("db", "sql") for o in fmts)
    ntab = rng.randint(1, 4)
    tabs = rng.sample(TABLES, ntab)
    templates = []
    for i in range(rng.randint(ntab, ntab + 3)):
        tb = tabs[i] if i < ntab else rng.choice(tabs)
        names = rng.sample(FIELDS, rng.randint(0, 4))
        t = {"table": tb, "fields": [[n, None] for n in names], "friends": []}
        if names and rng.random() < 0.25:
            t["upd"] = rng.choice(names)
        templates.append(t)
    n = rng.choice([0, 1, 2, 3, 5, 8, 13, 20])
    ids = Counter()
    rows = []
    for _ in range(n):
        t = rng.choice(templates)
        ids[t["table"]] += 1
        row = [["id", ["int", ids[t["table"]]]]]
        if t.get("upd"):
            row.append(["_sf_update_key", ["str", t["upd"]]])
        for name, _ in t["fields"]:
            if rng.random() < 0.1 and ids:
                tt = rng.choice(sorted(ids))
                row.append([name, ["ref", tt, rng.choice([rng.randint(1, max(1, ids[tt])), 2 ** 70, I64_HI, I64_LO - 1])]])
            else:
                row.append([name, gen_value(rng, allow_k9=True)])
        rows.append([t["table"], row])
    # ids as a continued run / forward references produce them: not starting at 1, not in write order
    if rng.random() < 0.6:
        for tb in sorted(ids):
            start = rng.choice([1, 2, 5, 100, 10 ** 6])
            new = list(range(start, start + ids[tb]))
            if rng.random() < 0.6:
                rng.shuffle(new)
            j = 0
            for t, r in rows:
                if t == tb:
                    r[0] = ["id", ["int", new[j]]]
                    j += 1
    if k10:
        cands = [(i, j) for i, (_, r) in enumerate(rows) for j, (k, v) in enumerate(r) if k not in ("id", "_sf_update_key")]
        if not cands:
            t = next((t for t in templates if t["fields"]), None)
            if t is None:
                t = templates[0]
                t["fields"] = [["f0", None]]
            ids[t["table"]] += 1
            rows.append([t["table"], [["id", ["int", 10 ** 7 + ids[t["table"]]]], [t["fields"][0][0], ["none"]]]])
            cands = [(len(rows) - 1, 1)]
        i, j = rng.choice(cands)
        rows[i][1][j] = [rows[i][1][j][0], rng.choice(NUL_VALUES)]
        for _, r in rows:      # nothing else the database would refuse
            for kv in r:
                if kv[1][0] == "int" and not I64_LO <= kv[1][1] < I64_HI or kv[1][0] == "ref" and not I64_LO <= kv[1][2] < I64_HI:
                    kv[1] = ["int", 5]
    case = {"kind": "direct", "templates": templates, "rows": rows, "outputs": fmts}
    if sqlish and rng.random() < 0.7:
        fl = rng.choice([1, 2, 3, 4, 5, 7])
        case["limits"] = [fl, fl * rng.choice([1, 2, 3])]
    if k9:
        case.update(outputs=[rng.choice(["db", "sql"])], templates=[{"table": "A", "fields": [["f0", None]], "friends": []}],
                    rows=[["A", [["id", ["int", 1]], ["f0", rng.choice(K9_VALUES)]]]])
        case.pop("limits", None)
    return case


def _twin_plan(rng):
    """-> (where, [(kind, members of this run, members of the earlier run)])"""
    where = rng.choice(["same_run", "same_run", "earlier_run", "both"])
    plan = []
    for _ in range(rng.choice([1, 1, 2])):
        kind, members = gen_twin_family(rng)
        k = 1 if where == "earlier_run" else rng.randint(2, min(4, len(members)))
        here, rest = members[:k], members[k:]
        if where == "same_run":
            earlier = []
        else:
            # the earlier run starts with a member this run does not hold, so that whatever remembers "the first
            # one" remembers a text no cell of this run may show
            earlier = (rest or members[:1])[:2] + twin_floats(kind, members) + (here[-1:] if rng.random() < 0.5 else [])
        plan.append((kind, here, earlier))
    return where, plan


def gen_direct_twin_case(rng):
    """a direct case whose rows hold several members of a twin family (see gen_twin_family): in one row, in
    several rows of one table and field, in different tables; optionally after an earlier session of the same
    process (other stream objects, other files, the same table names) that wrote other members"""
    for _ in range(30):
        case = gen_direct_case(rng)
        rows = case["rows"]
        cells = [(i, j) for i, (_, r) in enumerate(rows) for j, (k, _) in enumerate(r) if k not in ("id", "_sf_update_key")]
        if len(cells) >= 3:
            break
    else:
        case = {"kind": "direct", "outputs": list(rng.choice(OUTPUT_SETS)),
                "templates": [{"table": "A", "fields": [["f0", None], ["f1", None]], "friends": []},
                              {"table": "B", "fields": [["f0", None]], "friends": []}],
                "rows": [["A", [["id", ["int", 1]], ["f0", ["none"]], ["f1", ["none"]]]],
                         ["B", [["id", ["int", 1]], ["f0", ["none"]]]], ["A", [["id", ["int", 2]], ["f0", ["none"]], ["f1", ["none"]]]]]}
        rows = case["rows"]
        cells = [(i, j) for i, (_, r) in enumerate(rows) for j, (k, _) in enumerate(r) if k not in ("id", "_sf_update_key")]
    for _, r in rows:       # nothing the database would refuse: the rows must arrive
        for kv in r:
            if kv[1][0] == "int" and not I64_LO <= kv[1][1] < I64_HI or kv[1][0] == "ref" and not I64_LO <= kv[1][2] < I64_HI:
                kv[1] = ["int", 5]
    where, plan = _twin_plan(rng)
    rng.shuffle(cells)
    placed = []
    for fi, (kind, here, earlier) in enumerate(plan):
        # every member at least once, some of them again later (the same value written twice is fine as well)
        seq = list(here) + [rng.choice(here) for _ in range(rng.randint(0, 2))]
        for m in seq:
            if not cells:
                break
            i, j = cells.pop()
            rows[i][1][j] = [rows[i][1][j][0], list(m)]
            placed.append([fi, i, rows[i][0], rows[i][1][j][0]])
    prelude = []
    if where != "same_run":
        # the earlier session writes rows of the same tables: copies of this run's rows in which the twin cells
        # hold OTHER members of their family, first of all one this run never writes
        pos = {(i, f): fi for fi, i, _, f in placed}
        nxt = Counter()
        for i, (t, r) in enumerate(rows):
            r2 = []
            for k, v in r:
                fi = pos.get((i, k))
                if fi is not None and plan[fi][2]:
                    e = plan[fi][2]
                    r2.append([k, list(e[nxt[fi] % len(e)])])
                    nxt[fi] += 1
                else:
                    r2.append([k, v])
            prelude.append([t, r2])
        if rng.random() < 0.3:
            rng.shuffle(prelude)
    spread = set()
    for fi in range(len(plan)):
        ps = [p for p in placed if p[0] == fi]
        if len({p[1] for p in ps}) < len(ps):
            spread.add("one_row")
        if len({p[2] for p in ps}) > 1:
            spread.add("different_tables")
        if any(a[1] != b[1] and a[2:] == b[2:] for a in ps for b in ps):
            spread.add("one_table_and_field")
    case["twins"] = {"where": where, "kinds": [k for k, _, _ in plan], "spread": sorted(spread), "cells": len(placed)}
    if prelude:
        case["prelude"] = prelude
    return case


def _val_slots(case):
    """top-level templates of the main file that sit in a visible table"""
    return [t for t in case["templates"] if "table" in t and not t["table"].startswith("__")]


def add_recipe_twins(rng, case):
    """recipe case -> the same case with members of twin families among its plugin values, each used by a field
    of a visible top-level template; `prelude_values`: the values of an earlier run of the same recipe in the same
    process (into other files), in which those fields hold other members of the family"""
    where, plan = _twin_plan(rng)
    values = case["values"]
    prelude_values = None
    slots = _val_slots(case)
    if not slots:
        slots = [{"table": "A", "count": None, "fields": [], "friends": []}]
        case["templates"].append(slots[0])
    last_name = None
    used = []
    tabs_used = []
    for kind, here, earlier in plan:
        for mi, m in enumerate(here):
            values.append(list(m))
            idx = len(values) - 1
            used.append((idx, earlier, mi))
            t = rng.choice(slots)
            have = [n for n, _ in t["fields"]]
            free = [n for n in FIELDS if n not in have]
            if last_name in free and rng.random() < 0.5:
                name = last_name          # the same field name as the previous member: one table and field when the tables agree
            elif free:
                name = rng.choice(free)
            else:
                name = None
            if name is None:
                cands = [j for j, (n, _) in enumerate(t["fields"]) if n != t.get("upd") and not n.startswith("__")]
                if not cands:
                    continue
                j = rng.choice(cands)
                t["fields"][j] = [t["fields"][j][0], ["val", idx]]
                name = t["fields"][j][0]
            else:
                t["fields"].append([name, ["val", idx]])
            last_name = name
            tabs_used.append((t["table"], name))
            if t.get("count") == 0:
                t["count"] = rng.choice([1, 2])
    if where != "same_run":
        prelude_values = [list(v) for v in values]
        for idx, earlier, mi in used:
            if earlier:
                prelude_values[idx] = list(earlier[mi % len(earlier)])
        case["prelude_values"] = prelude_values
    case["twins"] = {"where": where, "kinds": [k for k, _, _ in plan], "cells": len(used),
                     "spread": sorted(({"different_tables"} if len({t for t, _ in tabs_used}) > 1 else set())
                                      | ({"one_table_and_field"} if len(set(tabs_used)) < len(tabs_used) else set()))}
    return case


def generate(rng, tier):
    cases = []
    quick = tier == "quick"
    # ---- direct cases first (small observables: the evidence samples come from here)
    for _ in range(260 if quick else 3600):
        cases.append(gen_direct_case(rng))
    for _ in range(4 if quick else 30):
        cases.append(gen_direct_case(rng, k9=True))
    # ---- twins: values Python calls equal that are written differently, in one run and across runs of one process
    for _ in range(70 if quick else 900):
        cases.append(gen_direct_twin_case(rng))
    for i in range(20 if quick else 240):
        c = gen_recipe_case(rng, outputs=list(OUTPUT_SETS[i % len(OUTPUT_SETS)]))
        cases.append(add_recipe_twins(rng, c))
    for _ in range(8 if quick else 100):
        cases.append(add_recipe_twins(rng, gen_project_case(rng)))
    # ---- recipes: every output set, small counts
    for outs in OUTPUT_SETS:
        for _ in range(2 if quick else 25):
            cases.append(gen_recipe_case(rng, outputs=list(outs)))
    for _ in range(30 if quick else 600):
        cases.append(gen_recipe_case(rng))
    # ---- recipes spread over include files, macros, nested templates, variables (the schema comes from the parser)
    for outs in [["csv"], ["db"], ["sql"], ["csv", "db"], ["json", "sql"], ["txt", "json", "db"]] * (2 if quick else 40):
        cases.append(gen_project_case(rng, outputs=list(outs)))
    for _ in range(24 if quick else 450):
        cases.append(gen_project_case(rng))
    for _ in range(6 if quick else 60):
        cases.append(gen_parse_error_case(rng))
    for outs in [["csv"], ["db"], ["sql"], None, None, None] * (1 if quick else 20):
        cases.append(gen_update_case(rng, outputs=outs and list(outs)))
    # ---- rows that reach the stream out of id order (forward references) / ids that do not start at 1 (continued runs)
    for outs in [["db"], ["sql"], ["json", "sql", "db"], ["csv", "db"], None, None] * (1 if quick else 12):
        cases.append(gen_forward_case(rng, outputs=outs and list(outs)))
        cases.append(gen_continued_case(rng, outputs=outs and list(outs)))
    for _ in range(2 if quick else 20):
        cases.append(gen_forward_case(rng, cont=True))
    # ---- recipes: counts that straddle the thresholds, every single format and some combinations
    bigs = [999, 1000, 1001, 2500] + ([] if quick else [9999, 10000, 10001])
    singles = [["txt"], ["json"], ["csv"], ["sql"], ["db"]]
    combos = [["txt", "json", "sql", "db"], ["csv", "db"], ["sql", "db"], ["json", "db", "db"]]
    for n in bigs:
        for outs in singles:
            cases.append(gen_recipe_case(rng, big_count=n, outputs=list(outs)))
        for outs in (combos if not quick else [rng.choice(combos)]):
            cases.append(gen_recipe_case(rng, big_count=n, outputs=list(outs)))
    # ---- K9 class (known finding): a value the database rejects at close time
    for outs in ([["db"], ["sql"], ["json", "db"], ["txt", "json", "sql"]] if quick else
                 [["db"], ["sql"], ["json", "db"], ["txt", "json", "sql"], ["csv", "db"], ["db", "db"],
                  ["sql", "json", "txt", "db"]] * 3):
        cases.append(gen_recipe_case(rng, outputs=list(outs), k9=True))
    # ---- known finding C08-sql-script-nul: a NUL character in a text, SQL script among the outputs
    for _ in range(4 if quick else 40):
        cases.append(gen_direct_case(rng, k10=True))
    for outs in ([["sql"], ["json", "sql"]] if quick else [["sql"], ["json", "sql"], ["sql", "db"], ["txt", "json", "sql"]] * 3):
        cases.append(gen_recipe_case(rng, outputs=list(outs), k10=True))
    # ---- buffer machine around the thresholds
    for text in (False, True):
        for n in [0, 1, 999, 1000, 1001, 2500] + ([] if quick else [9999, 10000, 10001, 20001]):
            cases.append({"kind": "buffer", "text": text, "limits": None, "k": rng.choice([1, 2, 3, 4]), "n": n})
    for _ in range(40 if quick else 600):
        fl = rng.randint(1, 9)
        cl = fl * rng.randint(1, 4) if rng.random() < 0.7 else rng.randint(1, 20)
        cases.append({"kind": "buffer", "text": rng.random() < 0.4, "limits": [fl, cl], "k": rng.randint(1, 4),
                      "n": rng.choice([0, 1, fl - 1, fl, fl + 1, cl - 1, cl, cl + 1, 2 * cl + 1, rng.randint(0, 60)])})
    # ---- multiplexer over test doubles
    for _ in range(40 if quick else 600):
        cases.append(gen_mux_case(rng))
    return cases


def gen_mux_case(rng):
    k = rng.randint(1, 5)
    n = rng.choice([0, 1, 2, 5, 9])
    stubs = []
    for _ in range(k):
        fa = rng.randint(1, n + 1) if rng.random() < 0.12 else 0
        stubs.append([fa, rng.random() < 0.2])
    return {"kind": "mux", "stubs": stubs, "n": n}


# ============================================================================ rendering a recipe
def _dump(x, flow=False):
    import yaml
    return yaml.safe_dump(x, sort_keys=False, allow_unicode=True, width=10 ** 6, default_flow_style=True if flow else False)


def render_project(case, plugin_mod):
    """-> ({file name: YAML text}, [(file, line, table) of every top-level template])
    Top-level items are dumped one by one, so that comment lines can be put between them: with `align` the
    first template of every file starts on the same line number."""
    flows = {}

    def value(f):
        if f[0] == "val":
            return {"TV.val": f[1]}
        if f[0] == "ref":
            return {"reference": f[1]}
        if f[0] == "idx":
            return "${{child_index}}"
        if f[0] == "inp":
            return "${{input.%s}}" % f[1]
        if f[0] == "obj":
            d = tpl(f[1])
            return [d] if len(f) > 2 and f[2] else d
        if f[0] == "fn":
            body = {"TV.first": [tpl(t) for t in f[1]]}
            if len(f) > 2 and f[2]:
                key = "FLOWPLACEHOLDER%dX" % len(flows)
                flows[key] = _dump(body, flow=True).strip()
                return key
            return body
        return f[1]

    def tpl(t):
        d = {"object": t["table"]}
        if t.get("nick"):
            d["nickname"] = t["nick"]
        if t.get("just_once"):
            d["just_once"] = True
        if t.get("count") is not None:
            d["count"] = t["count"]
        if t.get("include"):
            d["include"] = ", ".join(t["include"])
        if t.get("upd"):
            d["update_key"] = t["upd"]
        fs = {name: value(f) for name, f in t["fields"]}
        if fs:
            d["fields"] = fs
        if t.get("friends"):
            d["friends"] = [stmt(x) for x in t["friends"]]
        return d

    def stmt(st):
        if "var" in st:
            return {"var": st["var"], "value": value(st["value"])}
        return tpl(st)

    def macro(m):
        d = {"macro": m["name"]}
        if m.get("include"):
            d["include"] = ", ".join(m["include"])
        fs = {name: value(f) for name, f in m.get("fields", [])}
        if fs:
            d["fields"] = fs
        if m.get("friends"):
            d["friends"] = [stmt(x) for x in m["friends"]]
        return d

    def items(f, main):
        out = []
        if main or f.get("version_line"):
            out.append((None, {"snowfakery_version": case["version"]}))
        if main:
            out.append((None, {"plugin": plugin_mod + ".TV"}))
        pre = [(None, {"include_file": n}) for n in f.get("includes", [])] + [(None, macro(m)) for m in f.get("macros", [])]
        sts = [(st.get("table"), stmt(st)) for st in f.get("stmts", [])]
        if f.get("macros_last"):
            return out + [x for x in pre if "include_file" in x[1]] + sts + [x for x in pre if "macro" in x[1]]
        return out + pre + sts

    main = {"includes": case.get("includes", []), "macros": case.get("macros", []), "stmts": case["templates"],
            "macros_last": case.get("macros_last")}
    chunks = {MAIN_FILE: items(main, True)}
    for f in case.get("files", []):
        chunks[f["name"]] = items(f, False)
    rendered = {}
    for name, its in chunks.items():
        out = []
        for table, it in its:
            text = _dump([it])
            for key in reversed(list(flows)):      # an outer flow collection may hold inner ones
                text = text.replace(key, flows[key])
            out.append([table, text])
        rendered[name] = out

    def first_tpl_line(its):
        line = 1
        for table, text in its:
            if table is not None:
                return line
            line += text.count("\n")
        return None

    if case.get("align"):
        firsts = {n: first_tpl_line(its) for n, its in rendered.items()}
        target = max([l for l in firsts.values() if l is not None] or [0])
        for n, its in rendered.items():
            if firsts[n] is not None and firsts[n] < target:
                k = next(i for i, (table, _) in enumerate(its) if table is not None)
                its.insert(k, [None, "# pad\n" * (target - firsts[n])])
    texts, tops = {}, []
    for n, its in rendered.items():
        line = 1
        for table, text in its:
            if table is not None:
                tops.append((n, line, table))
            line += text.count("\n")
        texts[n] = "".join(t for _, t in its)
    return texts, tops


def same_line_templates(case):
    """number of top-level templates that share (line number, table) with a template of another file"""
    try:
        _, tops = render_project(case, "m")
    except Exception:
        return 0
    seen = Counter((line, table) for _, line, table in tops)
    return sum(1 for _, line, table in tops if seen[(line, table)] > 1)


PLUGIN_SRC = '''import datetime, decimal
from decimal import Decimal
from snowfakery import SnowfakeryPlugin
VALUES = %s
class TV(SnowfakeryPlugin):
    class Functions:
        def val(self, i):
            return VALUES[int(i)]
        def first(self, *args, **kw):
            return args[0] if args else None
'''


def plugin_source(values):
    items = []
    for v in values:
        items.append(repr(py_value(v)))
    return PLUGIN_SRC % ("[" + ", ".join(items) + "]")


# ============================================================================ decoders (independent of /repo)
def cell_of_sql(x):
    if x is None:
        return ["null"]
    if isinstance(x, bool):
        return ["bool", x]
    if isinstance(x, int):
        return ["num", x]
    if isinstance(x, str):
        return ["text", x]
    if isinstance(x, float):
        return ["float"]
    return ["bytes"]


def read_sqlite(con):
    out = {}
    names = [r[0] for r in con.execute("select name from sqlite_master where type='table'")]
    for t in names:
        cur = con.execute('select * from "%s" order by rowid' % t.replace('"', '""'))
        cols = [d[0] for d in cur.description]
        out[t] = {"cols": cols, "rows": [[[c, cell_of_sql(x)] for c, x in zip(cols, r)] for r in cur]}
    return out


def _read(path):
    """file contents without newline translation"""
    if not Path(path).exists():
        return ""
    with open(path, newline="", encoding="utf-8") as f:
        return f.read()


def decode_db(path):
    con = sqlite3.connect(path)
    try:
        return {"tables": read_sqlite(con), "closed": True}
    finally:
        con.close()


def decode_sql(path):
    text = _read(path)
    con = sqlite3.connect(":memory:")
    try:
        con.executescript(text)
        return {"tables": read_sqlite(con), "closed": bool(text.strip())}
    finally:
        con.close()


def decode_json(path):
    text = _read(path)
    closed = True
    if not text.strip():
        return {"records": [], "closed": True, "empty": True}
    try:
        data = json.loads(text)
    except ValueError:
        closed = False
        data = json.loads(text + "]")
    recs = []
    for obj in data:
        t = obj.get("_table")
        if not isinstance(t, str):
            t = "?"
        row = []
        for k, x in obj.items():
            if k == "_table":
                continue
            if x is None:
                c = ["null"]
            elif isinstance(x, bool):
                c = ["bool", x]
            elif isinstance(x, int):
                c = ["num", x]
            elif isinstance(x, str):
                c = ["text", x]
            else:
                c = ["float"] if isinstance(x, float) else ["json", type(x).__name__]
            row.append([k, c])
        recs.append([t, row])
    return {"records": recs, "closed": closed}


def decode_csv(folder):
    out = {}
    for p in sorted(Path(folder).glob("*.csv")):
        with open(p, newline="", encoding="utf-8") as f:
            rd = list(csv.reader(f))
        cols = rd[0] if rd else []
        out[p.stem] = {"cols": cols, "rows": [[[c, ["text", x]] for c, x in zip(cols, r)] for r in rd[1:]],
                       "ragged": any(len(r) != len(cols) for r in rd[1:])}
    return {"tables": out, "closed": (Path(folder) / "csvw_metadata.json").exists()}


def decode_txt(path, names_by_table):
    """regex reader for the debug text: a record starts at a line `Table(id=<digits>`; fields are
    split at `, <known field name>=`"""
    text = _read(path)
    tabs = sorted(names_by_table, key=len, reverse=True)
    if not tabs:
        return {"records": [], "closed": True, "junk": bool(text.strip())}
    start = re.compile(r"^(%s)\(id=\d+" % "|".join(re.escape(t) for t in tabs), flags=re.M)
    starts = [m.start() for m in start.finditer(text)]
    recs = []
    junk = bool(starts) and text[:starts[0]].strip() != "" or (not starts and text.strip() != "")
    for a, b in zip(starts, starts[1:] + [len(text)]):
        chunk = text[a:b]
        if not chunk.endswith(")\n"):
            junk = True
            continue
        t = start.match(chunk).group(1)
        body = chunk[len(t) + 1:-2]
        names = sorted(names_by_table[t], key=len, reverse=True)
        sep = re.compile(r"(?:^|, )(%s)=" % "|".join(re.escape(n) for n in names))
        ms = list(sep.finditer(body))
        row = []
        for m, nxt in zip(ms, ms[1:] + [None]):
            row.append([m.group(1), ["text", body[m.end():(nxt.start() if nxt else len(body))]]])
        recs.append([t, row])
    return {"records": recs, "closed": True, "junk": junk}


# ============================================================================ comparing artefacts with captured rows
def compare_output(fmt, dec, raw_rows, schema, names_hint=None):
    """-> (mismatch messages, per-table counts found, samples [(table, rawrow, decoded row)])"""
    msgs = []
    by_table = {}
    for t, r in raw_rows:
        by_table.setdefault(t, []).append(r)
    found = {}
    samples = []
    if fmt in ("txt", "json"):
        got = {}
        for t, r in dec["records"]:
            got.setdefault(t, []).append(r)
        if fmt == "txt" and dec.get("junk"):
            msgs.append("cell: debug text contains lines that are not well-formed records")
        if fmt == "json" and not dec["closed"]:
            msgs.append("unclosed: the JSON document is not terminated (no closing bracket)")
        order_got = [t for t, _ in dec["records"]]
        order_exp = [t for t, _ in raw_rows]
        tables = sorted(set(by_table) | set(got))
        for t in tables:
            found[t] = len(got.get(t, []))
        if order_got != order_exp and all(len(got.get(t, [])) == len(by_table.get(t, [])) for t in tables):
            msgs.append("rows-lost: %s output has the rows in a different order than they were produced" % fmt)
    else:
        got = {t: d["rows"] for t, d in dec["tables"].items()}
        if fmt in ("db", "sql"):
            got = {t: in_write_order(rs, by_table.get(t, [])) for t, rs in got.items()}
        tables = sorted(set(by_table) | set(got) | set(schema))
        for t in tables:
            found[t] = len(got.get(t, []))
        if dec.get("closed") is False and fmt in ("sql",):
            msgs.append("unclosed: the SQL script is empty")
        for t in sorted(schema):
            if t not in dec["tables"]:
                if not (fmt == "sql" and dec.get("closed") is False):
                    msgs.append("schema: table %s is missing from the %s output" % (t, fmt))
                continue
            exp_cols = columns_of(schema[t])
            if sorted(dec["tables"][t]["cols"]) != sorted(exp_cols):
                msgs.append("schema: %s columns of table %s are %s, expected %s" % (fmt, t, dec["tables"][t]["cols"], exp_cols))
            if dec["tables"][t].get("ragged"):
                msgs.append("cell: a CSV line of table %s has a different number of cells than the header" % t)
        for t in dec["tables"]:
            if t not in schema:
                msgs.append("schema: unexpected table %s in the %s output" % (t, fmt))
    for t in tables:
        exp_rows = by_table.get(t, [])
        got_rows = got.get(t, [])
        if len(got_rows) != len(exp_rows):
            msgs.append("rows-lost: %s output has %d rows of table %s, %d were produced" % (fmt, len(got_rows), t, len(exp_rows)))
        nbad = 0
        for i, (er, gr) in enumerate(zip(exp_rows, got_rows)):
            m = compare_row(fmt, t, er, gr, schema.get(t))
            if i < 3 or i >= len(exp_rows) - 2 or (i % 997 == 0):
                samples.append([t, er, gr])
            if m:
                nbad += 1
                if nbad <= 2:
                    msgs.append(m)
                    if [t, er, gr] not in samples:
                        samples.append([t, er, gr])
    return msgs, found, samples


def in_write_order(got_rows, raw_rows):
    """A table is read back in primary-key order.  When it holds exactly the ids that were written (all
    different integers) return its rows in the order they were written; otherwise leave them alone."""
    try:
        want = [dict(r)["id"][1] for r in raw_rows if dict(r)["id"][0] == "int"]
        have = {}
        for r in got_rows:
            c = dict((k, v) for k, v in r)["id"]
            if c[0] != "num" or c[1] in have:
                return got_rows
            have[c[1]] = r
    except (KeyError, IndexError, TypeError):
        return got_rows
    if len(want) != len(raw_rows) or len(set(want)) != len(want) or set(want) != set(have):
        return got_rows
    return [have[i] for i in want]


def compare_row(fmt, table, raw, got, ti):
    rawd = {k: v for k, v in raw}
    if fmt in ("txt", "json"):
        # the same fields (in any order: the property does not talk about the order inside a record) ...
        if sorted(k for k, _ in got) != sorted(k for k, _ in raw):
            return "cell: %s row of %s has fields %s, written were %s" % (fmt, table, [k for k, _ in got], [k for k, _ in raw])
        gd = dict(got)
        for k, v in raw:
            e = exp_cell(fmt, k == "id", v)
            if e is not None and gd[k] != e:
                return "cell: %s output, table %s field %s: value %r was written as %r, expected %r" % (fmt, table, k, v, gd[k], e)
        return None
    gotd = {k: c for k, c in got}
    for k, v in raw:
        if k not in gotd:
            return "cell: %s output, table %s: field %s of a row has no column" % (fmt, table, k)
        e = exp_cell(fmt, k == "id", v)
        if e is not None and gotd[k] != e:
            return "cell: %s output, table %s field %s: value %r was written as %r, expected %r" % (fmt, table, k, v, gotd[k], e)
    empty = ["text", ""] if fmt == "csv" else ["null"]
    for k, c in got:
        if k not in rawd and c != empty:
            return "cell: %s output, table %s: column %s of a row that has no such field holds %r" % (fmt, table, k, c)
    return None


# ============================================================================ implementation runners
def _capture_stream():
    from snowfakery.output_streams import OutputStream

    class Capture(OutputStream):
        def __init__(self):
            self.rows = []

        def write_row(self, tablename, row_with_references):
            self.rows.append([tablename, [[k, spec_of(v)] for k, v in row_with_references.items()]])

        def write_single_row(self, *a):
            pass

        def close(self, **kw):
            return []

    return Capture()


def _names_hint(templates):
    hint = {}
    for t in registration_order(templates):
        if t["table"].startswith("__"):
            continue
        s = hint.setdefault(t["table"], {"id", "_sf_update_key"})
        s.update(n for n, _ in t["fields"])
    return {k: sorted(v) for k, v in hint.items()}


def _output_paths(d, outputs):
    files, dburls, spec = [], [], []
    csv_folder = None
    n = Counter()
    for o in outputs:
        n[o] += 1
        if o == "db":
            p = d / ("o%d.db" % n[o])
            dburls.append("sqlite:///%s" % p)
            spec.append(["db", str(p)])
        elif o == "csv":
            csv_folder = d / "csv"
            spec.append(["csv", str(csv_folder)])
        else:
            p = d / ("o%d.%s" % (n[o], o))
            files.append(str(p))
            spec.append([o, str(p)])
    # stream order used by _get_output_streams: dburls, then the csv folder, then files
    order = [s for s in spec if s[0] == "db"] + [s for s in spec if s[0] == "csv"] + [s for s in spec if s[0] not in ("db", "csv")]
    return files, dburls, csv_folder, order


def decode_any(fmt, path, hint):
    if fmt == "db":
        return decode_db(path)
    if fmt == "sql":
        return decode_sql(path)
    if fmt == "json":
        return decode_json(path)
    if fmt == "csv":
        return decode_csv(path)
    return decode_txt(path, hint)


def run_recipe_case(case):
    import yaml
    from snowfakery.api import generate_data, SnowfakeryApplication
    from snowfakery.data_generator import generate
    d = Path(tempfile.mkdtemp(prefix="sfv_c08_", dir="/var/tmp"))
    try:
        mod = "tvp_" + C.case_key({k: v for k, v in case.items() if not k.startswith("_")})
        (d / "plugins").mkdir()
        (d / "plugins" / (mod + ".py")).write_text(plugin_source(case["values"]), encoding="utf-8")
        rp = d / MAIN_FILE
        texts, _ = render_project(case, mod)
        for name, text in texts.items():
            (d / name).write_text(text, encoding="utf-8")

        class QuietApp(SnowfakeryApplication):
            def __init__(self):
                super().__init__()
                self.msgs = []

            def echo(self, message=None, file=None, nl=True, err=False, color=None):
                self.msgs.append([str(message)[:200], bool(err)])

        cap = _capture_stream()
        cont_kw = {}
        up = case.get("update")
        if up:
            with open(d / "input.csv", "w", newline="", encoding="utf-8") as f:
                w = csv.writer(f)
                w.writerow(up["cols"])
                w.writerows(up["rows"])
        try:
            if up:
                with open(rp, encoding="utf-8") as f, open(d / "input.csv", newline="", encoding="utf-8-sig") as inp:
                    generate(f, {}, cap, QuietApp(), update_input_file=inp, update_passthrough_fields=tuple(up["passthrough"]))
                cont_kw.update(update_input_file=str(d / "input.csv"), update_passthrough_fields=tuple(up["passthrough"]))
            elif case.get("continued"):
                # first run (into a capture stream) only produces the continuation file
                try:
                    with open(rp, encoding="utf-8") as f, open(d / "cont.yml", "w", encoding="utf-8") as cf:
                        generate(f, {}, _capture_stream(), QuietApp(), generate_continuation_file=cf)
                except BaseException as e:
                    if type(e).__name__ == "_CaseTimeout":
                        raise
                    return {"skip": "the run that writes the continuation file failed (%s): not this property" % C.canon_exc(e)}
                with open(rp, encoding="utf-8") as f, open(d / "cont.yml", encoding="utf-8") as cf:
                    generate(f, {}, cap, QuietApp(), continuation_file=cf)
                cont_kw["continuation_file"] = str(d / "cont.yml")
            else:
                with open(rp, encoding="utf-8") as f:
                    generate(f, {}, cap, QuietApp())
        except BaseException as e:
            if type(e).__name__ == "_CaseTimeout":
                raise
            if case.get("continued"):
                return {"skip": "the continued run fails in the interpreter (%s): not this property" % C.canon_exc(e)}
            return {"capture_err": C.canon_exc(e), "msg": str(e)[:300]}
        raw = cap.rows
        if case.get("parse_error"):
            return {"parse_accepted": True, "nrows": len(raw)}
        files, dburls, csv_folder, order = _output_paths(d, case["outputs"])
        app = QuietApp()
        kw = {}
        if csv_folder is not None:
            kw.update(output_format="csv", output_folder=str(csv_folder))
        obs = {"raw_counts": dict(Counter(t for t, _ in raw)), "nrows": len(raw)}
        if case.get("prelude_values"):
            # an earlier run of the same recipe in this process, with other plugin values, into other files
            try:
                pd = d / "earlier"
                (pd / "plugins").mkdir(parents=True)
                (pd / "plugins" / (mod + "e.py")).write_text(plugin_source(case["prelude_values"]), encoding="utf-8")
                for name, text in render_project(case, mod + "e")[0].items():
                    (pd / name).write_text(text, encoding="utf-8")
                pfiles, pdburls, pcsv, _ = _output_paths(pd, case["outputs"])
                pkw = dict(output_format="csv", output_folder=str(pcsv)) if pcsv is not None else {}
                generate_data(str(pd / MAIN_FILE), parent_application=QuietApp(), output_files=pfiles or None,
                              dburls=pdburls, **pkw)
            except BaseException as e:
                if type(e).__name__ == "_CaseTimeout":
                    raise
        try:
            generate_data(str(rp), parent_application=app, output_files=files or None, dburls=dburls, **kw, **cont_kw)
            obs["run"] = "ok"
        except BaseException as e:
            if type(e).__name__ == "_CaseTimeout":
                raise
            obs["run"] = "err"
            obs["run_err"] = C.canon_exc(e)
            obs["msg"] = str(e)[:300]
        obs["could_not_close"] = sum(1 for m, err in app.msgs if err and m.startswith("Could not close"))
        obs["outputs"] = digest_outputs(case, order, raw, _names_hint(case_templates(case)))
        if len(raw) <= 40:
            obs["raw"] = raw
        return obs
    finally:
        shutil.rmtree(d, ignore_errors=True)


def digest_outputs(case, order, raw, hint):
    schema = py_infer(case_templates(case))
    outs = []
    for fmt, path in order:
        try:
            dec = decode_any(fmt, path, hint)
        except Exception as e:   # an artefact no independent reader can parse
            outs.append({"fmt": fmt, "undecodable": "%s: %s" % (type(e).__name__, str(e)[:120]), "mismatches":
                         ["cell: the %s artefact cannot be parsed by an independent reader (%s)" % (fmt, type(e).__name__)],
                         "counts": {}, "closed": False, "samples": [], "cols": {}})
            continue
        msgs, found, samples = compare_output(fmt, dec, raw, schema)
        cols = {t: v["cols"] for t, v in dec["tables"].items()} if "tables" in dec else {}
        outs.append({"fmt": fmt, "mismatches": msgs[:6], "counts": found, "closed": bool(dec.get("closed", True)),
                     "samples": samples[:14], "cols": cols, "bytes": artefact_text(fmt, path)})
    return outs


def artefact_text(fmt, path):
    """the characters of a small artefact (per table for a CSV folder); None when it is large / unreadable"""
    try:
        if fmt == "db":
            return None
        if fmt == "csv":
            out = {}
            for p in sorted(Path(path).glob("*.csv")):
                if p.stat().st_size > 4 * BYTES_LIMIT:
                    return None
                out[p.stem] = _read(p)
            return out if sum(len(v) for v in out.values()) <= BYTES_LIMIT else None
        if not Path(path).exists() or Path(path).stat().st_size > 4 * BYTES_LIMIT:
            return None
        t = _read(path)
        return t if len(t) <= BYTES_LIMIT else None
    except Exception:
        return None


def build_tables(templates):
    """the tables a stream is created with, through the real parser: {name: TableInfo} of a recipe that has
    exactly these templates (one field list each, literal values)"""
    from snowfakery.parse_recipe_yaml import parse_recipe
    doc = []
    for t in registration_order(templates):
        d = {"object": t["table"]}
        if t.get("upd"):
            d["update_key"] = t["upd"]
        if t["fields"]:
            d["fields"] = {n: "x" for n, _ in t["fields"]}
        doc.append(d)
    return dict(parse_recipe(io.StringIO(_dump(doc))).tables)


def impl_value(v):
    if v[0] == "ref":
        from snowfakery.object_rows import ObjectReference
        return ObjectReference(v[1], v[2])
    return py_value(v)


class _Watcher:
    """second connection on the database a SqlDbOutputStream writes to"""

    def __init__(self, path, tables):
        self.con = sqlite3.connect(path)
        self.tables = tables

    def visible(self):
        n = 0
        for t in self.tables:
            n += self.con.execute('select count(*) from "%s"' % t).fetchone()[0]
        return n

    def close(self):
        self.con.close()


def _make_stream(fmt, path):
    from snowfakery import output_streams as OS
    if fmt == "db":
        return OS.SqlDbOutputStream.from_url("sqlite:///%s" % path)
    if fmt == "sql":
        return OS.SqlTextOutputStream(str(path))
    if fmt == "json":
        return OS.JSONOutputStream(str(path))
    if fmt == "txt":
        return OS.DebugOutputStream(str(path))
    if fmt == "csv":
        return OS.CSVOutputStream(str(path))
    raise ValueError(fmt)


def _inner_db(stream, fmt):
    """(SqlDbOutputStream that buffers, path of its sqlite file) or (None, None) when the internals moved"""
    try:
        db = stream if fmt == "db" else stream.sql_db
        path = db.engine.url.database
        if not hasattr(db, "buffered_rows") or not path:
            return None, None
        return db, path
    except Exception:
        return None, None


def _set_limits(stream, limits):
    if limits is None:
        return True
    if not (hasattr(type(stream), "flush_limit") and hasattr(type(stream), "commit_limit")):
        return False
    stream.flush_limit, stream.commit_limit = limits
    return True


def _changes(trace):
    out, prev = [], 0
    for i, v in enumerate(trace, 1):
        if v != prev:
            out.append([i, v])
            prev = v
    return out


def _direct_prelude(case, d):
    """an earlier session of the same process: the same kinds of streams (fresh objects, other files, tables of
    the same names) receive case["prelude"] and are closed.  Nothing of it is compared -- whatever it does, the
    session that follows must write its own values."""
    from snowfakery import output_streams as OS
    try:
        d.mkdir()
        tables = build_tables(case["templates"])
        streams, n = [], Counter()
        for o in case["outputs"]:
            n[o] += 1
            streams.append(_make_stream(o, d / ("csv%d" % n[o] if o == "csv" else "o%d.%s" % (n[o], o))))
        top = streams[0] if len(streams) == 1 else OS.MultiplexOutputStream(streams)
        top.create_or_validate_tables(tables)
        try:
            for t, row in case["prelude"]:
                top.write_row(t, {k: impl_value(v) for k, v in row})
        finally:
            top.close()
    except BaseException as e:
        if type(e).__name__ == "_CaseTimeout":
            raise


def run_direct_case(case):
    from snowfakery import output_streams as OS
    d = Path(tempfile.mkdtemp(prefix="sfv_c08_", dir="/var/tmp"))
    watchers = []
    try:
        try:
            tables = build_tables(case["templates"])
        except Exception as e:
            return {"skip": "TableInfo could not be built the way the harness does: %s" % type(e).__name__}
        if case.get("prelude"):
            _direct_prelude(case, d / "earlier")
        order, streams, n = [], [], Counter()
        for o in case["outputs"]:
            n[o] += 1
            p = d / ("csv%d" % n[o] if o == "csv" else "o%d.%s" % (n[o], o))
            order.append([o, str(p)])
            streams.append(_make_stream(o, p))
        limits_ok = all(_set_limits(s, case.get("limits")) for s in streams)
        if not limits_ok:
            return {"skip": "flush_limit / commit_limit are no longer class attributes"}
        top = streams[0] if len(streams) == 1 else OS.MultiplexOutputStream(streams)
        top.create_or_validate_tables(tables)
        traces = []
        for (fmt, _), s in zip(order, streams):
            if fmt in ("db", "sql"):
                db, path = _inner_db(s, fmt)
                if db is not None:
                    w = _Watcher(path, sorted(tables))
                    watchers.append(w)
                    traces.append([s, w, []])
                else:
                    traces.append([s, None, None])
        obs = {"nrows": len(case["rows"])}
        try:
            for t, row in case["rows"]:
                top.write_row(t, {k: impl_value(v) for k, v in row})
                for _, w, tr in traces:
                    if w is not None:
                        tr.append(w.visible())
            obs["write"] = "ok"
        except BaseException as e:
            if type(e).__name__ == "_CaseTimeout":
                raise
            obs["write"] = "err"
            obs["write_err"] = C.canon_exc(e)
        try:
            top.close()
            obs["close"] = "ok"
        except BaseException as e:
            if type(e).__name__ == "_CaseTimeout":
                raise
            obs["close"] = "err"
            obs["close_err"] = C.canon_exc(e)
            obs["msg"] = str(e)[:200]
        for w in watchers:
            w.close()
        watchers = []
        obs["traces"] = [(_changes(tr) if tr is not None else None) for _, _, tr in traces]
        obs["outputs"] = digest_outputs(case, order, case["rows"], _names_hint(case_templates(case)))
        # full database contents for the model comparison (small cases)
        full = []
        for fmt, path in order:
            if fmt in ("db", "sql"):
                try:
                    dec = decode_any(fmt, path, None)
                    written = {}
                    for t, r in case["rows"]:
                        written.setdefault(t, []).append(r)
                    full.append({t: in_write_order(v["rows"], written.get(t, [])) for t, v in dec["tables"].items()})
                except Exception:
                    full.append(None)
        obs["db_full"] = full
        return obs
    finally:
        for w in watchers:
            try:
                w.close()
            except Exception:
                pass
        shutil.rmtree(d, ignore_errors=True)


def synth_row(k, i):
    row = {"id": i // k + 1, "x": i}
    if i % 3 == 0:
        row["extra"] = 7
    if i % 2 == 0:
        row["y"] = "y"
    return "ABCD"[i % k], row


def run_buffer_case(case):
    d = Path(tempfile.mkdtemp(prefix="sfv_c08_", dir="/var/tmp"))
    w = None
    try:
        k, n = case["k"], case["n"]
        tabs = ["A", "B", "C", "D"][:k]
        try:
            tables = build_tables([{"table": t, "fields": [["x", None], ["y", None]], "friends": []} for t in tabs])
        except Exception as e:
            return {"skip": "TableInfo could not be built the way the harness does: %s" % type(e).__name__}
        fmt = "sql" if case["text"] else "db"
        path = d / ("o." + fmt)
        s = _make_stream(fmt, path)
        if not _set_limits(s, case["limits"]):
            return {"skip": "flush_limit / commit_limit are no longer class attributes"}
        s.create_or_validate_tables(tables)
        db, dbpath = _inner_db(s, fmt)
        obs = {}
        trace = None
        if db is not None:
            w = _Watcher(dbpath, tabs)
            trace = []
        try:
            for i in range(n):
                t, row = synth_row(k, i)
                s.write_row(t, row)
                if trace is not None:
                    trace.append(w.visible())
            obs["last_buffered"] = (sum(len(v) for v in db.buffered_rows.values()) if db is not None else None)
            if w is not None:
                w.close()
                w = None
            s.close()
            obs["run"] = "ok"
        except BaseException as e:
            if type(e).__name__ == "_CaseTimeout":
                raise
            return {"run": "err", "run_err": C.canon_exc(e), "msg": str(e)[:200]}
        obs["chg"] = _changes(trace) if trace is not None else None
        dec = decode_any(fmt, str(path), None)
        obs["final"] = {t: len(v["rows"]) for t, v in dec["tables"].items()}
        # property-level content check: x values per table, ids, NULL for a missing y, extra dropped
        bad = None
        for j, t in enumerate(tabs):
            exp = []
            for i in range(j, n, k):
                _, row = synth_row(k, i)
                exp.append([["id", ["num", row["id"]]], ["x", ["text", str(row["x"])]],
                            ["y", ["text", "y"] if "y" in row else ["null"]]])
            got = dec["tables"].get(t, {}).get("rows")
            if got != exp:
                bad = "rows-lost: table %s holds %s rows after close, %d were written (or their contents differ)" % (
                    t, "no" if got is None else len(got), len(exp))
                break
        obs["content"] = bad
        return obs
    finally:
        if w is not None:
            w.close()
        shutil.rmtree(d, ignore_errors=True)


def run_mux_case(case):
    from snowfakery import output_streams as OS

    class StubWriteError(Exception):
        pass

    class StubCloseError(Exception):
        pass

    class Stub(OS.OutputStream):
        def __init__(self, fail_at, fail_close):
            self.fail_at, self.fail_close = fail_at, fail_close
            self.ids, self.closed = [], False

        def write_single_row(self, tablename, row):
            if len(self.ids) + 1 == self.fail_at:
                raise StubWriteError()
            self.ids.append(row["id"])

        def close(self, **kw):
            if self.fail_close:
                raise StubCloseError()
            self.closed = True
            return []

    stubs = [Stub(a, b) for a, b in case["stubs"]]
    mux = OS.MultiplexOutputStream(stubs)
    obs = {}
    try:
        for i in range(case["n"]):
            mux.write_row("A", {"id": i + 1, "x": "v"})
        obs["write"] = "ok"
    except BaseException as e:
        if type(e).__name__ == "_CaseTimeout":
            raise
        obs["write"] = "err"
        obs["write_err"] = C.canon_exc(e)
        return obs
    try:
        mux.close()
        obs["clean"] = True
    except BaseException as e:
        if type(e).__name__ == "_CaseTimeout":
            raise
        obs["clean"] = False
        obs["close_err"] = C.canon_exc(e)
    obs["streams"] = [[s.ids, s.closed] for s in stubs]
    return obs


def run_impl(case):
    kind = case["kind"]
    if kind == "recipe":
        return run_recipe_case(case)
    if kind == "direct":
        return run_direct_case(case)
    if kind == "buffer":
        return run_buffer_case(case)
    if kind == "mux":
        return run_mux_case(case)
    raise ValueError(kind)


# ============================================================================ Coq terms
def ctext(s):
    return C.clist(str(ord(ch)) for ch in s)


def cvalue(v):
    k = v[0]
    if k == "none":
        return "VNull"
    if k == "bool":
        return f"(VBool {C.cbool(v[1])})"
    if k == "int":
        return f"(VInt {C.cz(v[1])})"
    if k == "str":
        return f"(VStr {ctext(v[1])})"
    if k == "date":
        return f"(VDate {v[1]} {v[2]} {v[3]})"
    if k == "dt":
        return "(VDateTime %s %s)" % (" ".join(str(x) for x in v[1:8]), C.copt(v[8], C.cz))
    if k == "dec":
        return f"(VDec {ctext(v[1])})"
    if k == "ref":
        return f"(VRef {C.cstr(v[1])} {C.cz(v[2])})"
    if k == "other":
        return "VOther"
    raise ValueError(k)


def ccell(c):
    k = c[0]
    if k == "null":
        return "CNull"
    if k == "bool":
        return f"(CBool {C.cbool(c[1])})"
    if k == "num":
        return f"(CNum {C.cz(c[1])})"
    if k == "text":
        return f"(CText {ctext(c[1])})"
    raise ValueError(k)


def comparable_value(v):
    return v[0] not in ("float",)


def comparable_cell(c):
    return c[0] in ("null", "bool", "num", "text")


def crow(row):
    return C.clist(C.cpair(C.cstr(k), cvalue(v)) for k, v in row)


def cfmt(f):
    return {"txt": "FTxt", "json": "FJson", "csv": "FCsv", "db": "FDb", "sql": "FSql"}[f]


def ctemplates(templates):
    out = []
    for t in registration_order(templates):
        out.append("(mkT %s %s %s)" % (C.cstr(t["table"]), C.clist(C.cstr(n) for n, _ in t["fields"]),
                                       C.cbool(bool(t.get("upd")))))
    return C.clist(out)


def ctinfo(ti):
    return "(mkTI %s %s)" % (C.clist(C.cstr(n) for n in ti["fields"]), C.cbool(ti["upd"]))


def cschema(cols):
    return C.clist(C.cpair(C.cstr(t), C.clist(C.cstr(c) for c in cs)) for t, cs in sorted(cols.items()))


# ---------------------------------------------------------------------------- recipe syntax for StreamParse
def cfval(v):
    if v and v[0] == "obj":
        return "(FVObj %s)" % ctpl(v[1])
    if v and v[0] == "fn":
        return "(FVArgs %s)" % cchain("VCons", "VNil", ["(FVObj %s)" % ctpl(t) for t in v[1]])
    return "FVSimple"


def cchain(cons, nil, items):
    out = nil
    for it in reversed(items):
        out = "(%s %s %s)" % (cons, it, out)
    return out


def cfields(fs):
    return cchain("FCons", "FNil", ["%s %s" % (C.cstr(n), cfval(v)) for n, v in fs])


def cstmts(sts):
    out = "SNil"
    for st in reversed(sts):
        if "var" in st:
            out = "(SVar %s %s)" % (cfval(st["value"]), out)
        else:
            out = "(SObj %s %s)" % (ctpl(st), out)
    return out


def ctpl(t):
    return "(Tpl %s %s %s %s %s)" % (C.cstr(t["table"]), C.cbool(bool(t.get("upd"))),
                                     C.clist(C.cstr(m) for m in t.get("include", [])),
                                     cfields(t["fields"]), cstmts(t.get("friends", [])))


def cmacro(m):
    return "(mkM %s %s %s %s)" % (C.cstr(m["name"]), C.clist(C.cstr(x) for x in m.get("include", [])),
                                  cfields(m.get("fields", [])), cstmts(m.get("friends", [])))


def crfile(f):
    return "(mkF %s %s %s)" % (C.clist(C.cstr(x) for x in f.get("includes", [])),
                               C.clist(cmacro(m) for m in f.get("macros", [])), cstmts(f.get("stmts", [])))


def cproject(case):
    files = C.clist(C.cpair(C.cstr(f["name"]), crfile(f)) for f in case.get("files", []))
    main = crfile({"includes": case.get("includes", []), "macros": case.get("macros", []), "stmts": main_statements(case)})
    return files + " " + main


def parse_term(case, outputs_obs):
    """the schema as the model's parser infers it from the recipe's syntax, against the columns of the artefacts"""
    csvs = [o["cols"] for o in outputs_obs if o["fmt"] == "csv" and o.get("cols") and not o.get("undecodable")
            and o.get("closed", True)]
    dbs = [o["cols"] for o in outputs_obs if o["fmt"] in ("db", "sql") and o.get("cols") and o.get("closed", True)]
    if not csvs and not dbs:
        return []
    c = csvs[0] if csvs else py_csv_cols(case)
    d = dbs[0] if dbs else py_db_cols(case)
    return [f"XParse {cproject(case)} {cschema(c)} {cschema(d)}"]


# ---------------------------------------------------------------------------- artefacts as bytes
def _cells(fmt, row, names=None):
    """[(key, expected cell)] of one raw row; None when a value is outside the compared types / refused"""
    out = []
    for k, v in row:
        e = exp_cell(fmt, k == "id", v)
        if e is None or e == ["reject"]:
            return None
        out.append((k, e))
    return out


def port_csv(ti, raws):
    hdr = columns_of(ti)
    f = io.StringIO(newline="")
    w = csv.writer(f)
    w.writerow(hdr)
    for r in raws:
        cs = _cells("csv", r)
        if cs is None:
            return None
        d = dict(cs)
        w.writerow([d[h][1] if h in d else "" for h in hdr])
    return f.getvalue()


def _json_py(c):
    return None if c[0] == "null" else c[1]


def port_json(rows):
    if not rows:
        return ""
    parts = []
    for t, r in rows:
        cs = _cells("json", r)
        if cs is None:
            return None
        parts.append(json.dumps({"_table": t, **{k: _json_py(c) for k, c in cs}}))
    return "[" + ",\n".join(parts) + "]\n"


def port_txt(rows):
    out = []
    for t, r in rows:
        cs = _cells("txt", r)
        if cs is None:
            return None
        out.append("%s(%s)\n" % (t, ", ".join("%s=%s" % (k, c[1]) for k, c in cs)))
    return "".join(out)


def _sql_lit(c):
    if c[0] == "null":
        return "NULL"
    if c[0] == "num":
        return str(c[1])
    return "'" + c[1].split("\x00")[0].replace("'", "''") + "'"


def port_sql_inserts(case, rows):
    """the INSERT statements of the script, as a sorted list; None when a value is outside the compared types"""
    phys = py_db_cols(case)
    out = []
    for t, r in rows:
        cs = _cells("sql", r)
        if cs is None or t not in phys:
            return None
        d = dict(cs)
        out.append('INSERT INTO "%s" VALUES(%s)' % (t, ",".join(_sql_lit(d[h]) if h in d else "NULL" for h in phys[t])))
    return sorted(out)


def split_sql(text):
    """statements of a script (port of StreamCodecs.sql_split); None when it does not end cleanly"""
    out, cur, mode = [], [], "p"
    for ch in text:
        if mode == "p":
            if ch == ";":
                out.append("".join(cur))
                cur = []
            elif ch == "'":
                mode = "s"
                cur.append(ch)
            elif ch == '"':
                mode = "d"
                cur.append(ch)
            elif ch in " \t\n\r" and not cur:
                pass
            else:
                cur.append(ch)
        else:
            cur.append(ch)
            if (mode == "s" and ch == "'") or (mode == "d" and ch == '"'):
                mode = "p"
    return out if mode == "p" and not cur else None


def byte_terms(case, outputs_obs, rows):
    """XCsv / XJson / XSql / XTxt terms for the small artefacts of a run that wrote `rows` (raw, in write order)"""
    terms = []
    stats = []
    if rows is None or len(rows) > 60:
        return terms, stats
    if not all(comparable_value(v) and v[0] != "other" for _, r in rows for _, v in r):
        return terms, stats
    schema = py_infer(case_templates(case))
    crows = C.clist(C.cpair(C.cstr(t), crow(r)) for t, r in rows)
    for o in outputs_obs:
        b = o.get("bytes")
        fmt = o["fmt"]
        if b is None or o.get("undecodable") or not o.get("closed", True) or o.get("mismatches"):
            continue
        if fmt == "csv":
            for t in sorted(schema):
                if t not in b:
                    continue
                raws = [r for tt, r in rows if tt == t]
                port = port_csv(schema[t], raws)
                if port is None:
                    continue
                exact = port == b[t]
                stats.append(("csv", exact))
                terms.append(f"XCsv {ctinfo(schema[t])} {C.clist(crow(r) for r in raws)} {ctext(b[t])} {C.cbool(exact)}")
        elif fmt == "json":
            port = port_json(rows)
            if port is None:
                continue
            exact = port == b
            stats.append(("json", exact))
            terms.append(f"XJson {crows} {ctext(b)} {C.cbool(exact)}")
        elif fmt == "txt":
            port = port_txt(rows)
            if port is None or port != b:
                if port is not None:
                    stats.append(("txt", False))
                continue
            stats.append(("txt", True))
            terms.append(f"XTxt {crows} {ctext(b)}")
        elif fmt == "sql":
            port = port_sql_inserts(case, rows)
            stmts = split_sql(b)
            if port is None or not o.get("cols") or any(t not in o["cols"] for t, _ in rows):
                continue
            exact = stmts is not None and sorted(x for x in stmts if x.startswith('INSERT INTO "')) == port
            stats.append(("sql", exact))
            tis = C.clist(C.cpair(C.cstr(t), ctinfo(schema[t])) for t in sorted(schema))
            terms.append(f"XSql {tis} {cschema(o['cols'])} {crows} {ctext(b)} {C.cbool(exact)}")
    return terms, stats


def row_terms(case, outputs_obs, limit):
    """CRow terms for the sampled rows of every output"""
    schema = py_infer(case_templates(case))
    terms, seen = [], set()
    for o in outputs_obs:
        fmt = o["fmt"]
        if fmt == "csv" and not o.get("closed", True):
            continue
        for t, raw, got in o.get("samples", []):
            if len(terms) >= limit:
                return terms
            if t not in schema:
                continue
            if not all(comparable_value(v) for _, v in raw) or not all(comparable_cell(c) for _, c in got):
                continue
            if any(v[0] == "other" for _, v in raw):
                continue
            key = (fmt, t, json.dumps(raw, sort_keys=True, default=str))
            if key in seen:
                continue
            seen.add(key)
            exp = "(Ok %s)" % C.clist(C.cpair(C.cstr(k), ccell(c)) for k, c in got)
            terms.append(f"CRow {cfmt(fmt)} {ctinfo(schema[t])} {crow(raw)} {exp}")
    return terms


def schema_term(case, outputs_obs):
    csvs = [o["cols"] for o in outputs_obs if o["fmt"] == "csv" and o.get("cols") and not o.get("undecodable")
            and o.get("closed", True)]      # files of a stream that was never closed may be incomplete
    dbs = [o["cols"] for o in outputs_obs if o["fmt"] in ("db", "sql") and o.get("cols") and o.get("closed", True)]
    terms = []
    tp = ctemplates(case_templates(case))
    for c in csvs[:1]:
        for d in (dbs[:1] or [None]):
            if d is None:
                terms.append(f"CSchema {tp} {cschema(c)} {cschema(py_db_cols(case))}")
            else:
                terms.append(f"CSchema {tp} {cschema(c)} {cschema(d)}")
    if not csvs:
        for d in dbs[:1]:
            terms.append(f"CSchema {tp} {cschema(py_csv_cols(case))} {cschema(d)}")
    return terms


def py_csv_cols(case):
    return {t: columns_of(ti) for t, ti in py_infer(case_templates(case)).items()}


def py_db_cols(case):
    return {t: ["id"] + ti["fields"] + (["_sf_update_key"] if ti["upd"] else []) for t, ti in py_infer(case_templates(case)).items()}


def summary_term(o):
    if o["fmt"] in ("db", "sql"):
        cnt = C.clist(C.cpair(C.cstr(t), C.cz(n)) for t, n in sorted(o["counts"].items()))
        return f"SumDb {C.cbool(o['closed'])} {cnt}"
    if o["fmt"] == "csv" and not o["closed"]:
        return "SumFile false (-1)"     # files never closed: what reached the disk is not determined
    return "SumFile %s %s" % (C.cbool(o["closed"]), C.cz(sum(o["counts"].values())))


PYEQ_KINDS = ("dt", "bool", "int", "date", "none")


def pyeq_terms(case):
    """XPyEq terms: CPython's == on pairs of the case's values, for the model's py_eq (the fragment it models:
    no Decimals, whose numeric equality the model does not have)"""
    if not case.get("twins"):
        return []
    if case["kind"] == "direct":
        vals = [v for _, r in case["rows"] + case.get("prelude", []) for k, v in r if k != "id"]
    else:
        vals = list(case.get("values", [])) + list(case.get("prelude_values") or [])
    pool = []
    for v in vals:
        if v[0] in PYEQ_KINDS and v not in pool:
            pool.append(v)
    pool = pool[:7]
    terms = []
    for i, a in enumerate(pool):
        for b in pool[i:]:
            try:
                e = bool(py_value(a) == py_value(b))
            except Exception:
                continue
            terms.append(f"XPyEq {cvalue(a)} {cvalue(b)} {C.cbool(e)}")
            if a is not b:
                terms.append(f"XPyEq {cvalue(b)} {cvalue(a)} {C.cbool(e)}")
    return terms


def coq_case(case, obs):
    base, extra = coq_terms(case, obs)
    if not (isinstance(obs, dict) and obs.get("skip")):
        extra = list(extra) + pyeq_terms(case)
    if base is None and not extra:
        return None
    parts = (["(XBase (%s))" % base] if base is not None else []) + ["(%s)" % t for t in extra]
    return "XAll " + C.clist(parts)


def written_rows(case, obs):
    """the raw rows a finished run wrote, when they are known in full"""
    if case["kind"] == "direct":
        return case["rows"]
    if case["kind"] == "recipe":
        return obs.get("raw")
    return None


def coq_terms(case, obs):
    """(term of Streams.case or None, [terms of StreamCases.xcase])"""
    kind = case["kind"]
    if obs.get("skip"):
        return None, []
    if kind == "mux":
        stubs = C.clist(C.cpair(C.cz(a), C.cbool(b)) for a, b in case["stubs"])
        rows = C.clist(C.cpair('"A"', crow([["id", ["int", i + 1]], ["x", ["str", "v"]]])) for i in range(case["n"]))
        if obs["write"] == "err":
            exp = f"(Err {C.cerr(obs['write_err'])})"
        else:
            exp = "(Ok (%s, %s))" % (C.clist(C.cpair(C.clist(C.cz(i) for i in ids), C.cbool(cl)) for ids, cl in obs["streams"]),
                                     C.cbool(obs["clean"]))
        return f"CMux {stubs} {rows} {exp}", []
    if kind == "buffer":
        if obs.get("run") != "ok" or obs.get("chg") is None or obs.get("last_buffered") is None:
            return None, []
        fl, cl = case["limits"] or [1000, 10000]
        chg = C.clist(C.cpair(C.cz(i), C.cz(v)) for i, v in obs["chg"])
        fin = C.clist(C.cpair(C.cstr(t), C.cz(n)) for t, n in sorted(obs["final"].items()))
        return (f"CBuffer {C.cbool(case['text'])} {fl} {cl} {case['k']} {case['n']} {chg} "
                f"{C.cz(obs['last_buffered'])} {fin}"), []
    if kind == "direct":
        terms = []
        k9 = any(is_k9_value(v) for _, r in case["rows"] for _, v in r)
        if k9:
            if obs.get("close") == "err" and len(case["rows"]) == 1:
                v = next(v for _, v in case["rows"][0][1] if is_k9_value(v))
                return f"CEncode {cfmt(case['outputs'][0])} false {cvalue(v)} (Err {C.cerr(obs['close_err'])})", []
            return None, []
        if obs.get("write") != "ok" or obs.get("close") != "ok":
            return None, []
        terms.extend(schema_term(case, obs["outputs"]))
        terms.extend(row_terms(case, obs["outputs"], 30))
        # buffer machine with explicit rows: the first database-like output
        sqlish = [o for o in case["outputs"] if o in ("db", "sql")]
        rows_ok = all(comparable_value(v) and v[0] != "other" for _, r in case["rows"] for _, v in r)
        if sqlish and obs.get("traces") and obs["traces"][0] is not None and obs.get("db_full") and obs["db_full"][0] is not None and rows_ok:
            full = obs["db_full"][0]
            if all(comparable_cell(c) for rs in full.values() for r in rs for _, c in r):
                fl, cl = case.get("limits") or [1000, 10000]
                schema = py_infer(case["templates"])
                ti = C.clist(C.cpair(C.cstr(t), ctinfo(schema[t])) for t in sorted(schema))
                rows = C.clist(C.cpair(C.cstr(t), crow(r)) for t, r in case["rows"])
                chg = C.clist(C.cpair(C.cz(i), C.cz(v)) for i, v in obs["traces"][0])
                fin = C.clist(C.cpair(C.cstr(t), C.clist(C.clist(C.cpair(C.cstr(k), ccell(c)) for k, c in r) for r in rs))
                              for t, rs in sorted(full.items()))
                terms.append(f"CBufferRows {C.cbool(sqlish[0] == 'sql')} {fl} {cl} {ti} {rows} {chg} {fin}")
        extra, _ = byte_terms(case, obs["outputs"], case["rows"])
        return ("CAll " + C.clist("(%s)" % t for t in terms)) if terms else None, extra
    if kind == "recipe":
        if case.get("parse_error"):
            if obs.get("capture_err") == "DGE":
                return None, [f"XParseErr {cproject(case)}"]
            if obs.get("parse_accepted"):
                return None, [f"XParse {cproject(case)} [] []"]      # the model refuses this recipe: reported as a disagreement
            return None, []
        if "capture_err" in obs:
            return None, []
        terms, extra = [], []
        if obs["run"] == "ok":
            extra.extend(parse_term(case, obs["outputs"]))
            terms.extend(row_terms(case, obs["outputs"], 24))
        raw = obs.get("raw")
        if raw is not None and all(comparable_value(v) for _, r in raw for _, v in r):
            outs = C.clist(cfmt(o["fmt"]) for o in obs["outputs"])
            rows = C.clist(C.cpair(C.cstr(t), crow(r)) for t, r in raw)
            if obs["run"] == "ok":
                exp = "(Some (%s, %s))" % (C.clist("(%s)" % summary_term(o) for o in obs["outputs"]),
                                           C.cbool(obs["could_not_close"] == 0))
            else:
                exp = "None"
            # a run that raised on a str no text file can hold (lone surrogate) promised nothing: which writer
            # refuses it first (json.dumps escapes it today) is not part of the property
            if not (obs["run"] != "ok" and any(is_k9_value(v) for _, r in raw for _, v in r)):
                terms.append(f"CApp {ctemplates(case_templates(case))} {outs} {rows} {exp}")
        if obs["run"] == "ok" and not obs.get("could_not_close"):
            extra.extend(byte_terms(case, obs["outputs"], raw)[0])
        return ("CAll " + C.clist("(%s)" % t for t in terms)) if terms else None, extra
    return None, []


# ============================================================================ property oracle
def case_has_k9(case, obs):
    """a value SQLite refuses reaches a database-like output"""
    if not any(o in ("db", "sql") for o in case.get("outputs", [])):
        return False
    if case["kind"] == "direct":
        return any(is_k9_value(v) for _, r in case["rows"] for _, v in r)
    if case["kind"] == "recipe":
        if obs.get("raw") is not None:
            return any(is_k9_value(v) for _, r in obs["raw"] for _, v in r)
        return any(is_k9_value(v) for v in case["values"])
    return False


def oracle(case, obs):
    kind = case["kind"]
    if obs.get("skip"):
        return None
    if kind == "mux":
        if any(a or b for a, b in case["stubs"]):
            return None   # failing doubles: behaviour compared with the model only
        if obs.get("write") != "ok" or not obs.get("clean"):
            return "mux: multiplexer over well-behaved streams raised %s" % (obs.get("write_err") or obs.get("close_err"))
        want = list(range(1, case["n"] + 1))
        for j, (ids, closed) in enumerate(obs["streams"]):
            if ids != want:
                return "mux: stream %d of %d received rows %s, the multiplexer was given %s" % (j, len(obs["streams"]), ids[:12], want[:12])
            if not closed:
                return "mux: stream %d of %d was never closed" % (j, len(obs["streams"]))
        return None
    if kind == "buffer":
        if obs.get("run") != "ok":
            return "run-failed: driving the stream with %d plain rows raised %s: %s" % (case["n"], obs.get("run_err"), obs.get("msg", ""))
        return obs.get("content")
    if kind == "direct":
        if case_has_k9(case, obs):
            return None   # the caller sees the exception raised by close(): not a silent loss
        if obs.get("write") != "ok":
            return "run-failed: write_row raised %s on values every format must accept" % obs.get("write_err")
        if obs.get("close") != "ok":
            return "run-failed: close() raised %s: %s" % (obs.get("close_err"), obs.get("msg", ""))
        for o in obs["outputs"]:
            if o["mismatches"]:
                return o["mismatches"][0]
        return None
    if kind == "recipe":
        if obs.get("parse_accepted"):
            return None       # what the parser accepts is compared with the model only
        if "capture_err" in obs:
            if obs["capture_err"] != "DGE":
                return "run-failed: the interpreter failed with %s: %s" % (obs["capture_err"], obs.get("msg", "")[:100])
            return None
        if obs["run"] != "ok":
            if case_has_k9(case, obs):
                return None   # the run reports failure: nothing was promised
            return "run-failed: the recipe runs into a capturing stream but fails with %s when written to %s: %s" % (
                obs.get("run_err"), case["outputs"], obs.get("msg", "")[:120])
        # the run reports success: nothing may be lost
        for o in obs["outputs"]:
            if o["mismatches"]:
                return o["mismatches"][0] + (" [the run reported success; 'Could not close' was echoed %d time(s)]" % obs["could_not_close"]
                                             if obs["could_not_close"] else "")
        if obs["could_not_close"]:
            return "unclosed: 'Could not close' was echoed although every artefact is complete"
        return None
    return None


def match_finding(case, obs, msg, findings):
    if msg == "model-disagreement":
        return None
    ids = {f["id"] for f in findings}
    if "K9" in ids and case.get("kind") == "recipe" and isinstance(obs, dict) and obs.get("run") == "ok" \
            and obs.get("could_not_close", 0) > 0 and case_has_k9(case, obs) \
            and msg.split(":")[0] in ("rows-lost", "unclosed"):
        return "K9"
    if "C08-sql-script-nul" in ids and case.get("kind") in ("recipe", "direct") and isinstance(obs, dict) and case_has_k10(case, obs) \
            and msg.startswith("cell: sql output") and "\\x00" in msg:
        return "C08-sql-script-nul"
    return None


def case_has_k10(case, obs):
    """a text with a NUL character reaches a SQL script"""
    if "sql" not in case.get("outputs", []):
        return False
    rows = written_rows(case, obs)
    if rows is None:
        return any(is_k10_value(v) for v in case.get("values", []))
    return any(is_k10_value(v) for _, r in rows for _, v in r)


def nontrivial(case, obs):
    if not isinstance(obs, dict) or obs.get("skip"):
        return False
    k = case["kind"]
    if k == "mux":
        return case["n"] > 0
    if k == "buffer":
        return case["n"] > 0 and obs.get("run") == "ok"
    return obs.get("nrows", 0) > 0 and "outputs" in obs


def stats(cases, obss):
    kinds = Counter(c["kind"] for c in cases)
    outs = Counter("+".join(c["outputs"]) for c in cases if "outputs" in c)
    fmts = Counter(o for c in cases for o in set(c.get("outputs", [])))
    vals = Counter()
    for c in cases:
        if c["kind"] == "recipe":
            vals.update(v[0] for v in c["values"])
        elif c["kind"] == "direct":
            vals.update(v[0] for _, r in c["rows"] for _, v in r)
    sizes = Counter()
    outcomes = Counter()
    for c, o in zip(cases, obss):
        if not isinstance(o, dict):
            continue
        n = o.get("nrows", c.get("n", 0)) or 0
        sizes["0" if n == 0 else "1-9" if n < 10 else "10-998" if n < 999 else "999-1001" if n <= 1001 else
              "1002-9998" if n < 9999 else "9999-10001" if n <= 10001 else ">10001"] += 1
        if o.get("skip"):
            outcomes["skipped"] += 1
        elif c["kind"] == "recipe":
            outcomes["recipe:" + (o.get("capture_err") and "capture-" + o["capture_err"] or
                                  (o.get("run") == "ok" and ("ok" if not o.get("could_not_close") else "ok+could-not-close")
                                   or "err-" + str(o.get("run_err"))))] += 1
        elif c["kind"] == "direct":
            outcomes["direct:" + ("ok" if o.get("close") == "ok" and o.get("write") == "ok" else
                                  "err-" + str(o.get("write_err") or o.get("close_err")))] += 1
        elif c["kind"] == "mux":
            outcomes["mux:" + ("write-err" if o.get("write") == "err" else "clean" if o.get("clean") else "close-err")] += 1
        else:
            outcomes["buffer:" + str(o.get("run"))] += 1
    feats = Counter()

    def syntax(sts, acc):
        for st in sts:
            vals = [st["value"]] if "var" in st else [v for _, v in st["fields"]]
            if "var" in st:
                acc["var_holding_template"] += 1
            else:
                if st.get("friends"):
                    acc["friends"] += 1
                    syntax(st["friends"], acc)
                if st.get("include"):
                    acc["include_macro"] += 1
            for v in vals:
                if v and v[0] == "obj":
                    acc["nested_template"] += 1
                    syntax([v[1]], acc)
                elif v and v[0] == "fn":
                    acc["template_in_function_args" + ("_flow_style" if len(v) > 2 and v[2] else "")] += 1
                    syntax(v[1], acc)

    for c in cases:
        if c["kind"] in ("recipe", "direct"):
            try:
                ts = case_templates(c) if c["kind"] == "recipe" else registration_order(c["templates"])
            except ParseErr:
                feats["parser_must_refuse"] += 1
                continue
            tabs = Counter(t["table"] for t in ts)
            feats["tables=%d" % len([t for t in tabs if not t.startswith("__")])] += 1
            if any(n > 1 for n in tabs.values()):
                feats["several_templates_per_table"] += 1
            fsets = {}
            for t in ts:
                fsets.setdefault(t["table"], set()).add(tuple(sorted(n for n, _ in t["fields"])))
            if any(len(v) > 1 for v in fsets.values()):
                feats["templates_of_a_table_with_different_field_sets"] += 1
            if any(t.get("upd") for t in ts):
                feats["update_key"] += 1
            if any(t["table"].startswith("__") for t in ts):
                feats["hidden_table"] += 1
            if any(n.startswith("__") for t in ts for n, _ in t["fields"]):
                feats["hidden_field"] += 1
            if c.get("limits"):
                feats["overridden_limits"] += 1
            if c.get("update"):
                feats["update_recipe"] += 1
                if c["update"].get("passthrough"):
                    feats["update_recipe_with_passthrough_columns"] += 1
            acc = Counter()
            syntax(c["templates"], acc)
            for f in c.get("files", []):
                syntax(f.get("stmts", []), acc)
            allm = list(c.get("macros", [])) + [m for f in c.get("files", []) for m in f.get("macros", [])]
            for m in allm:
                syntax([{"fields": m.get("fields", []), "friends": m.get("friends", [])}], acc)
            for k in acc:
                feats[k] += 1
            if c.get("files"):
                feats["include_files=%d" % len(c["files"])] += 1
            if any(f.get("includes") for f in c.get("files", [])):
                feats["include_file_includes_file"] += 1
            if allm:
                feats["macros"] += 1
            if any(m.get("include") for m in allm):
                feats["macro_includes_macro"] += 1
            if any(m.get("friends") for m in allm):
                feats["macro_with_friends"] += 1
            if any(f.get("macros") for f in c.get("files", [])):
                feats["macro_defined_in_include_file"] += 1
            if c["kind"] == "recipe" and c.get("files") and same_line_templates(c):
                feats["same_table_same_line_in_two_files"] += 1
    twins = Counter()
    for c in cases:
        tw = c.get("twins")
        if not tw:
            continue
        twins["cases:" + c["kind"]] += 1
        twins["where:" + tw["where"]] += 1
        for k in set(tw["kinds"]):
            twins["family:" + k] += 1
        for sp in tw.get("spread", []):
            twins["spread:" + sp] += 1
        for o in set(c.get("outputs", [])):
            twins["format:" + o] += 1
        if len(c.get("outputs", [])) > 1:
            twins["several_outputs_at_once"] += 1
        twins["twin_cells"] += tw.get("cells", 0)
    exact = Counter()
    for c, o in zip(cases, obss):
        if not isinstance(o, dict) or "outputs" not in o or c["kind"] not in ("recipe", "direct"):
            continue
        try:
            if c["kind"] == "recipe" and (o.get("run") != "ok" or o.get("could_not_close")):
                continue
            if c["kind"] == "direct" and (o.get("write") != "ok" or o.get("close") != "ok"):
                continue
            for fmt, ex in byte_terms(c, o["outputs"], written_rows(c, o))[1]:
                exact["%s:%s" % (fmt, "byte-exact" if ex else "decoded-only")] += 1
        except Exception:
            exact["error"] += 1
    return {"kinds": dict(kinds), "output_sets": dict(outs), "formats": dict(fmts), "value_types": dict(vals),
            "row_counts": dict(sizes), "outcomes": dict(outcomes), "features": dict(feats),
            "equal_but_differently_written_values": dict(twins), "artefacts_compared_as_bytes": dict(exact)}


def violation_class(case, obs, msg):
    return msg.split(":")[0] + "/" + case["kind"]


def shrink(case):
    k = case["kind"]
    if k == "direct":
        rows = case["rows"]
        for i in range(len(rows)):
            yield dict(case, rows=rows[:i] + rows[i + 1:])
        for i, (t, r) in enumerate(rows):
            for j in range(len(r)):
                if r[j][0] != "id":
                    yield dict(case, rows=rows[:i] + [[t, r[:j] + r[j + 1:]]] + rows[i + 1:])
        if len(case["outputs"]) > 1:
            for i in range(len(case["outputs"])):
                yield dict(case, outputs=case["outputs"][:i] + case["outputs"][i + 1:])
    elif k == "recipe":
        # whole include files, macros
        files = case.get("files", [])
        for i, f in enumerate(files):
            rest = files[:i] + files[i + 1:]
            drop = lambda names: [n for n in names if n != f["name"]]
            yield dict(case, files=[dict(g, includes=drop(g.get("includes", []))) for g in rest],
                       includes=drop(case.get("includes", [])))
        for where in [None] + list(range(len(files))):
            ms = case.get("macros", []) if where is None else files[where].get("macros", [])
            for j in range(len(ms)):
                ms2 = ms[:j] + ms[j + 1:]
                if where is None:
                    yield dict(case, macros=ms2)
                else:
                    yield dict(case, files=files[:where] + [dict(files[where], macros=ms2)] + files[where + 1:])

        def stmt_variants(sts, allow_empty):
            for i in range(len(sts)):
                if len(sts) > 1 or allow_empty:
                    yield sts[:i] + sts[i + 1:]
            for i, t in enumerate(sts):
                if "var" in t:
                    continue
                put = lambda t2: sts[:i] + [t2] + sts[i + 1:]
                if t.get("friends"):
                    yield put(dict(t, friends=[]))
                if t.get("include"):
                    yield put(dict(t, include=[]))
                for j in range(len(t["fields"])):
                    if t.get("upd") == t["fields"][j][0]:
                        continue
                    yield put(dict(t, fields=t["fields"][:j] + t["fields"][j + 1:]))
                    v = t["fields"][j][1]
                    if v and v[0] in ("obj", "fn"):
                        yield put(dict(t, fields=t["fields"][:j] + [[t["fields"][j][0], ["lit", "abc"]]] + t["fields"][j + 1:]))
                if t.get("count") and t["count"] > 1:
                    for c2 in (1, t["count"] // 2, t["count"] - 1):
                        if 0 < c2 < t["count"]:
                            yield put(dict(t, count=c2))

        for v in stmt_variants(case["templates"], bool(files)):
            yield dict(case, templates=v)
        for i, f in enumerate(files):
            for v in stmt_variants(f.get("stmts", []), True):
                yield dict(case, files=files[:i] + [dict(f, stmts=v)] + files[i + 1:])
        if len(case["outputs"]) > 1:
            for i in range(len(case["outputs"])):
                o2 = case["outputs"][:i] + case["outputs"][i + 1:]
                if o2 != ["csv"] or True:
                    yield dict(case, outputs=o2)
    elif k == "buffer":
        if case["n"] > 0:
            yield dict(case, n=case["n"] // 2)
            yield dict(case, n=case["n"] - 1)
        if case["k"] > 1:
            yield dict(case, k=case["k"] - 1)
    elif k == "mux":
        if case["n"] > 0:
            yield dict(case, n=case["n"] - 1)
        for i in range(len(case["stubs"])):
            if len(case["stubs"]) > 1:
                yield dict(case, stubs=case["stubs"][:i] + case["stubs"][i + 1:])


def directed_search(rng, disagreeing):
    out = []
    for _ in range(500):
        out.append(gen_direct_case(rng))
    for outs in OUTPUT_SETS:
        out.append(gen_recipe_case(rng, outputs=list(outs)))
    for n in (999, 1000, 1001):
        for outs in (["db"], ["sql"], ["csv", "db"]):
            out.append(gen_recipe_case(rng, big_count=n, outputs=list(outs)))
    for text in (False, True):
        for n in (1, 999, 1000, 1001, 2001):
            out.append({"kind": "buffer", "text": text, "limits": None, "k": 2, "n": n})
    for _ in range(60):
        out.append({"kind": "mux", "stubs": [[0, False]] * rng.randint(1, 5), "n": rng.randint(0, 6)})
    return out
