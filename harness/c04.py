"""C04 — stop-and-continue is invisible: split runs equal one uninterrupted run.
Model: coq/theories/Interp.v (save / load / run_history); theorems: coq/props/C04.v."""
import os
from collections import Counter

from . import common as C
from . import sfcore as S

PROP = "C04"
MODEL = "Interp"
SHARD = 120
SKIPPED_FN = "case_unsupported"
CASE_TIMEOUT = 60
RULE = ("SF-core recipes (just_once rows, nicknames, references, formulas over just_once rows) run as one "
        "uninterrupted run of k iterations and as every/random composition k = k1+..+km chained through real "
        "continuation files; oracle: concatenated rows equal, no continued run fails when the uninterrupted run "
        "completes; the per-run row lists are compared with the model's run_history.  non-trivial: m >= 2 runs and "
        "the recipe has a just_once template or a nickname; distinct by (recipe, composition) hash")
TRUSTED = ["harness/sfcore.py printers / capture stream; continuation files passed as text between runs"]
ASSUMPTIONS = ["PyYAML round-trips the continuation text (sampled here, see C05)",
               "premise of the property: cross-iteration state is only what is documented as persistent — the "
               "generator never reads a top-level variable before it is assigned in the iteration"]
W = dict(once=0.45, nick=0.5, ref=0.25, formula=0.4, nested=0.08, friend=0.3, fwd=0.2, randref=0.12)


def compositions(k, rng, limit=6):
    """compositions of k into >= 2 positive parts (all of them for small k)"""
    out = []

    def rec(rem, acc):
        if rem == 0:
            if len(acc) >= 2:
                out.append(list(acc))
            return
        for first in range(1, rem + 1):
            rec(rem - first, acc + [first])
    rec(k, [])
    if len(out) > limit:
        out = rng.sample(out, limit)
    return out


def row_valued_in_once(recipe):
    """static signature of K1/K2: a just_once template with a field that can hold a row / reference"""
    names = set()
    for t in S.walk_templates(recipe):
        names.add(t["table"])
        if t.get("nick"):
            names.add(t["nick"])

    # variables that may hold a row / reference (assigned anywhere in the recipe)
    rowish_vars = set()

    def all_stmts(stmts):
        for st in stmts:
            yield st
            if st[0] == "obj":
                yield from all_stmts(st[1]["friends"])
                for _, d in st[1]["fields"]:
                    if d[0] == "nested":
                        yield from all_stmts([["obj", d[1]]])

    for _ in range(3):
        for st in all_stmts(recipe["stmts"]):
            if st[0] == "var":
                d = st[2]
                if d[0] in ("ref", "nested") or (d[0] == "formula" and len(d[1]) == 1 and d[1][0][0] == "e"
                                                 and (d[1][0][1][0] == "var" and (d[1][0][1][1] in names or d[1][0][1][1] in rowish_vars or d[1][0][1][1] == "this")
                                                      or d[1][0][1][0] == "attr" and d[1][0][1][2] != "id")):
                    rowish_vars.add(st[1])

    def expr_rowish(e):
        if e[0] == "var":
            return e[1] in names or e[1] == "this" or e[1] in rowish_vars
        if e[0] == "attr":
            return e[2] != "id"
        if e[0] in ("add", "sub", "mul"):
            return False
        return False

    for s in recipe["stmts"]:
        if s[0] == "obj" and s[1].get("once"):
            for t in S.walk_templates({"stmts": [s]}):
                pass
            for _, d in s[1]["fields"]:
                if d[0] in ("ref", "nested", "randref"):
                    return True
                if d[0] == "formula" and len(d[1]) == 1 and d[1][0][0] == "e" and expr_rowish(d[1][0][1]):
                    return True
    return False


once_cluster = S.stream_once_cluster
DIRECTED = [S.stream_once_cluster, S.stream_once_cluster, S.stream_once_hidden, S.stream_idle_middle, S.stream_idle_middle,
            S.stream_randref_nicks, S.stream_once_cluster_randref, S.stream_once_same_table_nick_order,
            S.stream_history_rows_hold_once_refs, S.stream_history_rows_hold_once_refs,
            S.stream_once_same_table_nick_order, S.stream_randref_hidden_child, S.stream_once_nick_like_once_table, S.stream_once_after_lookup, S.stream_once_idle_first, S.stream_constant_vars, S.stream_constant_vars]


def generate(rng, tier):
    n = 240 if tier == "quick" else 3000
    cases = []
    for _ in range(n // 3):
        r, feats = rng.choice(DIRECTED)(rng)
        k = rng.randint(2, 4)
        lim = 3 if tier == "quick" else 6
        if "idle_table" in feats:       # needs >= 3 runs with a dry one in the middle
            k, lim = rng.choice([3, 4]), 8
        for ks in compositions(k, rng, limit=lim):
            cases.append({"recipe": r, "ks": ks, "features": feats})
    while len(cases) < n * 3 and n > 0:
        r, feats = S.gen_recipe(rng, W)
        finding_stream = rng.random() < 0.08
        if row_valued_in_once(r) and not finding_stream:
            continue
        k = rng.randint(2, 4 if tier == "quick" else 5)
        for ks in compositions(k, rng, limit=3 if tier == "quick" else 8):
            cases.append({"recipe": r, "ks": ks, "features": feats})
        if len(cases) >= n * 3:
            break
    # other ROUTES for the same history (no rng consumed: the older cases stay what they were): every 5th
    # case without random functions / include files / hand-written text is also run through the command
    # line with ONE state file carried along the chain, and through generate_data with real files where
    # every continued link is run TWICE from the same unchanged file
    j = 0
    for c in cases:
        if S.uses_random(c["recipe"]) or c["recipe"].get("raw_yaml") or len(c["ks"]) < 2 or c["recipe"].get("supplied"):
            continue        # (option values given by the user arrive as text on the command line: another question)
        j += 1
        if j % 5 == 0:
            c["route"] = ROUTES[(j // 5) % len(ROUTES)]
    return cases


ROUTES = ["cli_one_state_file", "paths_each_link_twice", "cli_two_state_files"]


def _ids_of_json(text):
    import json
    return [[r.get("_table"), r.get("id")] for r in json.loads(text or "[]")]


def run_route(recipe, ks, route):
    """the chain `ks` once more, on another route -> [{"ok": [[table, id], ..]} | {"err": .., "msg": ..}] per run
    (for `paths_each_link_twice`: {"ok": .., "again": ..} - the same link run a second time from the same file)"""
    import shutil
    import tempfile
    main, inc = S.recipe_docs(recipe)
    if inc is not None:
        return None
    d = tempfile.mkdtemp(prefix="sfv_c04r_", dir="/var/tmp")
    out = []
    try:
        rp = os.path.join(d, "recipe.yml")
        with open(rp, "w") as f:
            f.write(S.recipe_yaml(recipe))
        state = [os.path.join(d, "state.yml"), os.path.join(d, "state_b.yml")]
        for i, k in enumerate(ks):
            last = i == len(ks) - 1
            src = state[0] if route != "cli_two_state_files" else state[(i + 1) % 2]
            dst = state[0] if route != "cli_two_state_files" else state[i % 2]

            def one(tag):
                of = os.path.join(d, f"out_{i}_{tag}.json")
                try:
                    if route.startswith("cli"):
                        from snowfakery.cli import generate_cli
                        args = [rp, "--reps", str(k), "--output-format", "json", "--output-file", of]
                        for on, ov in (recipe.get("supplied") or {}).items():     # as in the capture run
                            args += ["--option", str(on), str(ov)]
                        if i > 0:
                            args += ["--continuation-file", src]
                        if not last:
                            args += ["--generate-continuation-file", dst]
                        generate_cli.main(args, standalone_mode=False)
                    else:
                        from snowfakery.api import generate_data, COUNT_REPS
                        generate_data(rp, target_number=(COUNT_REPS, k), output_format="json", output_file=of,
                                      user_options=dict(recipe.get("supplied") or {}),
                                      continuation_file=(src if i > 0 else None),
                                      generate_continuation_file=(os.path.join(d, f"next_{tag}.yml") if not last else None))
                    with open(of) as f:
                        return {"ok": _ids_of_json(f.read())}
                except BaseException as e:
                    if type(e).__name__ == "_CaseTimeout":
                        raise
                    return {"err": C.canon_exc(e), "msg": str(e)[:200]}

            o = one("a")
            if route == "paths_each_link_twice":
                if i > 0:
                    o2 = one("b")
                    o["again"] = o2.get("ok", o2)
                    try:
                        o["next_equal"] = last or open(os.path.join(d, "next_a.yml")).read() == open(os.path.join(d, "next_b.yml")).read()
                    except OSError:
                        o["next_equal"] = None
                if not last and "ok" in o:
                    shutil.copyfile(os.path.join(d, "next_a.yml"), state[0])
            out.append(o)
            if "ok" not in o:
                break
        return out
    finally:
        shutil.rmtree(d, ignore_errors=True)


def run_impl(case):
    if case.get("files") is not None:
        # a hand-written recipe (regression witness) that reads files: {DIR} is a scratch directory
        import copy
        import shutil
        import tempfile
        d = tempfile.mkdtemp(prefix="sfv_c04_", dir="/var/tmp")
        try:
            for name, text in case["files"].items():
                with open(os.path.join(d, name), "w") as f:
                    f.write(text)
            c2 = copy.deepcopy(case)
            c2["files"] = None
            c2["recipe"]["raw_yaml"] = c2["recipe"]["raw_yaml"].replace("{DIR}", d)
            return run_impl(c2)
        finally:
            shutil.rmtree(d, ignore_errors=True)
    r = case["recipe"]
    ks = case["ks"]
    whole = S.run_recipe(r, reps=sum(ks))
    whole.pop("cont", None)
    runs = []
    cont = None
    todays = []
    import re
    for i, k in enumerate(ks):
        o = S.run_recipe(r, reps=k, continuation=cont, want_continuation=(i < len(ks) - 1),
                         draw_offset=sum(len(x.get("draws", [])) for x in runs))
        runs.append({kk: vv for kk, vv in o.items() if kk != "cont"})
        if cont:          # the just_once rows the file this run started from carries: [table, id]
            try:
                import yaml
                st = yaml.safe_load(cont)
                runs[-1]["started_with"] = sorted(
                    [v.get("_tablename"), (v.get("_values") or {}).get("id")]
                    for m in ("persistent_nicknames", "persistent_objects_by_table")
                    for v in (st.get(m) or {}).values() if isinstance(v, dict))
            except Exception:
                pass
        if "ok" not in o:
            break
        cont = o.get("cont")
        if cont:
            m = re.search(r"^today: *(\S+)", cont, flags=re.M)
            todays.append(m.group(1) if m else None)
            if i == 0:      # pretend the dataset was started on an earlier day
                cont = re.sub(r"^today: *\S+", "today: 2021-03-04", cont, count=1, flags=re.M)
    obs = {"whole": whole, "runs": runs, "todays": todays}
    if case.get("route") and all("ok" in x for x in runs):
        rr = run_route(r, ks, case["route"])
        if rr is not None:
            obs["route_runs"] = rr
    return obs


def coq_case(case, obs):
    if case["recipe"].get("raw_yaml"):
        return None            # hand-written witness outside the SF-core AST: implementation oracle only
    runs = obs["runs"]
    if all("ok" in r for r in runs) and len(runs) == len(case["ks"]):
        if not all(S.comparable(r["ok"]) for r in runs):
            return None
        exp = "(Ok " + C.clist(S.rows_coq(r["ok"]) for r in runs) + ")"
    else:
        exp = f"(Err {C.cerr(runs[-1]['err'])})"
    ks = C.clist(C.cnat(k) for k in case["ks"])
    return f"CHist PFull {S.recipe_coq(case['recipe'], S.obs_draws(obs))} {ks} {exp}"


def carries_var_state(recipe):
    """the premise of C04 fails: a top-level variable can be read before this iteration has assigned
    it (so it carries the previous iteration's value, which no continuation file records): its name
    is used - as a formula name, a `reference` head or a random_reference target - in its own value
    or in a statement before its definition"""
    stmts = recipe["stmts"]

    def names_in(x, acc):
        if isinstance(x, list):
            if len(x) >= 2 and x[0] == "var" and isinstance(x[1], str) and len(x) == 2:
                acc.add(x[1])
            elif len(x) == 2 and x[0] in ("ref", "randref") and isinstance(x[1], str):
                acc.add(x[1].split(".")[0])
            for y in x:
                names_in(y, acc)
        elif isinstance(x, dict):
            for y in x.values():
                names_in(y, acc)
    for i, st in enumerate(stmts):
        if st[0] == "var":
            used = set()
            names_in([s2[1] if s2[0] == "obj" else s2[2] for s2 in stmts[:i]], used)
            names_in(st[2], used)
            if st[1] in used:
                return True
    return False


def ref_tables(rows):
    """the weaker observable the statement demands of recipes with random functions: ids, and the
    table of every reference"""
    return [[t, [[k, (["ref", v[1]] if v[0] == "ref" else ["val"]) if k != "id" else v] for k, v in fs]] for t, fs in rows]


def oracle(case, obs):
    whole, runs = obs["whole"], obs["runs"]
    if carries_var_state(case["recipe"]):
        return None        # premise of the property: cross-iteration state is only the documented one
    for r in runs + [whole]:
        if "err" in r and r["err"] != "DGE":
            return f"internal-error: {r['err']}: {r.get('msg','')[:120]}"
    if "ok" not in whole:
        return None        # the premise (the uninterrupted run completes) does not hold
    if any("ok" not in r for r in runs):
        bad = next(r for r in runs if "ok" not in r)
        return f"continued-run-fails: uninterrupted run of {sum(case['ks'])} iterations completes, split {case['ks']} fails: {bad.get('msg','')[:160]}"
    td = obs.get("todays", [])
    if len(td) >= 2 and any(t != "2021-03-04" for t in td[1:]):
        return (f"today-not-carried: the dataset's `today` (2021-03-04 in the first continuation file) became {td[1:]} in "
                f"the continuation files written by later runs")
    cat = [row for r in runs for row in r["ok"]]
    if S.uses_random(case["recipe"]):
        # "holds for ids, per-table row counts and the table of every reference" for recipes with random functions
        a, b = ref_tables(cat), ref_tables(whole["ok"])
        if a != b:
            i = next((j for j, (x, y) in enumerate(zip(a, b)) if x != y), min(len(a), len(b)))
            return (f"split-differs(ids/reference tables): composition {case['ks']}: row {i}: split "
                    f"{cat[i] if i < len(cat) else None} vs uninterrupted {whole['ok'][i] if i < len(whole['ok']) else None}")
        return None
    rr = obs.get("route_runs")
    if rr is not None:
        # the same history by another route (command line with its state file(s); generate_data with real files,
        # every continued link run twice from the same unchanged file): same outcome, same (table, id) sequence
        for i, (lib, o) in enumerate(zip(runs, rr)):
            want = [[tb, next((v[1] for f, v in fs if f == "id"), None)] for tb, fs in lib["ok"]]
            if "ok" not in o:
                return (f"route-differs({case['route']}): run {i + 1} of split {case['ks']} completes when the continuation is "
                        f"passed as text, but fails on this route: {o.get('err')}: {o.get('msg', '')[:140]}")
            if o["ok"] != want:
                return f"route-differs({case['route']}): run {i + 1} of split {case['ks']}: ids {o['ok'][:8]} vs {want[:8]} when the continuation is passed as text"
            if "again" in o and o["again"] != o["ok"]:
                return (f"route-differs({case['route']}): run {i + 1} of split {case['ks']} started a second time from the same unchanged "
                        f"continuation file gives {str(o['again'])[:160]} instead of {str(o['ok'])[:160]}")
            if o.get("next_equal") is False:
                return (f"route-differs({case['route']}): run {i + 1} of split {case['ks']} started a second time from the same unchanged "
                        f"continuation file writes a different continuation file")
        if len(rr) < len(runs):
            return f"route-differs({case['route']}): the chain stopped after {len(rr)} of {len(runs)} runs"
    if cat != whole["ok"]:
        i = next((j for j, (a, b) in enumerate(zip(cat, whole["ok"])) if a != b), min(len(cat), len(whole["ok"])))
        return (f"split-differs: composition {case['ks']}: row {i}: split {cat[i] if i < len(cat) else None} vs "
                f"uninterrupted {whole['ok'][i] if i < len(whole['ok']) else None}")
    return None


def nontrivial(case, obs):
    f = set(case.get("features", []))
    return len(case["ks"]) >= 2 and bool(f & {"just_once", "nick"}) and "ok" in obs["whole"]


def stats(cases, obss):
    st = S.feature_stats(cases, [o["whole"] for o in obss if isinstance(o, dict) and "whole" in o])
    st["compositions"] = dict(Counter("+".join(map(str, c["ks"])) for c in cases))
    st["row_valued_just_once_stream"] = sum(1 for c in cases if row_valued_in_once(c["recipe"]))
    st["routes"] = dict(Counter(c.get("route", "text_in_process") for c in cases))
    st["route_chains_run"] = sum(1 for o in obss if isinstance(o, dict) and o.get("route_runs") is not None)
    return st


def shrink(case):
    for c in S.shrink_recipe_case(dict(case, reps=1)):
        c = dict(c)
        c.pop("reps", None)
        yield c
    ks = case["ks"]
    if len(ks) > 2:
        yield dict(case, ks=[ks[0] + ks[1]] + ks[2:])
    for i, k in enumerate(ks):
        if k > 1:
            yield dict(case, ks=ks[:i] + [k - 1] + ks[i + 1:])


def directed_search(rng, disagreeing):
    out = []
    for _ in range(300):
        r, feats = S.gen_recipe(rng, W)
        if row_valued_in_once(r):
            continue
        out.append({"recipe": r, "ks": [1, 1], "features": feats})
        out.append({"recipe": r, "ks": [1, 2], "features": feats})
    return out


def randref_dereferenced(recipe):
    """static signature of K11: a field / variable defined by random_reference is read through
    (attribute other than `id`) somewhere in the recipe"""
    import json as _json
    names = set()

    def defs(stmts):
        for st in stmts:
            if st[0] == "var":
                if st[2][0] == "randref":
                    names.add(st[1])
            else:
                for n, d in st[1]["fields"]:
                    if d[0] == "randref":
                        names.add(n)
                    if d[0] == "nested":
                        defs([["obj", d[1]]])
                defs(st[1]["friends"])
    defs(recipe["stmts"])
    text = _json.dumps(recipe["stmts"])
    return any(('["attr", ["var", "%s"], "' % n) in text and
               any(('["attr", ["var", "%s"], "%s"]' % (n, f)) in text for f in ("f0", "f1", "f2", "f3", "f4", "__h0", "jo"))
               for n in names)


def once_children_names(recipe):
    """tables / nicknames whose rows are created ONLY below a just_once template (in its friends or in
    objects nested in its fields): a continued run skips the template, so it creates none of them, and
    the rows of earlier runs are not in its history"""
    inside, outside = set(), set()

    def names(t):
        return {t["table"]} | ({t["nick"]} if t.get("nick") else set())

    def sub(t, acc):
        for _, d in t["fields"]:
            if d[0] == "nested":
                acc |= names(d[1])
                sub(d[1], acc)
        if t.get("count") and t["count"][0] == "nested":
            acc |= names(t["count"][1])
            sub(t["count"][1], acc)
        for st in t["friends"]:
            if st[0] == "obj":
                acc |= names(st[1])
                sub(st[1], acc)
            elif st[2][0] == "nested":
                acc |= names(st[2][1])
                sub(st[2][1], acc)
    for st in recipe["stmts"]:
        if st[0] == "obj":
            if st[1].get("once"):
                outside |= names(st[1])          # the just_once rows themselves are re-saved on load
                sub(st[1], inside)
            else:
                outside |= names(st[1])
                sub(st[1], outside)
        elif st[2][0] == "nested":
            outside |= names(st[2][1])
            sub(st[2][1], outside)
    return inside - outside


def match_finding(case, obs, msg, findings):
    for f in findings:
        if f["id"] == "K11" and msg.startswith("continued-run-fails") and "There is no table or nickname" in msg:
            # second symptom of K11: the target of a random_reference has rows only below a just_once template
            import re as _re
            runs = obs.get("runs", [])
            bad_i = next((i for i, r in enumerate(runs) if "ok" not in r), None)
            m = _re.search(r"There is no table or nickname `([^`]*)`", (runs[bad_i] if bad_i is not None else {}).get("msg", ""))
            if bad_i and m and m.group(1) in once_children_names(case["recipe"]) and \
                    ('["randref", "%s"]' % m.group(1)) in __import__("json").dumps(case["recipe"]["stmts"]):
                return "K11"
        if f["id"] == "K11" and msg.startswith("continued-run-fails") and randref_dereferenced(case["recipe"]):
            # only when the row that could not be loaded is one the continuation file does not carry; a row
            # that IS in the file and still cannot be found is a different defect (cf. /repo 0aad1fc)
            import re as _re
            bad = next((r for r in obs.get("runs", []) if "ok" not in r), None)
            m = _re.search(r"cannot find (\S+): (\d+)", (bad or {}).get("msg", ""))
            if bad is not None and m and "started_with" in bad and \
                    [m.group(1), int(m.group(2))] not in bad["started_with"]:
                return "K11"
        if f["id"] in ("K1", "K2") and row_valued_in_once(case["recipe"]):
            if f["id"] == "K2" and ("RepresenterError" in msg or "cannot represent" in msg.lower()):
                return "K2"
            if f["id"] == "K1" and (msg.startswith("continued-run-fails") or msg.startswith("split-differs")
                                    or msg == "model-disagreement") and "RepresenterError" not in msg:
                return "K1"
    return None
