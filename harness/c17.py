"""C17 — datasets are iterated faithfully: in order, cyclically, or exactly once.

Implementation: snowfakery/standard_plugins/datasets.py, plugins.py (PluginResultIterator),
data_generator_runtime_object_model.py (for_each, _generate_fields), parse_recipe_yaml.py
(build_update_recipe).  Model: coq/theories/Datasets.v.

A case is a small recipe (tree of object templates with count / for_each, Dataset.iterate /
Dataset.shuffle fields — also with `name`, which makes calls share one remembered iterator —
nested objects, friends), the CSV files it reads (the same content is also loaded into SQLite
tables), the number of iterations, or an update-mode run, or a run continuing an earlier one;
or (kind csv) just a text that is read by csv.reader and Snowfakery's linear CSV iterator;
or (kind session) several such runs one after the other in ONE worker process over one folder tree, the dataset
files regenerated between the runs or the same relative URL text used from another folder.  Top-level templates
can live in recipe files included from other folders (`inc`), Dataset fields can compute their arguments per row
(`rowdyn`), update input files carry any name and are passed as path or open stream.
Rows are captured raw by an output stream defined here, so column values never pass through
an output encoder.
"""
import ast
import csv
import gc
import io
import os
import shutil
import sqlite3
import tempfile
from collections import Counter

from . import common as C
from .oracle_random import injected_randbelow

PROP = "C17"
MODEL = "Datasets"
SHARD = 120
CASE_TIMEOUT = 15
RULE = ("cases: recipes over generated CSV files (0-7 records, 1-4 columns, quoting, embedded commas/"
        "quotes/newlines, unicode, BOM, CRLF, blank lines, short lines) and SQLite tables with the same "
        "content; Dataset.iterate / Dataset.shuffle consumers (count 0..3n+2) at top level, as friend, as "
        "nested object, with repeat unset/True/False; for_each templates (also nested, also shuffled); "
        "consumers inside / below a for_each; update mode with pass-through fields; 1-3 iterations; a malformed stream "
        "(line longer than the header, rejected update recipes, missing columns; long lines oracle-only).  "
        "Calls with a `name` keyword (also falsy names and keywords the plugin ignores such as iteration_mode): a named "
        "for_each at top level over 2-3 iterations / below a parent with several rows / below another for_each, field "
        "consumers sharing a name (one row, sibling templates, friend, nested object, a for_each template's own field), "
        "for_each and field consumer under one name, iterate and shuffle under one name, two names; runs that continue "
        "an earlier run from its continuation file.  The rows "
        "written (per template: for_each record, child_index, consumed records per state key, projected "
        "columns) and the outcome are compared with the Coq model; the text of every CSV file a case reads is parsed by "
        "the model's csv reader and compared with csv.reader and with the records the recipe consumed; a separate stream "
        "of arbitrary texts (quotes in bare cells, text after a closing quote, unterminated quotes, lone CRs, blank and "
        "over-long rows, no header, U+FEFF anywhere) is read by csv.reader and drained through Snowfakery's linear CSV "
        "iterator and compared with the model; shuffled passes (any number of shuffled uses, also interleaved consumers "
        "of one file, also iterators shared by name) are read back per iterator and replayed in the model; datasets of "
        "499/500/501/1000/1300 records consumed for a full cycle. "
        "Round 4: Dataset fields whose dataset / table / database URL is computed per row (formula over id / child_index, "
        "through another field, from the for_each record) over 2-3 candidates of different length and columns: oracle per "
        "call site and named dataset, every evaluation replayed in the model's argument-keyed memo table (CArgs); "
        "sessions of 2-3 runs in one process with the CSV / SQLite files regenerated in between (rename over, delete and "
        "rewrite, rewrite in place; other n, other columns) or the recipe moved to another folder with the same relative "
        "text; recipes that include recipe files from other folders, each reading its own d0; update input files of any "
        "name (upper-case suffix, .txt, no suffix, ...) passed as str / Path / open file / StringIO; CSV datasets under "
        "file names with blanks, several dots, non-ASCII, sub-folders. "
        "Round 5: Dataset calls written inside a `macro` that 2-3 templates include (field, macro including the macro, friend / "
        "nested template the macro brings along, macro included by such a template, two macros in one include list; includers as "
        "siblings / friends / nested objects / for_each templates; named calls shared by design) - the harness expands the macros as "
        "Datasets.v include_macro does (offset i*500), the expanded recipe is compared with the model and every inclusion's call site "
        "judged on its own; one call said again through YAML aliases; headers with near-twin column names (different under "
        "str.lower, equal under casefold / upper / NFKC / NFC / accent stripping / blanks) and other non-ASCII names through iterate, "
        "shuffle, for_each with every column projected, update mode, CSV and SQL, macros, and the bare CSV iterator with attribute "
        "look-ups (model case CRec). "
        "non-trivial: some dataset with >= 2 records is drawn from at least twice (wrap-around, cycle, "
        "for_each) or is over-consumed, or an arbitrary text with >= 2 rows; distinct by case hash")
TRUSTED = ["harness/oracle_random.py: random.Random._randbelow patched so that runs are reproducible from the case",
           "harness/c17.py: CaptureStream (an OutputStream subclass passed by dotted name as output_format) records "
           "raw row values; the permutation of every shuffled pass (random.shuffle for CSV, ORDER BY random() inside "
           "SQLite) is read back from the output and given to the model as the equivalent Fisher-Yates draws, so the "
           "model comparison checks 'some permutation per pass', the oracle checks exactly-once directly",
           "python csv module (reader) as the reference decoder of the generated CSV text — now also checked against the "
           "model's reader (Datasets.v csv_rows) on every file",
           "harness/c17.py spec_run: the order in which the call sites of a recipe consume (fields in order, nested "
           "objects, the row, friends) used to line up the uses of an iterator shared by name"]
ASSUMPTIONS = ["UTF-8 decoding of the file (code points in, code points out) and SQLAlchemy+SQLite delivering the stored "
               "rows in storage order with every cell intact are library code: sampled by every case, not proved; the CSV "
               "record reader itself (line splitting, BOM, quoting, blank lines, DictReader) is modelled and proved",
               "header names of a dataset are distinct, also under str.lower() (names that differ only in case are one key of "
               "Snowfakery's case-insensitive record by design); inside the recipe model a record is its cells in header order, the "
               "record-by-name model (CRec) is given the names folded by Python's str.lower",
               "rows of a template that a macro brings into several including templates (same table name) are written next to the "
               "row of their including template: nested objects before it, friends after it",
               "a shuffled pass (random.shuffle / SQLite ORDER BY random()) is some permutation of the records; the model "
               "represents it as Fisher-Yates over an arbitrary oracle stream and the theorems hold for every stream",
               "the dataset file does not change while a recipe runs (between the runs of one process it may: sampled by the "
               "session stream)",
               "a process leaves no reader on a SQLite file that blocks regenerating it in place (when SQLite reports "
               "'database is locked' the harness regenerates by renaming a new file over the old one instead)",
               "call-site identifiers (id() of live StructuredValue objects) are distinct",
               "the `parent` keyword of memorable functions (state reset per parent row) is not modelled and not generated"]
EXHAUSTIVE = {"quick": False, "thorough": True}

NAMES = ["a", "b", "c", "d", "City", "Zip_Code", "k1", "Name", "X", "oid"]
# Round 5: column names that are DIFFERENT columns (different under str.lower(), the folding Snowfakery's
# case-insensitive record documents) but near-twins under some other folding: str.casefold() (sharp s, final sigma,
# long s, ligatures, micro sign, 'n preceded by apostrophe), str.upper() (dotless i), NFKC (ligature, full-width
# letters), NFC / NFD (composed / decomposed accent), accent stripping, transliteration, blanks / underscores,
# trailing blank.  A header takes two or more members of a group.
TWINS = [["Stra\u00dfe", "Strasse"], ["Ma\u00df", "Mass", "Masse"], ["gro\u00df", "gross", "GROSZ"],
         ["\u03bf\u03b4\u03cc\u03c2", "\u03bf\u03b4\u03cc\u03c3"], ["\ufb01le", "file", "\ufb00"],
         ["\u017ftop", "stop"], ["k\u0131z", "kiz", "K\u0130Z"], ["caf\u00e9", "cafe\u0301", "cafe"],
         ["\u0149a", "\u02bcna"], ["\uff4e\uff41\uff4d\uff45", "name"], ["\u00b5m", "\u03bcm"],
         ["Z\u00fcrich", "Zurich", "Zuerich"], ["na\u00efve", "naive"], ["Zip Code", "Zip_Code", "ZipCode", "Zip-Code"],
         ["Ort", "Ort ", " Ort"], ["\u00c5r", "Ar", "A\u030ar", "Aar"], ["pre\u00e7o", "preco"],
         ["\u0438\u043c\u044f", "\u0438\u043c\u0458\u0430"], ["x\u00b2", "x2"], ["\u01c6", "dz\u030c", "d\u017e"]]
LONERS = ["\u540d\u524d", "\u05e9\u05dd", "K\u00f6ln", "\u00e9t\u00e9", "\u00d1", "\U0001F600", "a", "City", "oid", "k1", "No."]


def distinct_columns(header):
    """the header names are pairwise different columns: exactly different AND different under str.lower() (names
    that differ only in case are one key of Snowfakery's case-insensitive record by design; kept out)"""
    return len({h.lower() for h in header}) == len(header)


def gen_header(rng, ncols=None):
    """2-5 column names with at least one pair of near-twins (see TWINS), in any order"""
    for _ in range(50):
        ncols = ncols or rng.choice([2, 2, 3, 3, 4, 5])
        out = []
        for g in rng.sample(TWINS, rng.choice([1, 1, 2])):
            out += rng.sample(g, rng.randint(2, len(g)))
        out = out[:ncols] if len(out) > ncols and rng.random() < 0.7 else out
        while len(out) < ncols:
            out.append(rng.choice(LONERS + NAMES) if rng.random() < 0.7 else rng.choice(rng.choice(TWINS)))
        rng.shuffle(out)
        if len(set(out)) == len(out) and distinct_columns(out):
            return out
    return ["Stra\u00dfe", "Strasse"]


def case_variant(rng, h):
    """the same column name in another spelling of its case (same key under str.lower())"""
    cands = [v for v in (h.upper(), h.lower(), h.swapcase(), h.title()) if v != h and v.lower() == h.lower()]
    return rng.choice(cands) if cands else h
_ROWS = []
_CAP = [1500]


# ---------------------------------------------------------------- capture stream (worker side)
class _TooManyRows(BaseException):
    pass


def __getattr__(name):
    if name == "CaptureStream":
        from snowfakery.output_streams import OutputStream

        class CaptureStream(OutputStream):
            is_text = True

            def __init__(self, *a, **k):
                pass

            def write_row(self, tablename, row):
                if len(_ROWS) > _CAP[0]:       # a loop that no longer ends
                    raise _TooManyRows()
                _ROWS.append((tablename, dict(row)))

            def write_single_row(self, tablename, row):
                pass

            def close(self, **k):
                return None

        globals()["CaptureStream"] = CaptureStream
        return CaptureStream
    raise AttributeError(name)


# ---------------------------------------------------------------- datasets
def render_csv(rng, header, rows, crlf, quote, blank, final_eol):
    eol = "\r\n" if crlf else "\n"

    def q(c, alone):
        need = (c == "" and alone) or any(ch in c for ch in ',"\r\n')
        force = quote == "all" or (quote == "random" and rng.random() < 0.4)
        if need or force:
            return '"' + c.replace('"', '""') + '"'
        return c

    lines = [",".join(q(h, len(header) == 1) for h in header)]
    for r in rows:
        cells = [c for c in r if c is not None]
        lines.append(",".join(q(c, len(cells) == 1) for c in cells))
        if blank and rng.random() < 0.3:
            lines.append("")
    text = eol.join(lines)
    if final_eol:
        text += eol
    return text


def file_bytes(ds):
    return (b"\xef\xbb\xbf" if ds.get("bom") else b"") + ds["text"].encode("utf-8")


def decode_reference(ds):
    """the harness' own decoding of the file: (header, records) with None for missing cells"""
    s = file_bytes(ds).decode("utf-8-sig")
    rows = list(csv.reader(io.StringIO(s, newline="")))
    header = rows[0] if rows else []
    recs = []
    for r in rows[1:]:
        if r == []:
            continue
        recs.append([*r, *([None] * (len(header) - len(r)))])
    return header, recs


def reader_rows(ds):
    """list(csv.reader(f)) for the file as Snowfakery opens it (utf-8-sig, newline='')"""
    return list(csv.reader(io.StringIO(file_bytes(ds).decode("utf-8-sig"), newline="")))


def dict_records(rows):
    """csv.DictReader over reader rows, as [[key, value], ...] per record, up to the first row that is longer
    than the header (Snowfakery's plugin_result raises a DataGenError there): (header, records, failed)"""
    if not rows:
        return None, [], False
    header = rows[0]
    out = []
    for r in rows[1:]:
        if r == []:
            continue
        if len(r) > len(header):
            return header, out, True
        d = dict(zip(header, r))
        for k in header[len(r):]:
            d[k] = None
        out.append([[k, v] for k, v in d.items()])
    return header, out, False


PLAIN = "abxyzQRS"
SPECIAL = [",", '"', "\n", "\r\n", "'", " ", "é", "ß", "漢", "\U0001F600", "é", "${{x}}", "#",
           ": ", "\t", "-", "{%", " ", ";", "|"]


def proj_safe(c):
    """text that survives ${{var.col}} unchanged (look_for_number turns 12 into an int and 1.50 into a
    float; ints are compared through str, float-looking cells are kept out of projected columns)"""
    if c is None or c == "":
        return True
    if all(ch in "0123456789." for ch in c):
        return c.isdigit() and (c == "0" or c[0] != "0")
    return True


def gen_cell(rng, safe):
    r = rng.random()
    if r < 0.07:
        return ""
    if r < 0.2:
        return str(rng.randint(0, 120))
    if r < 0.27 and not safe:
        return rng.choice(["007", "1.50", "3.", "0.5", "00", ".", "1.2.3"])
    n = rng.choice([1, 1, 2, 3, 5])
    out = []
    for _ in range(n):
        out.append(rng.choice(SPECIAL) if rng.random() < 0.35 else rng.choice(PLAIN))
    c = "".join(out)
    if safe:
        # Jinja keeps values as they are; leading/trailing blanks and newlines are kept out of projected
        # columns only because the template engine's whitespace rules are not what C17 is about
        c = c.strip() or "x"
    if safe and not proj_safe(c):
        c = "v" + c
    return c


CSV_NAMES = ["d0.v2.csv", "my file.csv", "Z\u00fcrich.csv", "sub dir/d0.csv", "UPPER.csv", "a.CSV.csv", "d0-copy (1).csv"]


def csv_name(case, name):
    """the file name (relative to the recipe's folder) under which a dataset is stored as CSV"""
    return case["datasets"][name].get("fname") or (name + ".csv")


PK_KINDS = ["text", "text", "composite", "int", "integer", "text_norowid", "composite_norowid"]


def sql_layout(ds):
    """DDL of the SQLite table for a dataset and the order in which `SELECT * FROM t` (sqlite3 module, no
    Snowfakery involved) returns its rows after they were inserted in file order: the reference for SQL uses.
    With a primary key that order can differ from insertion order (rowid alias, WITHOUT ROWID, covering index)."""
    h = ds["header"]
    pk = ds.get("pk")
    typ = {0: "INT" if pk == "int" else "INTEGER" if pk == "integer" else "TEXT"}
    cols = ['"%s" %s' % (c, typ.get(i, "TEXT")) for i, c in enumerate(h)]
    if pk in ("text", "int", "integer", "text_norowid"):
        cols[0] += " PRIMARY KEY"
    elif pk in ("composite", "composite_norowid"):
        cols.append('PRIMARY KEY ("%s", "%s")' % (h[1], h[0]))
    ddl = "create table t (%s)%s" % (", ".join(cols), " WITHOUT ROWID" if pk and pk.endswith("norowid") else "")
    con = sqlite3.connect(":memory:")
    con.execute(ddl)
    con.executemany("insert into t values (%s)" % ",".join("?" * len(h)), ds["rows"])
    got = [[(c if (c is None or isinstance(c, str)) else str(c)) for c in r] for r in con.execute("select * from t")]
    con.close()
    return ddl, got


def gen_dataset(rng, n, ncols=None, short=False, distinct=False, plain=False, pk=None, header=None):
    ncols = len(header) if header else (ncols or rng.choice([1, 2, 2, 3, 4]))
    if pk and "composite" in pk and ncols < 2:
        pk = "text"
    if pk:
        short, distinct = False, True
    header = list(header) if header else rng.sample(NAMES, ncols)
    safe_cols = [rng.random() < 0.7 for _ in header]
    rows = []
    for i in range(n):
        row = [("r%d" % i if plain else gen_cell(rng, safe_cols[j])) for j in range(ncols)]
        if distinct:
            row[0] = f"{i}-{row[0]}" if not row[0].isdigit() else f"k{i}"
        if short and ncols > 1 and rng.random() < 0.4:
            keep = rng.randint(1, ncols - 1)
            row = row[:keep] + [None] * (ncols - keep)
        rows.append(row)
    if pk in ("int", "integer"):
        for r, v in zip(rows, rng.sample(range(1, 900), n)):     # unique, not in ascending order
            r[0] = str(v)
    ds = {"header": header, "rows": rows, "safe": safe_cols,
          "bom": rng.random() < 0.3}
    if pk:
        ds["pk"] = pk
    ds["text"] = render_csv(rng, header, rows, crlf=rng.random() < 0.4,
                            quote=rng.choice(["minimal", "minimal", "all", "random"]),
                            blank=rng.random() < 0.15, final_eol=rng.random() < 0.85)
    h, recs = decode_reference(ds)
    assert h == header and recs == rows, ("generator/decoder mismatch", ds, h, recs)
    if pk:
        ds["ddl"], ds["sql_rows"] = sql_layout(ds)
        assert sorted(map(tuple, ds["sql_rows"])) == sorted(map(tuple, rows))
    return ds


# ---------------------------------------------------------------- recipe structure helpers
def use(ds, src="csv", mode="iterate", repeat=None, table=True, name=None, extra=None):
    """a Dataset.iterate / Dataset.shuffle call.  name: the `name` keyword (None = absent; "" / 0 are written
    but falsy, i.e. the call stays unnamed); extra: keywords the plugin ignores (iteration_mode, ...)"""
    u = {"ds": ds, "src": src, "mode": mode, "repeat": repeat, "table": table}
    if name is not None:
        u["name"] = name
    if extra:
        u["extra"] = [list(kv) for kv in extra]
    return u


def key_of(sid, u):
    """the key under which evaluate_memorable_function remembers the call's iterator: the name together with
    the function, else the call site (transcribed in Datasets.v key_of)"""
    nm = u.get("name")
    if nm:
        return "name/%s/%s" % (u["mode"], nm)
    return "site/%d" % sid


def tmpl(tid, loop, sites=(), pas=(), nested=(), friends=(), nick=False):
    return {"tid": tid, "loop": list(loop), "sites": [list(s) for s in sites], "pass": list(pas),
            "nested": list(nested), "friends": list(friends), "nick": nick}


def effective_top(case):
    """top-level templates as they are executed (update mode rewrites the single template)"""
    if case["kind"] != "update":
        return case["recipe"], None
    rec = case["recipe"]
    if len(rec) != 1:
        return None, "structure"
    t = rec[0]
    if t["loop"][0] == "count":
        return None, "count"
    t2 = dict(t)
    t2["loop"] = ["foreach", use(case["input"], "csv", "iterate", False)]
    t2["pass"] = list(t["pass"]) + list(case["passthrough"])
    return [t2], None


def walk(tmpls, below=False):
    """yield (template, below) — below: the template is, or lies below, a for_each template.  Since the repair
    of ForEachVariableDefinition.evaluate (recalculate_every_time restored after the for_each expression) this
    placement behaves like any other; the flag only feeds the evidence statistics."""
    for t in tmpls:
        b = below or t["loop"][0] == "foreach"
        yield t, b
        yield from walk(t["nested"], b)
        yield from walk(t["friends"], b)


def all_uses(case):
    top, _ = effective_top(case)
    out = []
    for t, rc in walk(top or case["recipe"]):
        if t["loop"][0] == "foreach":
            out.append(("foreach", t, None, t["loop"][1], rc))
        for sid, u in t["sites"]:
            out.append(("site", t, sid, u, rc))
    return out


def ds_of(case, u, cur=None):
    """the dataset a use reads; a computed name (`dyn`) needs the current records of the enclosing loops"""
    dyn = u.get("dyn")
    if dyn and cur is not None and dyn["outer"] in cur:
        outer_ds = case["datasets"][dyn["outer_ds"]]
        v = cur[dyn["outer"]][outer_ds["header"].index(dyn["col"])]
        return case["datasets"][v[:-4] if v.endswith(".csv") else v]
    return case["datasets"][u["ds"]]


def data_of(case, u, cur=None):
    ds = ds_of(case, u, cur)
    if u["src"] == "sql" and "sql_rows" in ds:
        return ds["sql_rows"]          # table order as sqlite3 itself reads it (primary keys may reorder)
    return ds["rows"]


def col_index(case, u, name):
    header = case["datasets"][u["ds"]]["header"]
    for i, h in enumerate(header):
        if h.lower() == name.lower():
            return i
    return len(header) + 3


# ---------------------------------------------------------------- generation
def _sid(counter):
    counter[0] += 1
    return counter[0]


def gen_consumer_case(rng, n=None, m=None, mode=None, repeat="?", src=None, placement=None, iters=None, header=None):
    n = rng.randint(0, 7) if n is None else n
    src = src or rng.choice(["csv", "csv", "sql"])
    pk = rng.choice(PK_KINDS) if (src == "sql" and rng.random() < 0.6) else None
    ds = gen_dataset(rng, n, short=rng.random() < 0.15, distinct=rng.random() < 0.5, pk=pk, header=header)
    m = rng.randint(0, 3 * n + 2) if m is None else m
    mode = mode or rng.choice(["iterate", "iterate", "shuffle"])
    repeat = rng.choice([None, None, True, False]) if repeat == "?" else repeat
    placement = placement or rng.choice(["top", "top", "friend", "nested", "deep", "two_sites", "two_templates"])
    iters = iters or rng.choice([1, 1, 2])
    if src == "csv" and rng.random() < 0.12:
        ds["fname"] = rng.choice(CSV_NAMES)
    u = decorate(rng, use("d0", src, mode, repeat, table=rng.random() < 0.6))
    cons = tmpl(1, ["count", m] if (m != 1 or rng.random() < 0.5) else ["default"], sites=[[1, u]],
                nick=rng.random() < 0.2)
    if placement == "top":
        recipe = [cons]
    elif placement == "friend":
        recipe = [tmpl(2, ["count", rng.randint(0, 3)], friends=[cons])]
    elif placement == "nested":
        recipe = [tmpl(2, ["count", rng.randint(0, 3)], nested=[cons])]
    elif placement == "deep":
        as_nested = rng.random() < 0.5
        inner = tmpl(2, ["count", rng.randint(1, 2)], nested=[cons] if as_nested else [],
                     friends=[] if as_nested else [cons])
        recipe = [tmpl(3, ["count", rng.randint(1, 2)], friends=[inner])]
    elif placement == "two_sites":
        # two call sites over the same file in one row (each one's passes are read back from its own values)
        u2 = use("d0", rng.choice(["csv", "sql"]), rng.choice(["iterate", "shuffle"]), rng.choice([None, False]))
        cons["sites"].append([2, u2])
        recipe = [cons]
    else:
        ds1 = gen_dataset(rng, rng.randint(1, 4), distinct=True)
        other = tmpl(4, ["count", rng.randint(0, 4)], sites=[[3, use("d1", "csv", "iterate", None)]])
        recipe = [cons, other] if rng.random() < 0.5 else [other, cons]
        return {"kind": "run", "datasets": {"d0": ds, "d1": ds1}, "recipe": recipe, "iters": iters,
                "tick": iters > 1 or rng.random() < 0.3, "raw": [rng.randint(0, 10 ** 6) for _ in range(80)]}
    return {"kind": "run", "datasets": {"d0": ds}, "recipe": recipe, "iters": iters,
            "tick": iters > 1 or rng.random() < 0.3, "raw": [rng.randint(0, 10 ** 6) for _ in range(80)]}


def pick_pass(rng, ds, allow_missing=False):
    # projected through ${{var.Name}}: names the template language can spell as an attribute
    cols = [h for h, s in zip(ds["header"], ds["safe"]) if s and h.isidentifier()]
    k = rng.randint(0, len(cols))
    out = []
    for h in rng.sample(cols, k):
        up = rng.random() < 0.2
        if up and h.upper().lower() != h.lower():
            out.append(case_variant(rng, h))       # e.g. sharp s: its upper case is another name
        else:
            out.append(h.upper() if up else h)
    if allow_missing and rng.random() < 0.08:
        out.append("nosuch")
    return out


def gen_foreach_case(rng, n=None, mode=None, src=None, placement=None, iters=None, header=None):
    n = rng.randint(0, 7) if n is None else n
    src = src or rng.choice(["csv", "csv", "sql"])
    pk = rng.choice(PK_KINDS) if (src == "sql" and rng.random() < 0.6) else None
    ds = gen_dataset(rng, n, short=rng.random() < 0.15, distinct=rng.random() < 0.6, pk=pk, header=header)
    # projected columns must exist on every record that has them (a short line renders as None: fine)
    mode = mode or rng.choice(["iterate", "iterate", "shuffle"])
    placement = placement or rng.choice(["top", "top", "friend", "nested", "inner_foreach", "with_children"])
    iters = iters or rng.choice([1, 1, 2])
    if src == "csv" and rng.random() < 0.12:
        ds["fname"] = rng.choice(CSV_NAMES)
    u = decorate(rng, use("d0", src, mode, rng.choice([None, None, True, False]), table=rng.random() < 0.6), p_name=0.25)
    fe = tmpl(1, ["foreach", u], pas=pick_pass(rng, ds, allow_missing=True), nick=rng.random() < 0.2)
    datasets = {"d0": ds}
    target = None
    if placement == "top":
        recipe = [fe]
        if n > 0 and rng.random() < 0.25:
            # stopping criterion on the for_each table: a for_each is evaluated afresh in every iteration
            target = rng.choice([n - 1, n, n + 1, 2 * n, 2 * n + 1]) or 1
            iters = -(-target // n)
    elif placement == "friend":
        recipe = [tmpl(2, ["count", rng.randint(0, 3)], friends=[fe])]
    elif placement == "nested":
        recipe = [tmpl(2, ["count", rng.randint(0, 3)], nested=[fe])]
    elif placement == "inner_foreach":
        ds1 = gen_dataset(rng, rng.randint(0, 3), distinct=True)
        datasets["d1"] = ds1
        outer = tmpl(2, ["foreach", use("d1", "csv", "iterate", None)], pas=pick_pass(rng, ds1),
                     friends=[fe] if rng.random() < 0.6 else [], nested=[])
        if not outer["friends"]:
            outer["nested"] = [fe]
        recipe = [outer]
    else:
        fe["friends"] = [tmpl(2, ["count", rng.randint(0, 2)])]
        fe["nested"] = [tmpl(3, ["default"])] if rng.random() < 0.5 else []
        recipe = [fe]
    case = {"kind": "run", "datasets": datasets, "recipe": recipe, "iters": iters,
            "tick": iters > 1 or rng.random() < 0.3, "raw": [rng.randint(0, 10 ** 6) for _ in range(80)]}
    if target:
        case.update(target=target, tick=False)
    return case


def gen_scope_case(rng):
    """a Dataset.* field inside / below a for_each template (regression for the repaired finding
    'restarted at every evaluation': the call site keeps its iterator like anywhere else)"""
    n = rng.randint(0, 5)
    ds = gen_dataset(rng, n, distinct=True)
    ds1 = gen_dataset(rng, rng.randint(0, 3), distinct=True)
    u = decorate(rng, use("d0", "csv", rng.choice(["iterate", "iterate", "shuffle"]), rng.choice([None, False])))
    where = rng.choice(["own", "friend", "nested"])
    m = rng.randint(0, 3)
    if where == "own":
        outer = tmpl(2, ["foreach", use("d1", "csv", "iterate", None)], sites=[[1, u]])
    elif where == "friend":
        outer = tmpl(2, ["foreach", use("d1", "csv", "iterate", None)],
                     friends=[tmpl(1, ["count", m], sites=[[1, u]])])
    else:
        outer = tmpl(2, ["foreach", use("d1", "csv", "iterate", None)],
                     nested=[tmpl(1, ["count", m], sites=[[1, u]])])
    return {"kind": "run", "datasets": {"d0": ds, "d1": ds1}, "recipe": [outer], "iters": rng.choice([1, 2]),
            "tick": True, "raw": [rng.randint(0, 10 ** 6) for _ in range(80)]}


# ---------------------------------------------------------------- round 5: macros, column-name twins
def macro_uses(case):
    """the Dataset calls as they are written in the macro definitions (for rendering)"""
    for m in case.get("macros", []):
        for _sid, u in m["sites"]:
            yield u
        for t in m["nested"] + m["friends"]:
            for _sid, u in t["sites"]:
                yield u


def _inst_sites(sites, off, macro):
    import copy
    return [[off + msid, dict(copy.deepcopy(u), macro=macro, fld="s%d" % msid)] for msid, u in sites]


def expand_macro(mdefs, name, off, owner):
    """what `include: name` contributes to a template, every inclusion parsed afresh: (sites, nested, friends)
    with call sites and templates of their own (the macro's local numbers + the offset of this inclusion, as in
    Datasets.v include_macro / shift_tmpl); a template defined inside a macro keeps the
    table name the macro gives it (`table`) and remembers the including template (`owner`) and how it hangs
    below it (`mrel`).  Fields / friends of included macros come first, as parse_inclusions puts them."""
    m = mdefs[name]
    sites, nested, friends = [], [], []
    for inc in m.get("include", []):
        a, b, c = expand_macro(mdefs, inc, off, owner)
        sites += a
        nested += b
        friends += c
    sites += _inst_sites(m["sites"], off, name)
    for rel, src, dst in (("nested", m["nested"], nested), ("friend", m["friends"], friends)):
        for td in src:
            t2 = tmpl(off + td["tid"], td["loop"])
            t2.update(table=td["tid"], macro=name, owner=owner, mrel=rel)
            for inc in td.get("include", []):
                a, b, c = expand_macro(mdefs, inc, off, t2["tid"])
                assert not b and not c, "macros included by a template inside a macro hold fields only"
                t2["sites"] += a
            t2["sites"] += _inst_sites(td["sites"], off, name)
            dst.append(t2)
    return sites, nested, friends


def include_macros(mdefs, t, names, fresh):
    """template t says `include: names`: the expansion goes in front of its own fields / friends"""
    t["include"] = list(names)
    sites, nested, friends = [], [], []
    for nm in names:
        a, b, c = expand_macro(mdefs, nm, 500 * fresh(), t["tid"])      # inclusion number i: offset i * B, B = 500
        sites += a
        nested += b
        friends += c
    t["sites"] = sites + t["sites"]
    t["nested"] = nested + t["nested"]
    t["friends"] = friends + t["friends"]
    return t


MACRO_CONTENT = ["field", "field", "chained", "chained", "friend", "nested", "field+friend", "field+nested",
                 "tmpl_includes", "two_macros"]
MACRO_PLACE = ["siblings", "siblings", "parent_friends", "top_and_friend", "parent_nested", "nested_in_includer"]


def gen_macro_case(rng, header=None, content=None, place=None, n=None):
    """Dataset.iterate / Dataset.shuffle written inside a `macro` that two or more templates include (directly,
    through a macro that includes the macro, in a friend / nested template the macro brings along, in a macro that
    such a template includes): every inclusion is a consumer of its own — an unnamed call hands ITS template record
    k mod n on that template's k-th use, whatever the other including templates consume; calls with a `name` share
    one iterator, as anywhere else.  The case holds the recipe with the macros expanded (the model's view: fresh
    call site per inclusion) and the macro definitions (what is written into the recipe file)."""
    content = content or rng.choice(MACRO_CONTENT)
    has_tmpl = content in ("friend", "nested", "field+friend", "field+nested", "tmpl_includes")
    n = (rng.choice([1, 2, 2, 3, 3, 4, 5]) if has_tmpl or rng.random() < 0.9 else 0) if n is None else n
    src = rng.choice(["csv", "csv", "sql"])
    pk = rng.choice(PK_KINDS) if (src == "sql" and rng.random() < 0.4) else None
    ds = gen_dataset(rng, n, distinct=True, pk=pk, header=header)
    datasets = {"d0": ds}
    mode = rng.choice(["iterate", "iterate", "shuffle"])
    rep = rng.choice([None, None, True]) if has_tmpl else rng.choice([None, None, True, False])
    tbl = rng.random() < 0.6
    shared_name = rng.choice(DS_NAMES) if rng.random() < 0.12 else None

    def call(mode_=None):
        u = use("d0", src, mode_ or mode, rep, table=tbl, name=shared_name)
        if rng.random() < 0.04:
            u["extra"] = [list(rng.choice(IGNORED_KW))]
        return u

    inner_loop = lambda: rng.choice([["default"], ["count", 1], ["count", 2]])
    mA = {"name": "mA", "include": [], "sites": [], "nested": [], "friends": []}
    macros = [mA]
    inc_names = ["mA"]
    if content in ("field", "chained", "field+friend", "field+nested", "two_macros", "tmpl_includes"):
        mA["sites"].append([101, call()])
        if rng.random() < 0.2:
            mA["sites"].append([102, call(rng.choice(["iterate", "shuffle"]))])
    if content == "chained":
        mB = {"name": "mB", "include": ["mA"], "sites": [[103, call()]] if rng.random() < 0.4 else [], "nested": [], "friends": []}
        macros.append(mB)
        inc_names = ["mB"]
        if rng.random() < 0.4:
            macros.append({"name": "mC", "include": ["mB"], "sites": [], "nested": [], "friends": []})
            inc_names = ["mC"]
    if content in ("friend", "field+friend"):
        mA["friends"].append(tmpl(50, inner_loop(), sites=[[104, call()]]))
    if content in ("nested", "field+nested"):
        mA["nested"].append(tmpl(51, inner_loop(), sites=[[105, call()]]))
    if content == "tmpl_includes":
        # a template the macro mB brings along includes the macro mA itself
        td = tmpl(52, inner_loop())
        td["include"] = ["mA"]
        rel = rng.choice(["friends", "nested"])
        mB = {"name": "mB", "include": [], "sites": [], "nested": [], "friends": []}
        mB[rel].append(td)
        macros.append(mB)
        inc_names = ["mB"]
    if content == "two_macros":
        d1 = gen_dataset(rng, rng.randint(1, 4), distinct=True)
        datasets["d1"] = d1
        macros.append({"name": "mD", "include": [], "sites": [[106, use("d1", "csv", rng.choice(["iterate", "shuffle"]), None)]],
                       "nested": [], "friends": []})
        inc_names = ["mA", "mD"] if rng.random() < 0.5 else ["mD", "mA"]
    mdefs = {m["name"]: m for m in macros}
    counter = [0]
    fresh = lambda: _sid(counter)
    k = rng.choice([2, 2, 3])
    nested_content = any(m["nested"] for m in macros)
    place = place or rng.choice(MACRO_PLACE)
    if nested_content and place in ("parent_nested", "nested_in_includer"):
        place = "siblings"           # rows of a macro's nested template are told apart by the includer row that follows
    incs = []
    for i in range(k):
        names = inc_names
        if content == "chained" and rng.random() < 0.3:
            names = ["mA"]                         # some include the inner macro directly
        if content == "tmpl_includes" and i == k - 1 and rng.random() < 0.5:
            names = ["mA"]
        loop = ["count", rng.randint(1, 3)] if rng.random() < 0.8 else ["default"]
        t = tmpl(i + 1, loop, nick=rng.random() < 0.15)
        if not nested_content and rng.random() < 0.2:
            t["sites"] = [[i + 1, use("d0", rng.choice(["csv", src]), rng.choice(["iterate", "shuffle"]), None)]]
        incs.append(include_macros(mdefs, t, names, fresh))
    if rng.random() < 0.15 and not has_tmpl:
        # one including template is a for_each template (the macro's field is its own field)
        d1 = datasets.get("d1") or gen_dataset(rng, rng.randint(1, 3), distinct=True)
        datasets["d1"] = d1
        incs[-1]["loop"] = ["foreach", use("d1", "csv", "iterate", None)]
    if place == "siblings":
        recipe = incs
        if rng.random() < 0.25:
            # a template that writes the same call itself, between the including ones
            recipe = incs[:1] + [tmpl(9, ["count", rng.randint(1, 2)], sites=[[9, call()]])] + incs[1:]
    elif place == "parent_friends":
        recipe = [tmpl(8, ["count", rng.randint(1, 2)], friends=incs)]
    elif place == "top_and_friend":
        incs[0]["friends"] = incs[0]["friends"] + incs[1:]
        recipe = [incs[0]]
    elif place == "parent_nested":
        recipe = [tmpl(8, ["count", rng.randint(1, 2)], nested=incs)]
    else:
        incs[0]["nested"] = incs[0]["nested"] + incs[1:]
        recipe = [incs[0]]
    iters = rng.choice([1, 2, 2, 3])
    if mode == "shuffle" and n:
        iters = max(iters, -(-n // max(1, min((t["loop"][1] if t["loop"][0] == "count" else 1) for t in incs))))
        iters = min(iters, 6)
    return {"kind": "run", "datasets": datasets, "recipe": recipe, "macros": macros, "iters": iters, "tick": True,
            "raw": _raw(rng), "shape": "macro/%s/%s" % (content, place)}


def gen_alias_case(rng):
    """one Dataset call written once and referred to by YAML aliases (`s1: &c1 ...` / `s2: *c1`) from other fields /
    templates: the YAML loader hands the parser the SAME node for every alias, yet every field that says it is a
    call site of its own (unnamed: its own iterator from record 0; named: shared through the name as always)"""
    import copy
    n = rng.choice([1, 2, 2, 3, 4, 5])
    src = rng.choice(["csv", "csv", "sql"])
    ds = gen_dataset(rng, n, distinct=True)
    mode = rng.choice(["iterate", "iterate", "shuffle"])
    u1 = use("d0", src, mode, rng.choice([None, None, True, False]), table=rng.random() < 0.6,
             name=rng.choice(DS_NAMES) if rng.random() < 0.1 else None)
    u1["anchor"] = "c1"

    def again():
        u = copy.deepcopy(u1)
        del u["anchor"]
        u["alias"] = "c1"
        return u

    cnt = lambda: ["count", rng.randint(1, 3)]
    shape = rng.choice(["siblings", "siblings", "row", "friend", "nested", "three"])
    if shape == "siblings":
        recipe = [tmpl(1, cnt(), sites=[[1, u1]]), tmpl(2, cnt(), sites=[[2, again()]])]
    elif shape == "row":
        recipe = [tmpl(1, cnt(), sites=[[1, u1], [2, again()]])]
    elif shape == "friend":
        recipe = [tmpl(1, cnt(), sites=[[1, u1]], friends=[tmpl(2, cnt(), sites=[[2, again()]])])]
    elif shape == "nested":
        recipe = [tmpl(1, cnt(), sites=[[1, u1]], nested=[tmpl(2, cnt(), sites=[[2, again()]])])]
    else:
        recipe = [tmpl(1, cnt(), sites=[[1, u1]]), tmpl(2, cnt(), sites=[[2, again()]], friends=[tmpl(3, cnt(), sites=[[3, again()]])])]
    iters = rng.choice([1, 2, 3]) if mode == "iterate" else rng.randint(max(1, n // 2), n + 1)
    return {"kind": "run", "datasets": {"d0": ds}, "recipe": recipe, "iters": iters, "tick": True, "raw": _raw(rng),
            "shape": "yaml_alias/" + shape}


def gen_columns_case(rng):
    """a dataset whose header holds near-twin column names (TWINS: different columns that some folding other than
    str.lower() would identify) and other non-ASCII names, read through every route: Dataset.iterate / shuffle
    fields (the whole record is observed), for_each (record + projected columns, also under another case
    spelling), update mode (input.X and pass-through fields), CSV file and SQL table, inside macros, through the
    bare CSV iterator"""
    header = gen_header(rng)
    r = rng.random()
    if r < 0.3:
        c = gen_consumer_case(rng, header=header, n=rng.randint(1, 5))
    elif r < 0.6:
        c = gen_foreach_case(rng, header=header, n=rng.randint(1, 5))
    elif r < 0.8:
        c = gen_update_case(rng, header=header, n=rng.randint(1, 5))
    elif r < 0.9:
        c = gen_macro_case(rng, header=header)
    else:
        eol = rng.choice(["\n", "\r\n"])
        k = rng.randint(1, 4)
        body = eol.join(",".join(rng.choice(["a", "b", "xy", "\u00e9", "0", ""]) for _ in header) for _ in range(k))
        ds = {"text": ",".join(header) + eol + body + eol, "bom": rng.random() < 0.3, "header": [], "rows": [], "safe": []}
        # names looked up on every record (what ${{row.X}} does): the header names, other case spellings of them, the
        # near-twins that are NOT in the header (must be missing, not answered by a neighbour), a name nobody has
        probes = list(header) + [case_variant(rng, h) for h in header]
        probes += [x for g in TWINS if any(h in g for h in header) for x in g if x not in header] + ["nosuch"]
        probes = [p_ for i, p_ in enumerate(probes) if p_ not in probes[:i]]
        return {"kind": "csv", "datasets": {"d0": ds}, "recipe": [], "iters": 1, "raw": [], "probes": probes,
                "shape": "twin_columns/bare_csv"}
    # project (nearly) every column that the template language can name, some under another case spelling
    ds = c["datasets"]["d0"]
    full = [(case_variant(rng, h) if rng.random() < 0.15 else h) for h, sf in zip(ds["header"], ds["safe"]) if sf and h.isidentifier()]
    if rng.random() < 0.7:
        if c["kind"] == "update":
            c["passthrough"] = full
        else:
            for t, _b in walk(c["recipe"]):
                if t["loop"][0] == "foreach" and t["loop"][1]["ds"] == "d0" and t["pass"] is not None and "nosuch" not in t["pass"]:
                    t["pass"] = list(full)
    c["shape"] = "twin_columns/" + c["kind"] + ("/" + c["shape"] if c.get("shape") else "")
    return c


INPUT_NAMES = ["D0.CSV", "d0.Csv", "contacts_export.txt", "input", "data.csv.bak", "in put.tsv", ".csv", "x.csv.txt",
               "Z\u00fcrich.CSV", "export.dat", "upd.csv", "UPD.csv"]
INPUT_AS = ["str", "path", "stream_file", "stream_mem"]


def gen_update_case(rng, n=None, header=None):
    n = rng.randint(0, 7) if n is None else n
    ds = gen_dataset(rng, n, short=rng.random() < 0.1, distinct=rng.random() < 0.6, header=header)
    t = tmpl(1, ["default"], nick=rng.random() < 0.4)
    r = rng.random()
    recipe = [t]
    datasets = {"d0": ds}
    if r < 0.08:
        t["loop"] = ["count", rng.randint(0, 3)]            # rejected: update templates have no count
    elif r < 0.16:
        recipe = [t, tmpl(2, ["default"])] if rng.random() < 0.7 else []   # rejected: not exactly one
    elif r < 0.3:
        t["friends"] = [tmpl(2, ["count", rng.randint(0, 2)])]
    elif r < 0.38:
        ds1 = gen_dataset(rng, rng.randint(0, 3), distinct=True)
        datasets["d1"] = ds1
        t["loop"] = ["foreach", use("d1", "csv", "iterate", None)]      # replaced by the input loop
    elif r < 0.45:
        ds1 = gen_dataset(rng, rng.randint(0, 3), distinct=True)
        datasets["d1"] = ds1
        t["friends"] = [tmpl(2, ["foreach", use("d1", "csv", "iterate", None)], pas=pick_pass(rng, ds1))]
    case = {"kind": "update", "datasets": datasets, "recipe": recipe, "input": "d0",
            "passthrough": pick_pass(rng, ds, allow_missing=False if r >= 0.45 and rng.random() < 0.5 else True),
            "iters": 1, "tick": False, "raw": [rng.randint(0, 10 ** 6) for _ in range(20)]}
    if rng.random() < 0.6:
        # update mode takes any file name (Dataset.iterate insists on *.csv, --update-input-file does not) and an
        # open stream as well: the records and their cells are the same whatever the file is called
        case["input_name"] = rng.choice(INPUT_NAMES)
    if rng.random() < 0.5:
        case["input_as"] = rng.choice(INPUT_AS)
    if r >= 0.6 and rng.random() < 0.6:
        # a stopping criterion on the updated table: at most n rows exist; asking for more must be an error
        case["target"] = rng.choice([max(n - 1, 1), max(n, 1), n + 1, 2 * n + 1, 3 * n])  or 1
    return case


def _raw(rng, k=40):
    return [rng.randint(0, 10 ** 6) for _ in range(k)]


DS_NAMES = ["people", "nmA", "nmB", "X1", "shared_7"]
IGNORED_KW = [("iteration_mode", "shuffle"), ("iteration_mode", "linear"), ("mode", "shuffle"), ("start", "2"),
              ("shuffle", "True"), ("cycle", "False")]


def decorate(rng, u, p_name=0.15, p_extra=0.05):
    """keywords of a Dataset call that must not change what C17 prescribes for a call standing alone: a `name`
    (nobody else uses it), a falsy name, keywords the plugin does not know"""
    r = rng.random()
    if r < p_name:
        u["name"] = rng.choice(DS_NAMES)
    elif r < p_name + 0.03:
        u["name"] = rng.choice(["", 0])
    if rng.random() < p_extra:
        u["extra"] = [list(rng.choice(IGNORED_KW))]
    return u


def gen_named_case(rng, shape=None, n=None):
    """Dataset calls with a `name`: the remembered iterator is shared by all calls of the same function under
    that name, wherever they stand (fields of one row, sibling templates, a template and its friend / nested
    object, a for_each template's own field), over several iterations — and a for_each over a named dataset
    (top level with 2-3 iterations, below a parent with several rows, below another for_each) starts afresh at
    every evaluation, leaving the iterator remembered under the name alone."""
    n = rng.randint(0, 5) if n is None else n
    src = rng.choice(["csv", "csv", "csv", "sql"])
    ds = gen_dataset(rng, n, ncols=rng.choice([1, 2, 3]), distinct=True,
                     pk=rng.choice(PK_KINDS) if (src == "sql" and rng.random() < 0.4) else None)
    datasets = {"d0": ds}
    nm = rng.choice(DS_NAMES)
    mode = rng.choice(["iterate", "iterate", "shuffle"])
    rep = rng.choice([None, None, True, False])
    tbl = rng.random() < 0.6

    def call(mode_=None, name=nm, repeat="?"):
        u = use("d0", src, mode_ or mode, rep if repeat == "?" else repeat, table=tbl, name=name)
        if rng.random() < 0.05:
            u["extra"] = [list(rng.choice(IGNORED_KW))]
        return u

    shape = shape or rng.choice(["fe_top", "fe_top", "fe_under_count", "fe_under_count", "fe_under_fe",
                                 "fe_and_site", "fe_and_site", "sites_row", "sites_siblings", "sites_friend",
                                 "sites_nested", "sites_fe_own", "fn_differs", "two_names", "falsy"])
    iters = rng.choice([2, 2, 3])
    pas = lambda: pick_pass(rng, ds)
    if shape == "fe_top":
        recipe = [tmpl(1, ["foreach", call()], pas=pas(), nick=rng.random() < 0.2)]
        if rng.random() < 0.4:
            recipe.append(tmpl(2, ["foreach", call()], pas=pas()))      # a second loop over the same name
    elif shape == "fe_under_count":
        fe = tmpl(1, ["foreach", call()], pas=pas())
        m = rng.randint(2, 3)
        recipe = [tmpl(2, ["count", m], friends=[fe])] if rng.random() < 0.5 else [tmpl(2, ["count", m], nested=[fe])]
        iters = rng.choice([1, 2])
    elif shape == "fe_under_fe":
        ds1 = gen_dataset(rng, rng.randint(2, 3), distinct=True)
        datasets["d1"] = ds1
        inner = tmpl(1, ["foreach", call()], pas=pas())
        same = rng.random() < 0.5                       # the outer loop under the same name / its own / none
        outer_u = use("d1", "csv", "iterate", None, name=rng.choice([nm, "outer", None]) if not same else nm)
        outer = tmpl(2, ["foreach", outer_u], pas=pick_pass(rng, ds1))
        if rng.random() < 0.6:
            outer["friends"] = [inner]
        else:
            outer["nested"] = [inner]
        recipe = [outer]
        iters = rng.choice([1, 2])
    elif shape == "fe_and_site":
        # a for_each and a field consumer under the same name and function: the loop must neither use nor move
        # the consumer's iterator
        fe = tmpl(1, ["foreach", call()], pas=pas())
        cons = tmpl(2, ["count", rng.randint(1, n + 2)], sites=[[1, call()]])
        where = rng.choice(["before", "after", "friend_of_fe", "nested_in_fe", "own_field", "fe_friend_of_cons"])
        if where == "before":
            recipe = [cons, fe]
        elif where == "after":
            recipe = [fe, cons]
        elif where == "friend_of_fe":
            fe["friends"] = [cons]
            recipe = [fe]
        elif where == "nested_in_fe":
            fe["nested"] = [cons]
            recipe = [fe]
        elif where == "own_field":
            fe["sites"] = [[1, call()]]
            recipe = [fe]
        else:
            cons["friends"] = [fe]
            recipe = [cons]
        iters = rng.choice([1, 2, 2])
    elif shape == "sites_row":
        k = rng.choice([2, 2, 3])
        recipe = [tmpl(1, ["count", rng.randint(1, n + 2)], sites=[[i + 1, call()] for i in range(k)])]
    elif shape == "sites_siblings":
        recipe = [tmpl(1, ["count", rng.randint(0, 3)], sites=[[1, call()]]),
                  tmpl(2, ["count", rng.randint(1, 3)], sites=[[2, call()]])]
        if rng.random() < 0.3:
            recipe.append(tmpl(3, ["default"], sites=[[3, call()]]))
    elif shape == "sites_friend":
        recipe = [tmpl(1, ["count", rng.randint(1, 3)], sites=[[1, call()]],
                       friends=[tmpl(2, ["count", rng.randint(1, 2)], sites=[[2, call()]])])]
    elif shape == "sites_nested":
        # the nested object's row is written before the row that contains it, but consumes after that row's field
        recipe = [tmpl(1, ["count", rng.randint(1, 3)], sites=[[1, call()]],
                       nested=[tmpl(2, ["count", rng.randint(1, 2)], sites=[[2, call()]])])]
    elif shape == "sites_fe_own":
        ds1 = gen_dataset(rng, rng.randint(1, 3), distinct=True)
        datasets["d1"] = ds1
        recipe = [tmpl(1, ["foreach", use("d1", "csv", "iterate", None)], sites=[[1, call()]],
                       friends=[tmpl(2, ["default"], sites=[[2, call()]])])]
    elif shape == "fn_differs":
        # Dataset.iterate and Dataset.shuffle under one name are two iterators
        recipe = [tmpl(1, ["count", rng.randint(1, n + 2)], sites=[[1, call("iterate")], [2, call("shuffle")]])]
        if rng.random() < 0.5:
            recipe.append(tmpl(2, ["count", rng.randint(1, 2)], sites=[[3, call(rng.choice(["iterate", "shuffle"]))]]))
    elif shape == "two_names":
        other = rng.choice([x for x in DS_NAMES if x != nm])
        recipe = [tmpl(1, ["count", rng.randint(1, n + 2)], sites=[[1, call()], [2, call(name=other)]]),
                  tmpl(2, ["count", rng.randint(1, 2)], sites=[[3, call(name=rng.choice([nm, other]))]])]
    else:
        # a falsy name is no name: each call site keeps its own iterator (the two sites never carry the same
        # falsy value, so the expectation does not depend on how an empty name is told from no name)
        recipe = [tmpl(1, ["count", rng.randint(1, n + 2)], sites=[[1, call(name=rng.choice(["", 0]))], [2, call(name=None)]])]
    return {"kind": "run", "datasets": datasets, "recipe": recipe, "iters": iters, "tick": True, "raw": _raw(rng),
            "shape": "named/" + shape}


def gen_cont_case(rng):
    """a run that continues an earlier run (continuation file): every for_each of the continuing run — named or
    not, top level or below a parent with several rows — again writes one row per record, in order."""
    n = rng.randint(0, 5)
    ds = gen_dataset(rng, n, ncols=rng.choice([1, 2]), distinct=True)
    mode = rng.choice(["iterate", "iterate", "shuffle"])
    name = rng.choice([None, None, rng.choice(DS_NAMES)])
    fe = tmpl(1, ["foreach", use("d0", "csv", mode, rng.choice([None, False]), name=name)], pas=pick_pass(rng, ds),
              nick=rng.random() < 0.2)
    r = rng.random()
    if r < 0.5:
        recipe = [fe]
    elif r < 0.75:
        recipe = [tmpl(2, ["count", rng.randint(1, 3)], friends=[fe])]
    else:
        recipe = [tmpl(2, ["count", rng.randint(1, 2)], nested=[fe])]
    if rng.random() < 0.3:
        recipe.append(tmpl(3, ["foreach", use("d0", "csv", "iterate", None, name=name)]))
    return {"kind": "run", "datasets": {"d0": ds}, "recipe": recipe, "iters": rng.choice([1, 2]), "tick": True,
            "cont": rng.choice([1, 2]), "raw": _raw(rng), "shape": "continuation"}


def gen_interleaved_case(rng, n=None):
    """two or more shuffled consumers of the SAME file whose passes interleave row by row: each consumer must
    still see every record exactly once per cycle (a pass must not be disturbed by another consumer's restart)"""
    n = rng.randint(3, 7) if n is None else n
    ds = gen_dataset(rng, n, ncols=rng.choice([1, 2, 3]), distinct=True)
    src2 = rng.choice(["csv", "csv", "csv", "sql"])
    rep = lambda: rng.choice([None, None, True])
    ua = lambda: use("d0", "csv", "shuffle", rep())
    ub = lambda: use("d0", src2, "shuffle", rep())
    shape = rng.choice(["two_top", "parent_friend", "nested_and_friend", "foreach_friend", "foreach_foreach",
                        "two_sites_row", "foreach_own_site"])
    iters = 1
    if shape == "two_top":
        recipe = [tmpl(1, ["count", rng.randint(1, 2)], sites=[[1, ua()]]),
                  tmpl(2, ["count", rng.randint(1, 3)], sites=[[2, ub()]])]
        iters = rng.randint(n, 2 * n + 2)
    elif shape == "parent_friend":
        recipe = [tmpl(1, ["count", rng.randint(n + 1, 2 * n + 2)], sites=[[1, ua()]],
                       friends=[tmpl(2, ["count", rng.randint(1, 2)], sites=[[2, ub()]])])]
    elif shape == "nested_and_friend":
        recipe = [tmpl(3, ["count", rng.randint(n + 1, 2 * n + 2)],
                       nested=[tmpl(1, ["count", rng.randint(1, 2)], sites=[[1, ua()]])],
                       friends=[tmpl(2, ["default"], sites=[[2, ub()]])])]
    elif shape == "foreach_friend":
        recipe = [tmpl(1, ["foreach", ua()],
                       friends=[tmpl(2, ["count", rng.randint(1, 2)], sites=[[2, ub()]])])]
        iters = rng.randint(2, 3)
    elif shape == "foreach_foreach":
        inner = tmpl(2, ["foreach", ub()])
        recipe = [tmpl(1, ["foreach", ua()], friends=[inner] if rng.random() < 0.6 else [], nested=[])]
        if not recipe[0]["friends"]:
            recipe[0]["nested"] = [inner]
        iters = rng.randint(1, 2)
    elif shape == "two_sites_row":
        recipe = [tmpl(1, ["count", rng.randint(n + 1, 2 * n + 2)], sites=[[1, ua()], [2, ub()]])]
        iters = rng.randint(1, 2)
    else:
        recipe = [tmpl(1, ["foreach", ua()], sites=[[2, ub()]])]
        iters = rng.randint(2, 3)
    return {"kind": "run", "datasets": {"d0": ds}, "recipe": recipe, "iters": iters, "tick": True, "raw": _raw(rng)}


def gen_dyn_case(rng):
    """nested for_each whose dataset (file name, or table of one database) is computed from the record of the
    outer loop, directly or through a field of the enclosing row: every outer record names a DIFFERENT file with
    different content and length.  Outside the Coq model (its templates are static): oracle only."""
    k = rng.randint(2, 4)
    header = rng.sample([h for h in NAMES if h not in ("k1",)], rng.choice([1, 2]))
    what = rng.choice(["file", "file", "table"])
    names = ["e%d" % i for i in range(k)]
    lens = rng.sample(range(0, 6), k)
    datasets = {}
    for nm, ln in zip(names, lens):
        d = gen_dataset(rng, ln, ncols=len(header), distinct=True)
        d["header"] = header
        d["text"] = render_csv(rng, header, d["rows"], False, "minimal", False, True)
        d["bom"] = False
        for r in d["rows"]:
            r[0] = nm + "_" + r[0]
        d["text"] = render_csv(rng, header, d["rows"], False, "minimal", False, True)
        datasets[nm] = d
    order = names[:]
    rng.shuffle(order)
    if rng.random() < 0.4:
        order.append(rng.choice(names))                      # a file can be named twice
    col = "file" if what == "file" else "tbl"
    outer_rows = [["o%d" % i, (nm + ".csv") if what == "file" else nm] for i, nm in enumerate(order)]
    od = {"header": ["k1", col], "rows": outer_rows, "safe": [True, True], "bom": False}
    od["text"] = render_csv(rng, od["header"], outer_rows, False, "minimal", False, True)
    datasets["d1"] = od
    via = rng.choice(["var", "field"])
    place = rng.choice(["friend", "friend", "nested"])
    u = use(names[0], "csv" if what == "file" else "sql", rng.choice(["iterate", "iterate", "shuffle"]), None)
    u["dyn"] = {"outer": 2, "outer_ds": "d1", "col": col, "via": via, "what": what, "cands": names, "place": place}
    inner = tmpl(1, ["foreach", u], pas=[header[0]] if rng.random() < 0.5 else [])
    outer = tmpl(2, ["foreach", use("d1", "csv", "iterate", None)], pas=["k1"],
                 friends=[inner] if place == "friend" else [], nested=[inner] if place == "nested" else [])
    if via == "field":
        outer["extra"] = [["fname", "${{v2.%s}}" % col]]
    iters = rng.choice([1, 2])
    return {"kind": "run", "datasets": datasets, "recipe": [outer], "iters": iters, "tick": iters > 1, "raw": _raw(rng)}


def _rerender(rng, ds):
    ds["text"] = render_csv(rng, ds["header"], ds["rows"], crlf=rng.random() < 0.4,
                            quote=rng.choice(["minimal", "minimal", "all", "random"]),
                            blank=rng.random() < 0.15, final_eol=rng.random() < 0.85)
    h, recs = decode_reference(ds)
    assert h == ds["header"] and recs == ds["rows"], ("generator/decoder mismatch", ds, h, recs)
    return ds


def rd_name(rd, ordinal, child_index, outer_rec):
    """the dataset a per-row call names on the row with this ordinal (id - 1) / child_index / for_each record"""
    if rd["via"] == "var":
        return None if outer_rec is None else outer_rec[rd["col"]]
    k = ordinal if rd["on"] == "id" else child_index
    return rd["cands"][rd["pattern"][k % len(rd["pattern"])]]


def gen_rowdyn_case(rng):
    """Dataset.iterate / Dataset.shuffle as a FIELD whose arguments are computed per row (file name, table of one
    database, database URL — by a formula over id / child_index, through another field of the row, or from the
    record of the row's for_each): every row must get the next record of the dataset ITS arguments name — each
    named dataset is handed out in its own order from its own record 0, wraps at its own n, fails at its own end.
    Outside the Coq recipe model (its templates name their dataset statically): oracle only."""
    k = rng.choice([2, 2, 3])
    what = rng.choice(["file", "file", "table", "db"])
    names = ["e%d" % i for i in range(k)]
    same_header = rng.random() < 0.5
    header0 = rng.sample(NAMES, rng.choice([1, 2, 3]))
    datasets = {}
    for nm in names:
        ln = 0 if rng.random() < 0.06 else rng.choice([1, 2, 2, 3, 3, 4, 5])
        d = gen_dataset(rng, ln, distinct=True, header=header0 if same_header else None)
        for r in d["rows"]:
            r[0] = nm + "_" + r[0]
        datasets[nm] = _rerender(rng, d)
    maxlen = max(len(d["rows"]) for d in datasets.values())
    mode = rng.choice(["iterate", "iterate", "shuffle"])
    repeat = rng.choice([None, None, True, False])
    src = "csv" if what == "file" else "sql"
    via = rng.choice(["formula", "formula", "field", "var"])
    counter = [0]

    def pattern():
        for _ in range(20):
            p = [rng.randrange(k) for _ in range(rng.choice([2, 2, 3, 4, 5]))]
            if len(set(p)) > 1:
                return p
        return [0, 1]

    def site(tid, via_):
        sid = _sid(counter)
        u = use(names[0], src, mode, repeat, table=rng.random() < 0.6)
        rd = {"cands": names, "what": what, "via": via_}
        if via_ == "var":
            rd["col"] = 1
            rd["expr"] = "${{v%d.file}}" % tid
            rd["arg"] = rd["expr"]
        else:
            rd["on"] = rng.choice(["id", "child_index"])
            rd["pattern"] = pattern()
            idx = "(id - 1)" if rd["on"] == "id" else "child_index"
            rd["expr"] = "${{ [%s][%s %% %d] }}" % (", ".join("'%s'" % names[i] for i in rd["pattern"]), idx, len(rd["pattern"]))
            rd["arg"] = "${{a%d}}" % sid if via_ == "field" else rd["expr"]
        u["rowdyn"] = rd
        return [sid, u]

    m = rng.randint(2, 3 * maxlen + 2)
    iters = rng.choice([1, 1, 2])
    if via == "var":
        order = [rng.choice(names) for _ in range(rng.randint(2, 2 * maxlen + 3))]
        od = {"header": ["k1", "file"], "rows": [["o%d" % i, nm] for i, nm in enumerate(order)], "safe": [True, True], "bom": False}
        datasets["d1"] = _rerender(rng, od)
        t = tmpl(2, ["foreach", use("d1", "csv", "iterate", None)], pas=["k1"])
        t["sites"] = [site(2, "var")]
        if rng.random() < 0.3:
            t["sites"].append(site(2, "formula"))
        recipe = [t]
    else:
        cons = tmpl(1, ["count", m], sites=[site(1, via)])
        r = rng.random()
        if r < 0.25:
            cons["sites"].append(site(1, rng.choice(["formula", "field"])))        # two computed call sites in one row
        elif r < 0.4:
            cons["sites"].append([_sid(counter), use(names[-1], src if what != "table" else "csv", rng.choice(["iterate", "shuffle"]), None)])
        placement = rng.choice(["top", "top", "friend", "nested", "fe_friend", "siblings"])
        if placement == "top":
            recipe = [cons]
        elif placement == "friend":
            cons["loop"] = ["count", rng.randint(1, 3)]
            recipe = [tmpl(3, ["count", rng.randint(2, maxlen + 2)], friends=[cons])]
        elif placement == "nested":
            cons["loop"] = ["count", rng.randint(1, 2)]
            recipe = [tmpl(3, ["count", rng.randint(2, maxlen + 2)], nested=[cons])]
        elif placement == "fe_friend":
            d1 = gen_dataset(rng, rng.randint(2, 4), distinct=True)
            datasets["d1"] = d1
            cons["loop"] = ["count", rng.randint(1, 3)]
            recipe = [tmpl(3, ["foreach", use("d1", "csv", "iterate", None)], friends=[cons])]
        else:
            other = tmpl(4, ["count", rng.randint(1, m)], sites=[site(4, rng.choice(["formula", "field"]))])
            recipe = [cons, other]
    return {"kind": "run", "datasets": datasets, "recipe": recipe, "iters": iters, "tick": iters > 1 or rng.random() < 0.3,
            "raw": _raw(rng), "shape": "rowdyn/%s/%s" % (what, via)}


INC_DIRS = ["sub", "inc/deep", "other"]


def gen_include_case(rng, src=None, url=None):
    """one run, several folders: the recipe includes recipe files from other folders and every file reads ITS OWN
    `d0` — the same relative text (`d0.csv`, `sqlite:///d0.db`) means another file, with other records, other n and
    (often) other columns, in every folder.  Templates of included files run first."""
    src = src or rng.choice(["sql", "sql", "csv"])
    url = url or rng.choice(["rel", "rel", "rel", "abs"])
    dirs = rng.sample(INC_DIRS, rng.choice([1, 1, 2])) + [None]
    datasets, recipe = {}, []
    same_header = rng.random() < 0.4
    header0 = rng.sample(NAMES, rng.choice([1, 2, 3]))
    counter = [0]
    for gi, d in enumerate(dirs):
        key = "d0" if d is None else d + "/d0"
        n = rng.choice([0, 1, 2, 2, 3, 4, 5])
        pk = rng.choice(PK_KINDS) if (src == "sql" and rng.random() < 0.3) else None
        ds = gen_dataset(rng, n, distinct=True, pk=pk, header=header0 if same_header else None)
        datasets[key] = ds
        tid = gi + 1
        mode = rng.choice(["iterate", "iterate", "shuffle"])
        tbl = rng.random() < 0.6
        shape = rng.choice(["fe", "fe", "site", "site", "fe_then_site"])
        ts = []
        if shape in ("fe", "fe_then_site"):
            ts.append(tmpl(tid, ["foreach", use(key, src, mode, rng.choice([None, None, False]), table=tbl)],
                           pas=pick_pass(rng, ds)))
        if shape in ("site", "fe_then_site"):
            t = tmpl(tid + 10, ["count", rng.randint(1, 2 * n + 2) if n else rng.randint(0, 1)],
                     sites=[[_sid(counter), use(key, src, mode, rng.choice([None, None, True]), table=tbl)]])
            ts.append(t)
        if d is None and rng.random() < 0.3 and ts:
            ts = [tmpl(tid + 20, ["count", rng.randint(1, 2)], friends=ts)]
        for t in ts:
            if d is not None:
                t["inc"] = d
            recipe.append(t)
    iters = rng.choice([1, 1, 2])
    return {"kind": "run", "datasets": datasets, "recipe": recipe, "iters": iters, "tick": True, "raw": _raw(rng),
            "url": url, "shape": "include/%s/%s" % (src, url)}


def gen_session_case(rng):
    """several runs in ONE process (one worker, one folder tree): between the runs the dataset files are
    regenerated — other records, another n, often other columns; the file is replaced by a new one (rename over
    it), deleted and written again, or rewritten in place — or the next run's recipe lives in another folder and
    says the same relative `d0.csv` / `sqlite:///d0.db`.  Every run must hand out the records that are in the file
    its recipe names at that moment.  Each step is an ordinary case (consumer / for_each / include) and is judged
    by the ordinary oracle; the last step is also compared with the Coq model."""
    src = rng.choice(["sql", "sql", "sql", "csv"])
    url = rng.choice(["rel", "rel", "abs"])
    layout = rng.choice(["same_dir", "same_dir", "two_dirs", "two_dirs_back"])
    k = rng.choice([2, 2, 3])
    same_header = rng.random() < 0.4
    header0 = rng.sample(NAMES, rng.choice([1, 2, 3]))
    steps = []
    for i in range(k):
        r = rng.random()
        hd = header0 if same_header else None
        if r < 0.4:
            st = gen_consumer_case(rng, src=src, header=hd, placement=rng.choice(["top", "top", "friend", "nested"]),
                                   iters=rng.choice([1, 1, 2]))
        elif r < 0.8:
            st = gen_foreach_case(rng, src=src, header=hd, placement=rng.choice(["top", "top", "friend", "nested", "with_children"]))
        else:
            st = gen_include_case(rng, src=src, url=url)
        st["url"] = url
        if layout == "same_dir":
            st["dir"] = "w"
        elif layout == "two_dirs":
            st["dir"] = "w%d" % i
        else:
            st["dir"] = "w%d" % (i % 2)
        st["regen"] = rng.choice(["replace", "replace", "unlink", "inplace"])
        steps.append(st)
    return {"kind": "session", "steps": steps, "shape": "session/%s/%s/%s" % (src, url, layout)}


BIG_SIZES = [499, 500, 501, 1000, 1300]


def gen_big_case(rng, n, src="sql", mode="shuffle", shape="site", cycles=1):
    """a dataset around / beyond 500 records (a page, a fetch buffer), consumed for at least one full cycle"""
    ds = gen_dataset(rng, n, ncols=1, plain=True)
    u = use("d0", src, mode, rng.choice([None, True]) if cycles > 1 or shape == "site" else None, table=rng.random() < 0.5)
    if shape == "site":
        m = cycles * n + rng.randint(0, 9)
        recipe = [tmpl(1, ["count", m], sites=[[1, u]])]
    else:
        recipe = [tmpl(1, ["foreach", u])]
    return {"kind": "run", "datasets": {"d0": ds}, "recipe": recipe, "iters": 1, "tick": False,
            "raw": _raw(rng), "cap": 3 * n + 500}


def big_cases(rng, tier):
    out = []
    if tier == "quick":
        for n in BIG_SIZES:
            out.append(gen_big_case(rng, n, "sql", "shuffle", "site", cycles=1))
        out.append(gen_big_case(rng, 501, "sql", "shuffle", "foreach"))
        out.append(gen_big_case(rng, 1300, "sql", "shuffle", "foreach"))
        out.append(gen_big_case(rng, 1000, "csv", "shuffle", "site"))
        out.append(gen_big_case(rng, 501, "sql", "iterate", "site"))
        out.append(gen_big_case(rng, 1300, "sql", "iterate", "foreach"))
        return out
    for n in BIG_SIZES:
        for src in ("sql", "csv"):
            for mode in ("shuffle", "iterate"):
                out.append(gen_big_case(rng, n, src, mode, "site", cycles=2 if n <= 501 else 1))
                out.append(gen_big_case(rng, n, src, mode, "foreach"))
    return out


def gen_long_case(rng):
    """malformed stream: one line has more cells than the header.  The linear iterator reports it as a
    DataGenError when it reaches that line, the shuffled one when it loads the file.  Outside the model
    (compared by the oracle only): records before the bad line are still handed out faithfully."""
    n = rng.randint(1, 5)
    ds = gen_dataset(rng, n, distinct=True)
    bad = rng.randrange(n)
    ds["rows"][bad] = ds["rows"][bad] + ["extra"]
    ds["rows"] = [[("" if c is None else c) for c in r] for r in ds["rows"]]
    ds["long"] = bad
    ds["text"] = render_csv(rng, ds["header"], ds["rows"], False, "minimal", False, True)
    h, recs = decode_reference(ds)
    assert h == ds["header"] and recs == ds["rows"]
    mode = rng.choice(["iterate", "iterate", "shuffle"])
    if rng.random() < 0.6:
        recipe = [tmpl(1, ["count", rng.randint(0, 2 * n)], sites=[[1, use("d0", "csv", mode, rng.choice([None, False]))]])]
    else:
        recipe = [tmpl(1, ["foreach", use("d0", "csv", mode, None)])]
    return {"kind": "run", "datasets": {"d0": ds}, "recipe": recipe, "iters": 1, "tick": False,
            "raw": [rng.randint(0, 10 ** 6) for _ in range(20)]}


WILD = ["a", "b", "xy", ",", ",", '"', '"', '""', "\n", "\n", "\r\n", "\r", " ", "é", "\ufeff", ",,", '","', '"\n"', "0", "漢"]


def wild_text(rng, k=None):
    k = rng.choice([0, 1, 2, 3, 5, 8, 13, 21, 34]) if k is None else k
    return "".join(rng.choice(WILD) for _ in range(k))


def gen_csv_case(rng):
    """an arbitrary text (not what a CSV writer produces: quotes in bare cells, text after a closing quote,
    unterminated quotes, lone CRs, blank and over-long rows, no header, duplicate header names, a byte order
    mark or U+FEFF anywhere) read by csv.reader and drained through Snowfakery's linear CSV iterator; compared
    with the model's reader (CCsv)"""
    r = rng.random()
    if r < 0.6:
        header = rng.sample(NAMES, rng.choice([1, 2, 2, 3]))
        text = ",".join(header) + rng.choice(["\n", "\r\n", "\r"]) + wild_text(rng)
    else:
        text = wild_text(rng)
    ds = {"text": text, "bom": rng.random() < 0.3, "header": [], "rows": [], "safe": []}
    return {"kind": "csv", "datasets": {"d0": ds}, "recipe": [], "iters": 1, "raw": [], "shape": "wild_csv"}


def gen_wild_case(rng):
    """a wild file with a clean header inside a recipe: for_each / consumers over it get the records the
    reference reader finds (rows longer than the header: oracle only, as in gen_long_case)"""
    for _ in range(50):
        header = rng.sample(NAMES, rng.choice([1, 2, 2, 3]))
        text = ",".join(header) + rng.choice(["\n", "\r\n"]) + wild_text(rng, rng.choice([3, 5, 8, 13, 21]))
        ds = {"text": text, "bom": rng.random() < 0.3, "header": header, "safe": [False] * len(header)}
        rows = reader_rows(ds)
        recs = [r for r in rows[1:] if r != []]
        if len(recs) > 7:
            continue
        bad = [i for i, r in enumerate(recs) if len(r) > len(header)]
        ds["rows"] = [([*r, *([None] * (len(header) - len(r)))] if len(r) <= len(header) else list(r)) for r in recs]
        if bad:
            ds["long"] = bad[0]
        break
    if "rows" not in ds:
        ds["text"] = ",".join(header) + "\n"
        ds["rows"] = []
    n = len(ds["rows"])
    mode = rng.choice(["iterate", "iterate", "shuffle"])
    if rng.random() < 0.5:
        recipe = [tmpl(1, ["foreach", use("d0", "csv", mode, None)])]
    else:
        recipe = [tmpl(1, ["count", rng.randint(0, 2 * n + 1)], sites=[[1, use("d0", "csv", mode, rng.choice([None, False]))]])]
    iters = rng.choice([1, 2])
    return {"kind": "run", "datasets": {"d0": ds}, "recipe": recipe, "iters": iters, "tick": iters > 1,
            "raw": _raw(rng), "shape": "wild_file_in_recipe"}


def boundary_cases(rng):
    out = []
    for n in (0, 1, 2, 3):
        for m in sorted({0, 1, max(n - 1, 0), n, n + 1, 2 * n, 2 * n + 1, 3 * n, 3 * n + 2}):
            for mode in ("iterate", "shuffle"):
                for repeat in (None, False):
                    out.append(gen_consumer_case(rng, n=n, m=m, mode=mode, repeat=repeat, src="csv",
                                                 placement="top", iters=1))
            out.append(gen_consumer_case(rng, n=n, m=m, mode="iterate", repeat=None, src="sql",
                                         placement="top", iters=1))
        out.append(gen_foreach_case(rng, n=n, mode="iterate", src="csv", placement="top", iters=1))
        out.append(gen_foreach_case(rng, n=n, mode="shuffle", src="csv", placement="top", iters=2))
        out.append(gen_foreach_case(rng, n=n, mode="iterate", src="sql", placement="top", iters=1))
        out.append(gen_update_case(rng, n=n))
        for shape in ("fe_top", "fe_under_count", "fe_and_site", "sites_siblings"):
            out.append(gen_named_case(rng, shape=shape, n=n))
    return out


def exhaustive_cases(rng):
    """(n, m) in 0..7 x 0..23 for the linear and the shuffled iterator, repeat on and off"""
    out = []
    for n in range(0, 8):
        for m in range(0, 24):
            for mode, repeat, src in (("iterate", None, "csv"), ("iterate", False, "csv"),
                                      ("shuffle", None, "csv"), ("iterate", None, "sql"),
                                      ("shuffle", False, "csv")):
                out.append(gen_consumer_case(rng, n=n, m=m, mode=mode, repeat=repeat, src=src,
                                             placement=rng.choice(["top", "friend", "nested"]),
                                             iters=rng.choice([1, 1, 2])))
    return out


def generate(rng, tier):
    cases = boundary_cases(rng)
    k = 3 if tier == "quick" else 30
    for _ in range(170 * k):
        cases.append(gen_consumer_case(rng))
    for _ in range(90 * k):
        cases.append(gen_foreach_case(rng))
    for _ in range(30 * k):
        cases.append(gen_scope_case(rng))
    for _ in range(60 * k):
        cases.append(gen_update_case(rng))
    for _ in range(12 * k):
        cases.append(gen_long_case(rng))
    for _ in range(40 * k):
        cases.append(gen_interleaved_case(rng))
    for _ in range(25 * k):
        cases.append(gen_dyn_case(rng))
    for _ in range(70 * k):
        cases.append(gen_named_case(rng))
    for _ in range(15 * k):
        cases.append(gen_cont_case(rng))
    for _ in range(80 * k):
        cases.append(gen_csv_case(rng))
    for _ in range(30 * k):
        cases.append(gen_wild_case(rng))
    for _ in range(50 * k):
        cases.append(gen_rowdyn_case(rng))
    for _ in range(25 * k):
        cases.append(gen_include_case(rng))
    for _ in range(30 * k):
        cases.append(gen_session_case(rng))
    cases.extend(big_cases(rng, tier))
    if tier == "thorough":
        cases.extend(exhaustive_cases(rng))
    # round 5 (appended, so that the cases above stay what they were)
    for _ in range(60 * k):
        cases.append(gen_macro_case(rng))
    for _ in range(60 * k):
        cases.append(gen_columns_case(rng))
    for _ in range(15 * k):
        cases.append(gen_alias_case(rng))
    return cases


# ---------------------------------------------------------------- rendering the recipe
class Ctx(str):
    """the folder of the run (a str, as before) + how datasets are addressed: rel = by relative text
    (`sqlite:///d0.db`, resolved against the folder of the recipe file that says it)"""
    rel = False


def _render_use(u, indent, root):
    pad = " " * indent
    fn = "Dataset.iterate" if u["mode"] == "iterate" else "Dataset.shuffle"
    lines = [f"{pad}{fn}:"]
    dyn = u.get("dyn")
    rd = u.get("rowdyn")
    if rd:
        if rd["what"] == "file":
            lines.append(f"{pad}  dataset: {rd['arg']}.csv")
        elif rd["what"] == "table":
            lines += [f"{pad}  dataset: sqlite:///{root}/multi.db", f"{pad}  table: {rd['arg']}"]
        else:
            lines.append(f"{pad}  dataset: sqlite:///{root}/{rd['arg']}.db")
            if u.get("table"):
                lines.append(f"{pad}  table: t")
    elif dyn:
        expr = "${{v%d.%s}}" % (dyn["outer"], dyn["col"]) if dyn["via"] == "var" else "${{T%d.fname}}" % dyn["outer"]
        if dyn["what"] == "file":
            lines.append(f"{pad}  dataset: {expr}")
        else:
            lines += [f"{pad}  dataset: sqlite:///{root}/multi.db", f"{pad}  table: {expr}"]
    elif u["src"] == "csv":
        lines.append(f"{pad}  dataset: {u.get('_fname') or (os.path.basename(u['ds']) + '.csv')}")
    elif getattr(root, "rel", False):
        lines.append(f"{pad}  dataset: sqlite:///{os.path.basename(u['ds'])}.db")
    else:
        lines.append(f"{pad}  dataset: sqlite:///{root}/{u['ds']}.db")
        if u.get("table"):
            lines.append(f"{pad}  table: t")
    if u["repeat"] is not None:
        lines.append(f"{pad}  repeat: {'True' if u['repeat'] else 'False'}")
    if "name" in u:
        lines.append(f"{pad}  name: {u['name'] if u['name'] != '' else repr('')}")
    for k, v in u.get("extra", []):
        lines.append(f"{pad}  {k}: {v}")
    return lines


def _render_tmpl(t, indent, root, var_override=None):
    pad = " " * indent
    tid = t["tid"]
    lines = [f"{pad}- object: T{t.get('table', tid)}"]
    if t.get("nick"):
        lines.append(f"{pad}  nickname: n{tid}")
    loop = t["loop"]
    var = var_override
    if loop[0] == "count":
        lines.append(f"{pad}  count: {loop[1]}")
    elif loop[0] == "foreach":
        lines += [f"{pad}  for_each:", f"{pad}    var: v{tid}", f"{pad}    value:"]
        lines += _render_use(loop[1], indent + 6, root)
        var = var or f"v{tid}"
    if t.get("include"):
        lines.append(f"{pad}  include: {', '.join(t['include'])}")
    lines.append(f"{pad}  fields:")
    for sid, u in t["sites"]:
        if u.get("macro"):
            continue                      # brought along by `include:` (written in the macro)
        if u.get("rowdyn"):
            lines.append(f"{pad}    a{sid}: {u['rowdyn']['expr']}")      # the dataset this row names (observable)
        if u.get("alias"):
            lines.append(f"{pad}    s{sid}: *{u['alias']}")          # the call written at the anchor, said again
            continue
        lines.append(f"{pad}    s{sid}:" + (f" &{u['anchor']}" if u.get("anchor") else ""))
        lines += _render_use(u, indent + 6, root)
    for fname, expr in t.get("extra", []):
        lines.append(f"{pad}    {fname}: {expr}")
    for ch in t["nested"]:
        if ch.get("macro"):
            continue
        lines.append(f"{pad}    n{ch['tid']}:")
        lines += _render_tmpl(ch, indent + 6, root)
    if var:
        lines.append(f"{pad}    w: ${{{{{var}}}}}")
    lines.append(f"{pad}    ci: ${{{{child_index}}}}")
    if var:
        for j, name in enumerate(t["pass"]):
            lines.append(f"{pad}    p{j}: ${{{{{var}.{name}}}}}")
    own_friends = [f for f in t["friends"] if not f.get("macro")]
    if own_friends:
        lines.append(f"{pad}  friends:")
        for f in own_friends:
            lines += _render_tmpl(f, indent + 4, root)
    return lines


def _render_macro(m, root):
    lines = [f"- macro: {m['name']}"]
    if m.get("include"):
        lines.append(f"  include: {', '.join(m['include'])}")
    if m["sites"] or m["nested"]:
        lines.append("  fields:")
    for sid, u in m["sites"]:
        lines.append(f"    s{sid}:")
        lines += _render_use(u, 6, root)
    for ch in m["nested"]:
        lines.append(f"    n{ch['tid']}:")
        lines += _render_tmpl(ch, 6, root)
    if m["friends"]:
        lines.append("  friends:")
        for f in m["friends"]:
            lines += _render_tmpl(f, 4, root)
    return lines


def render_recipe(case, root):
    """{relative file name: text}: recipe.yml and one child.yml per folder named by a top-level template's `inc`"""
    lines = ["- plugin: snowfakery.standard_plugins.datasets.Dataset"]
    if case.get("tick") and case["kind"] == "run":
        lines.append("- object: Tick")
    for m in case.get("macros", []):        # macros are written before the templates that include them
        lines += _render_macro(m, root)
    files = {}
    for t in case["recipe"]:
        inc = t.get("inc")
        if inc:
            if inc not in files:
                files[inc] = []
                lines.append(f"- include_file: {inc}/child.yml")
            files[inc] += _render_tmpl(t, 0, root)
        else:
            lines += _render_tmpl(t, 0, root, var_override="input" if case["kind"] == "update" else None)
    out = {inc + "/child.yml": "\n".join(ls) + "\n" for inc, ls in files.items()}
    out["recipe.yml"] = "\n".join(lines) + "\n"
    return out


# ---------------------------------------------------------------- implementation
def _ser(v):
    res = getattr(v, "__dict__", {}).get("result") if not isinstance(v, (str, int, float, type(None))) else None
    if res is not None and hasattr(res, "items"):
        return {"rec": [[k if isinstance(k, str) else repr(k), x if (x is None or isinstance(x, str)) else {"int": x} if (isinstance(x, int) and not isinstance(x, bool)) else {"other": repr(x)[:40]}]
                        for k, x in res.items()]}
    if v is None or isinstance(v, str) or (isinstance(v, int) and not isinstance(v, bool)):
        return v
    return {"other": type(v).__name__, "text": str(v)[:60]}


def run_impl(case):
    root = tempfile.mkdtemp(prefix="sfv_c17_", dir="/var/tmp")
    try:
        return _run(case, root)
    finally:
        gc.collect()
        shutil.rmtree(root, ignore_errors=True)


def _run_csv(case, root):
    """kind csv: the file read by csv.reader the way Snowfakery opens it, and drained through Snowfakery's linear
    CSV iterator (absent / differently shaped after a refactoring: skipped)"""
    ds = case["datasets"]["d0"]
    path = os.path.join(root, "d0.csv")
    with open(path, "wb") as f:
        f.write(file_bytes(ds))
    out = {}
    with open(path, "r", newline="", encoding="utf-8-sig") as f:
        out["reader_rows"] = list(csv.reader(f))
    try:
        from pathlib import Path
        from snowfakery.standard_plugins.datasets import CSVDatasetLinearIterator
        it = CSVDatasetLinearIterator(Path(path), False)
    except Exception as e:
        out["skip"] = f"{type(e).__name__}: {e}"[:120]
        return out
    recs = []
    looks = []
    try:
        try:
            for r in it:
                res = getattr(r, "result", None)
                if not hasattr(res, "items"):
                    out["skip"] = "record without .result mapping"
                    break
                recs.append([[k, v] for k, v in res.items()])
                if case.get("probes"):
                    row = []
                    for p_ in case["probes"]:            # what ${{row.<name>}} evaluates: attribute access
                        try:
                            v = getattr(r, p_)
                            row.append(v if (v is None or isinstance(v, str)) else {"other": repr(v)[:40]})
                        except Exception as e:             # no such column: KeyError / AttributeError / a DataGenError
                            if isinstance(e, (KeyError, AttributeError)) or C.canon_exc(e) == "DGE":
                                row.append({"missing": 1})
                            else:
                                row.append({"other": type(e).__name__})
                    looks.append(row)
                if len(recs) > 500:
                    break
        except BaseException as e:
            out["err"] = C.canon_exc(e)
            out["msg"] = str(e)[:120]
    finally:
        try:
            it.close()
        except Exception:
            pass
    out["records"] = recs
    if case.get("probes"):
        out["lookups"] = looks
    return out


def _put_bytes(path, data, regen):
    """put a file in place: written afresh / a new file renamed over the old one / the old one deleted first /
    the old one rewritten in place"""
    os.makedirs(os.path.dirname(path), exist_ok=True)
    if regen == "replace" and os.path.exists(path):
        with open(path + ".new", "wb") as f:
            f.write(data)
        os.replace(path + ".new", path)
        return
    if regen == "unlink" and os.path.exists(path):
        os.remove(path)
    with open(path, "wb") as f:
        f.write(data)


def _put_db(path, tables, regen):
    """tables: [(table name, ddl or None, header, rows, check rows or None)]"""
    os.makedirs(os.path.dirname(path), exist_ok=True)
    target = path
    if os.path.exists(path):
        if regen == "replace":
            target = path + ".new"
            if os.path.exists(target):
                os.remove(target)
        elif regen == "unlink":
            os.remove(path)
    con = sqlite3.connect(target, timeout=0.3)
    if target == path:
        try:
            for (old,) in list(con.execute("select name from sqlite_master where type='table' and name not like 'sqlite%'")):
                con.execute('drop table "%s"' % old)
            con.commit()
        except sqlite3.OperationalError:
            # "database is locked": an iterator of the previous run still holds its read cursor (a consumer that
            # stopped in mid-table is closed only when it is collected) - regenerate by renaming a new file over it
            con.close()
            return _put_db(path, tables, "replace")
    for name, ddl, header, rows, check in tables:
        con.execute(ddl or 'create table "%s" (%s)' % (name, ", ".join('"%s" TEXT' % h for h in header)))
        con.executemany('insert into "%s" values (%s)' % (name, ",".join("?" * len(header))), rows)
        con.commit()
        if check is not None:
            got = [[(c if (c is None or isinstance(c, str)) else str(c)) for c in r] for r in con.execute('select * from "%s"' % name)]
            assert got == check, "sqlite3 reads the table in another order than at generation time"
    con.commit()
    con.close()
    if target != path:
        os.replace(target, path)


def _materialise(case, base, regen="fresh"):
    uses = all_uses(case)
    sql_used = {u["ds"] for _, _, _, u, _ in uses if u["src"] == "sql"}
    for t, _ in walk(case["recipe"]):        # update mode: the template's own for_each too
        if t["loop"][0] == "foreach" and t["loop"][1]["src"] == "sql":
            sql_used.add(t["loop"][1]["ds"])
    for _k, _t, _s, u, _b in uses:
        if u.get("rowdyn", {}).get("what") == "db":
            sql_used.update(u["rowdyn"]["cands"])
    for name, ds in case["datasets"].items():
        _put_bytes(os.path.join(base, csv_name(case, name) if "/" not in name else name + ".csv"), file_bytes(ds), regen)
        if name in sql_used:
            _put_db(os.path.join(base, name + ".db"), [("t", ds.get("ddl"), ds["header"], ds["rows"], ds.get("sql_rows"))], regen)
    multi = sorted({c for _k, _t, _s, u, _b in uses if (u.get("dyn") or u.get("rowdyn") or {}).get("what") == "table"
                    for c in (u.get("dyn") or u.get("rowdyn"))["cands"]})
    if multi:
        _put_db(os.path.join(base, "multi.db"),
                [(name, None, case["datasets"][name]["header"], case["datasets"][name]["rows"], None) for name in multi], regen)
    ctx = Ctx(base)
    ctx.rel = case.get("url") == "rel"
    for u in [u for _k, _t, _s, u, _b in uses] + list(macro_uses(case)):
        u.pop("_fname", None)
        if "/" not in u["ds"] and case["datasets"][u["ds"]].get("fname"):
            u["_fname"] = case["datasets"][u["ds"]]["fname"]
    for rel, text in render_recipe(case, ctx).items():
        _put_bytes(os.path.join(base, rel), text.encode("utf-8"), "fresh")
    return os.path.join(base, "recipe.yml")


def _update_input(case, base, opened):
    """the update input file under the name the case gives it, passed as str / Path / open file / text stream"""
    import pathlib
    ds = case["datasets"][case["input"]]
    path = os.path.join(base, case.get("input_name") or (case["input"] + ".csv"))
    if not os.path.exists(path):
        with open(path, "wb") as f:
            f.write(file_bytes(ds))
    how = case.get("input_as", "str")
    if how == "path":
        return pathlib.Path(path)
    if how == "stream_file":
        f = open(path, "r", newline="", encoding="utf-8-sig")      # opened the way the csv module asks for
        opened.append(f)
        return f
    if how == "stream_mem":
        return io.StringIO(file_bytes(ds).decode("utf-8-sig"), newline="")
    return path


def _execute(case, base, recipe_path):
    from snowfakery import generate_data
    kw = {}
    opened = []
    if case["kind"] == "update":
        kw["update_input_file"] = _update_input(case, base, opened)
        kw["update_passthrough_fields"] = list(case["passthrough"])
    elif case.get("tick"):
        kw["target_number"] = ("Tick", case["iters"])
    if case.get("target"):
        kw["target_number"] = ("T%d" % case["recipe"][0]["tid"], case["target"])
    del _ROWS[:]
    _CAP[0] = case.get("cap", 1500)
    out = {}
    raw = case["raw"] or [0]
    with injected_randbelow(chooser=lambda n, idx: raw[idx % len(raw)] % n) as rec:   # reproducible, never runs dry
        try:
            if case.get("cont"):
                # an earlier run of the same recipe leaves a continuation file; the observed run continues it
                cont_path = os.path.join(base, "cont.yml")
                generate_data(recipe_path, output_format="harness.c17.CaptureStream",
                              target_number=("Tick", case["cont"]), generate_continuation_file=cont_path)
                out["prelude_rows"] = len(_ROWS)
                del _ROWS[:]
                kw["continuation_file"] = cont_path
            generate_data(recipe_path, output_format="harness.c17.CaptureStream", **kw)
        except BaseException as e:
            out["err"] = C.canon_exc(e)
            out["msg"] = str(e)[:160]
    for f in opened:
        try:
            f.close()
        except Exception:
            pass
    out["rows"] = [[t, {k: _ser(v) for k, v in r.items()}] for t, r in _ROWS if t != "Tick"]
    out["draws"] = list(rec.values)
    out["widths"] = list(rec.widths)
    del _ROWS[:]
    return out


def _run(case, root):
    if case["kind"] == "csv":
        return _run_csv(case, root)
    if case["kind"] == "session":
        # several runs in this one process, over one folder tree
        outs = []
        for step in case["steps"]:
            base = os.path.join(root, step.get("dir", ""))
            outs.append(_execute(step, base, _materialise(step, base, step.get("regen", "replace"))))
        return {"steps": outs}
    return _execute(case, root, _materialise(case, root))


# ---------------------------------------------------------------- decoding the observation
class Undecodable(Exception):
    pass


def _align(recpairs, ds):
    """[[key, value], ...] -> cells in header order (exact key match, every key exactly once)"""
    header = ds["header"]
    if ds.get("pk") in ("int", "integer"):       # the key column is numeric in the SQL table, text in the CSV file
        recpairs = [[k, (str(v["int"]) if (k == header[0] and isinstance(v, dict) and "int" in v) else v)] for k, v in recpairs]
    keys = [k for k, _ in recpairs]
    if sorted(keys) != sorted(header):
        lost = [h for h in header if h not in keys]
        raise Undecodable(f"record keys {keys} differ from the header {header}" +
                          (f": column(s) {lost} of the dataset did not arrive" if lost else ""))
    d = dict((k, v) for k, v in recpairs)
    cells = [d[h] for h in header]
    for c in cells:
        if not (c is None or isinstance(c, str)):
            raise Undecodable(f"cell of unexpected type: {c}")
    return cells


def _attribute(obs, tinfo):
    """the template every written row belongs to.  A table name stands for one template, except for templates
    that a macro brings along into several including templates: their rows (same table name) belong to the
    inclusion whose row is written next (nested object: written before the row that contains it) / was written
    last (friend: written after its row)."""
    by_table = {}
    for t in tinfo.values():
        by_table.setdefault("T%d" % t.get("table", t["tid"]), []).append(t)
    owners = {t["owner"] for t in tinfo.values() if "owner" in t}
    out = [None] * len(obs["rows"])
    last_owner, pending = None, []
    for i, (table, _vals) in enumerate(obs["rows"]):
        cands = by_table.get(table)
        if not cands:
            raise Undecodable(f"row of unknown table {table}")
        if len(cands) == 1:
            t = cands[0]
        elif cands[0].get("mrel") == "friend":
            t = next((c for c in cands if c.get("owner") == last_owner), None)
            if t is None:
                raise Undecodable(f"row of {table} (friend brought along by a macro) not behind a row of an including template")
        else:
            pending.append(i)
            continue
        out[i] = t
        if t["tid"] in owners:
            last_owner = t["tid"]
            still = []
            for j in pending:
                c = next((c for c in by_table[obs["rows"][j][0]] if c.get("owner") == t["tid"]), None)
                if c is None:
                    still.append(j)
                else:
                    out[j] = c
            pending = still
    for j in pending:
        if not obs.get("err"):
            raise Undecodable(f"row of {obs['rows'][j][0]} (nested object brought along by a macro) without a row of an including template")
        out[j] = by_table[obs["rows"][j][0]][0]
    return out


def decode(case, obs):
    """rows of the observation as dicts {tid, fe, ci, cons: [(sid, cells)], pas: [text]}"""
    top, _ = effective_top(case)
    tinfo = {t["tid"]: t for t, _ in walk(top or case["recipe"])}
    rows = []
    for (table, vals), t in zip(obs["rows"], _attribute(obs, tinfo)):
        row = {"tid": t["tid"], "fe": None, "cons": [], "pas": [], "names": {}}
        try:
            row["ci"] = int(str(vals.get("ci")))
        except ValueError:
            raise Undecodable(f"child_index is {vals.get('ci')!r}")
        if t["loop"][0] == "foreach":
            fds = case["datasets"][t["loop"][1]["ds"]]
            w = vals.get("w")
            try:
                d = ast.literal_eval(w)
                row["fe"] = _align([[k, ({"int": v} if (isinstance(v, int) and not isinstance(v, bool)) else v)]
                                    for k, v in d.items()], fds)
            except Undecodable:
                raise
            except Exception:
                row["fe"] = "unavailable"      # str(PluginResult) no longer a dict literal: skip raw comparison
            n_own = len(t["pass"]) - (len(case["passthrough"]) if (case["kind"] == "update" and top and t is top[0]) else 0)
            for j, name in enumerate(t["pass"]):
                v = vals.get(f"p{j}") if j < n_own else vals.get(name)   # pass-through fields carry their own name
                if isinstance(v, dict):
                    raise Undecodable(f"projected column {name} is {v}")
                row["pas"].append(str(v))
        for sid, u in t["sites"]:
            v = vals.get(u.get("fld") or f"s{sid}")
            if not (isinstance(v, dict) and "rec" in v):
                raise Undecodable(f"field s{sid} is not a dataset record: {v!r}")
            dsname = u["ds"]
            if u.get("rowdyn"):
                dsname = vals.get(f"a{sid}")
                if dsname not in u["rowdyn"]["cands"]:
                    raise Undecodable(f"field a{sid} (the dataset the row names) is {dsname!r}")
                row["names"][sid] = dsname
            row["cons"].append((sid, _align(v["rec"], case["datasets"][dsname])))
        rows.append(row)
    return rows


# ---------------------------------------------------------------- model side
def c_cell(c):
    return "None" if c is None else "(Some " + C.clist(C.cz(ord(ch)) for ch in c) + ")"


def c_rec(r):
    return C.clist(c_cell(c) for c in r)


def c_text(s):
    return C.clist(C.cz(ord(ch)) for ch in s)


def name_ids(case):
    """names used in the recipe -> the numbers that stand for them in the model"""
    names = sorted({str(u["name"]) for _k, _t, _s, u, _b in all_uses(case) if u.get("name")})
    return {nm: i + 1 for i, nm in enumerate(names)}


def c_use(case, u):
    mode = "Linear" if u["mode"] == "iterate" else "Shuffled"
    nm = "None" if not u.get("name") else f"(Some {C.cnat(name_ids(case)[str(u['name'])])})"
    return f"(mkDs {C.clist(c_rec(r) for r in data_of(case, u))} {mode} {C.cbool(u['repeat'] is not False)} {nm})"


def c_key(case, sid, u):
    if u.get("name"):
        mode = "Linear" if u["mode"] == "iterate" else "Shuffled"
        return f"(KName {mode} {C.cnat(name_ids(case)[str(u['name'])])})"
    return f"(KSite {C.cnat(sid)})"


def c_tmpl(case, t, update_top=False):
    loop = t["loop"]
    if loop[0] == "default":
        lp = "LDefault"
    elif loop[0] == "count":
        lp = f"(LCount {C.cnat(loop[1])})"
    else:
        lp = f"(LForEach {c_use(case, loop[1])})"
    sites = C.clist(f"({C.cnat(sid)}, {c_use(case, u)})" for sid, u in t["sites"])
    pas = []
    if loop[0] == "foreach":
        pas = [col_index(case, loop[1], name) for name in t["pass"]]
    return (f"(Tmpl {C.cnat(t['tid'])} {lp} {sites} {C.clist(C.cnat(i) for i in pas)} "
            f"{c_tmpls(case, t['nested'])} {c_tmpls(case, t['friends'])})")


def c_tmpls(case, ts):
    out = "TNil"
    for t in reversed(ts):
        out = f"(TCons {c_tmpl(case, t)} {out})"
    return out


def c_row(r, keys):
    cons = C.clist(f"({keys[sid]}, {c_rec(cells)})" for sid, cells in r["cons"])
    pas = C.clist(c_text(p) for p in r["pas"])
    return f"(mkRow {C.cnat(r['tid'])} {C.copt(r['fe'], c_rec)} {C.cz(r['ci'])} {cons} {pas})"


def fy_draws(n, prefix):
    """Fisher-Yates draws (random.shuffle, Python 3.12) that make list(range(n)) start with `prefix`"""
    seen = set(prefix)
    target = list(prefix) + [i for i in range(n) if i not in seen]
    x = list(range(n))
    pos = list(range(n))            # pos[v] = index of v in x
    draws = []
    for i in reversed(range(1, n)):
        j = pos[target[i]]
        draws.append(j)
        a, b2 = x[i], x[j]
        x[i], x[j] = b2, a
        pos[b2], pos[a] = i, j
    assert x == target
    return draws


def _event_values(rows, evs):
    """the records consumed at the given uses (tid, ordinal, sid), None where the row was never written"""
    by_tid = {}
    for r in rows:
        by_tid.setdefault(r["tid"], []).append(r)
    out = []
    for tid, ordinal, sid in evs:
        trows = by_tid.get(tid, [])
        out.append(dict(trows[ordinal]["cons"]).get(sid) if ordinal < len(trows) else None)
    return out


def infer_draws(case, rows):
    """The permutation of every pass of every shuffled iterator is read back from the rows that consumed it and
    turned into the Fisher-Yates draws that produce it; the passes are put in the order in which the recipe starts
    them (spec_run).  SQLite's ORDER BY random() cannot be injected, and for CSV files this keeps the
    comparison independent of how the code obtains its permutation (random.shuffle today).  An iterator shared
    by several call sites (`name`) is read back in the order of its uses; a use whose row was never written
    (the run failed inside that row) is filled with a record the pass has not shown."""
    sp = spec_run(case)
    uses = {}
    for kind, t, sid, u, _b in all_uses(case):
        if u["mode"] == "shuffle" and kind == "foreach":
            uses[("fe", t["tid"])] = (t, u)
    for key, ou in sp.owner.items():
        if ou["mode"] == "shuffle":
            uses[("key", key)] = (None, ou)
    if not uses:
        return []
    groups = {}
    for key, (t, u) in uses.items():
        n = len(data_of(case, u))
        g = []
        if key[0] == "fe":
            for r in (r for r in rows if r["tid"] == t["tid"]):
                if r["ci"] == 0 or not g:
                    g.append([])
                g[-1].append(r["fe"])
        else:
            vals = _event_values(rows, sp.cons.get(key[1], []))
            g = [vals[i:i + n] for i in range(0, len(vals), max(n, 1))]
        groups[key] = g
    draws = []
    maxn = 1
    for key, j in sp.events:
        if key not in uses:
            continue
        t, u = uses[key]
        data = data_of(case, u)
        n = len(data)
        maxn = max(maxn, n)
        where = {}
        for i, d in enumerate(data):
            where.setdefault(tuple(d), []).append(i)
        where = {k: list(reversed(v)) for k, v in where.items()}
        idxs = []
        for v in (groups[key][j] if j < len(groups[key]) else []):
            if v is None:
                idxs.append(None)
                continue
            lst = where.get(tuple(v))
            if not lst:
                return "noperm"
            idxs.append(lst.pop())
        seen = {i for i in idxs if i is not None}
        spare = (i for i in range(n) if i not in seen)
        draws += fy_draws(n, [i if i is not None else next(spare) for i in idxs])
    return draws + [0] * (3 * maxn)


def c_field(f):
    return C.clist(C.cz(ord(ch)) for ch in f)


def c_rows(rows):
    return C.clist(C.clist(c_field(f) for f in r) for r in rows)


def file_text(ds):
    return C.clist(C.cz(ord(ch)) for ch in file_bytes(ds).decode("utf-8"))


def c_file(ds):
    """the file's text, what csv.reader returns for it, and (no over-long row) its header and records"""
    rows = reader_rows(ds)
    recs = "None"
    if "long" not in ds:
        h = "None" if not rows else f"(Some {C.clist(c_field(f) for f in rows[0])})"
        recs = f"(Some ({h}, {C.clist(c_rec(r) for r in ds['rows'])}))"
    return f"(mkFile {file_text(ds)} {c_rows(rows)} {recs})"


def c_files(case):
    used = sorted({u["ds"] for _k, _t, _s, u, _b in all_uses(case) if u["src"] == "csv" and not u.get("dyn")})
    if case["kind"] == "update":
        used = sorted(set(used) | {case["input"]})
    return C.clist(c_file(case["datasets"][name]) for name in used)


def coq_rec_case(case, obs):
    """CRec: the records of the file (reference reader) turned into the model's case-insensitive record, names
    folded by Python's str.lower; expected = the items and look-ups the implementation's records gave"""
    rows = reader_rows(case["datasets"]["d0"])
    header, want, failed = dict_records(rows)
    if failed or not header or not distinct_columns(header) or obs.get("err") or len(obs["records"]) != len(want):
        return None
    exp = []
    for rec, row in zip(obs["records"], obs["lookups"]):
        if not all(isinstance(k, str) and (v is None or isinstance(v, str)) for k, v in rec):
            return None
        if not all(v is None or isinstance(v, str) or v == {"missing": 1} for v in row):
            return None
        items = C.clist(f"({c_text(k)}, {c_cell(v)})" for k, v in rec)
        looks = C.clist("None" if isinstance(v, dict) else f"(Some {c_cell(v)})" for v in row)
        exp.append(f"({items}, {looks})")
    hd = C.clist(f"({c_text(h.lower())}, {c_text(h)})" for h in header)
    recs = C.clist(c_rec([v for _k, v in r]) for r in want)
    return f"CRec {hd} {recs} {C.clist(c_text(p_.lower()) for p_ in case['probes'])} {C.clist(exp)}"


def coq_csv_case(case, obs):
    if case.get("probes") and "lookups" in obs and "records" in obs and not obs.get("skip"):
        return coq_rec_case(case, obs)
    ds = case["datasets"]["d0"]
    rows = reader_rows(ds)
    recs = "None"
    header = rows[0] if rows else []
    if not obs.get("skip") and "records" in obs and len(set(header)) == len(header) and obs.get("err") in (None, "DGE"):
        got = []
        for r in obs["records"]:
            keys = [k for k, _ in r]
            if keys != header or not all(v is None or isinstance(v, str) for _, v in r):
                return None          # not a record in header order: reported by the oracle
            got.append([v for _, v in r])
        recs = f"(Some ({C.clist(c_rec(r) for r in got)}, {C.cbool(obs.get('err') == 'DGE')}))"
    return f"CCsv {file_text(ds)} {c_rows(rows)} {recs}"


def coq_args_case(case, obs):
    """CArgs: the unnamed Dataset.iterate field evaluations of the run in the order they happen (call site, the
    dataset the rendered arguments name, repeat) and the records of the rows that were written"""
    err = obs.get("err")
    if err not in (None, "DGE"):
        return None
    try:
        rows = decode(case, obs)
    except Undecodable:
        return None
    sp = spec_run(case)
    if not sp.calls:
        return None
    names = sorted(case["datasets"])
    vals = _event_values(rows, [(tid, ordinal, sid) for sid, _ds, _rp, tid, ordinal in sp.calls])
    exp = []
    for v in vals:
        if v is None:
            break
        exp.append(v)
    # a call names its dataset on the row itself (field a<sid>): take the name the ROW gave where it was written
    calls = []
    by_tid = {}
    for r in rows:
        by_tid.setdefault(r["tid"], []).append(r)
    for sid, dsname, rp, tid, ordinal in sp.calls:
        trows = by_tid.get(tid, [])
        if ordinal < len(trows) and sid in trows[ordinal]["names"]:
            dsname = trows[ordinal]["names"][sid]
        calls.append(f"({C.cnat(sid)}, {C.cnat(names.index(dsname))}, {C.cbool(rp)})")
    tbl = C.clist(C.clist(c_rec(r) for r in case["datasets"][nm]["rows"]) for nm in names)
    e = "None" if err is None else f"(Some {C.cerr(err)})"
    return f"CArgs {tbl} {C.clist(calls)} {C.clist(c_rec(r) for r in exp)} {e}"


def coq_case(case, obs):
    if case["kind"] == "csv":
        return coq_csv_case(case, obs)
    if case["kind"] == "session":
        # the run that has the longest history behind it is compared with the model
        if len(obs.get("steps") or []) != len(case["steps"]):
            return None
        return coq_case(case["steps"][-1], obs["steps"][-1])
    if extra_rejected(case, obs):
        return None
    if any("long" in ds for ds in case["datasets"].values()):
        return None                 # malformed file: outside the model, oracle only
    if any(u.get("rowdyn") for _k, _t, _s, u, _b in all_uses(case)):
        return coq_args_case(case, obs)     # arguments computed per row: the model's argument-keyed memo table
    if any(u.get("dyn") for _k, _t, _s, u, _b in all_uses(case)):
        return None                 # dataset name computed at run time: the model's templates are static
    try:
        rows = decode(case, obs)
    except Undecodable:
        return None                 # reported by the oracle; nothing representable to compare
    if any(r["fe"] == "unavailable" for r in rows):
        return None
    err = obs.get("err")
    if err not in (None, "DGE"):
        return None                 # a crash / runaway loop: reported by the oracle, the model only knows DGE
    orc = infer_draws(case, rows)
    if orc == "noperm":
        orc = [0] * 64              # the oracle reports it; the model will disagree as well
    top, _ = effective_top(case)
    tids = sorted({t["tid"] for t, _ in walk(case["recipe"])})
    e = "None" if err is None else f"(Some {C.cerr(err)})"
    keys = {sid: c_key(case, sid, u) for kind, _t, sid, u, _b in all_uses(case) if kind == "site"}
    exp = C.clist(c_row(r, keys) for r in rows)
    orc_t = C.clist(C.cz(v) for v in orc)
    tids_t = C.clist(C.cnat(t) for t in tids)
    if case["kind"] == "update":
        inp = C.clist(c_rec(r) for r in case["datasets"][case["input"]]["rows"])
        pt = C.clist(C.cnat(col_index(case, use(case["input"]), name)) for name in case["passthrough"])
        return f"CUpdate {c_files(case)} {c_tmpls(case, case['recipe'])} {inp} {pt} {orc_t} {tids_t} {exp} {e}"
    return f"CRun {c_files(case)} {C.cnat(case['iters'])} {c_tmpls(case, case['recipe'])} {orc_t} {tids_t} {exp} {e}"


# ---------------------------------------------------------------- property oracle (implementation only)
class _SpecStop(Exception):
    pass


class Spec:
    """what the property prescribes for a case (spec_run)"""
    __slots__ = ("counts", "must_fail", "events", "cons", "owner", "sharers", "calls")

    def __iter__(self):                 # counts, must_fail, events = spec_run(case)
        return iter((self.counts, self.must_fail, self.events))

    def __getitem__(self, i):
        return (self.counts, self.must_fail, self.events)[i]


def spec_run(case):
    """What the property prescribes: rows per template, whether the run must end in an error, and the order
    in which the shuffled uses start their passes (("key", state key) / ("fe", tid), pass number).
    Every remembered iterator — one per unnamed call site, one per (function, name) for named calls — hands out
    record k mod n on its k-th use, whichever call site asks; a repeat: False iterator fails on use n+1; an empty
    dataset fails on the first use; a for_each (named or not) expands once per record at every evaluation and
    neither uses nor disturbs a remembered iterator.
    cons[key] = the uses of that iterator in the order they happen: (tid, ordinal of the consuming row among the
    rows of its template, sid); owner[key] = the call that created it (its arguments count)."""
    sp = Spec()
    top, why = effective_top(case)
    counts = Counter()
    events = []
    sp.counts, sp.must_fail, sp.events, sp.cons, sp.owner, sp.sharers = counts, True, events, {}, {}, {}
    sp.calls = []        # every evaluation of an unnamed Dataset.iterate field, in order: (sid, dataset, repeat, tid, ordinal)
    if top is None:
        return sp
    for kind, t, sid, u, _b in all_uses(case):
        if kind == "site":
            sp.sharers.setdefault(key_of(sid, u), []).append(sid)
    used = Counter()
    passes = Counter()
    cur = {}

    def start(key, u):
        if u["mode"] == "shuffle":
            events.append((key, passes[key]))
            passes[key] += 1

    def gen(t):
        loop = t["loop"]
        fe_bad = None
        if loop[0] == "foreach":
            start(("fe", t["tid"]), loop[1])
            fe_data = data_of(case, loop[1], cur)
            reps = len(fe_data)
            fe_bad = case["datasets"][loop[1]["ds"]].get("long")
            if fe_bad is not None and loop[1]["mode"] == "shuffle":
                raise _SpecStop()
        else:
            reps = 1 if loop[0] == "default" else loop[1]
        for i in range(reps):
            if fe_bad is not None and i == fe_bad:
                raise _SpecStop()
            if loop[0] == "foreach" and loop[1]["mode"] == "iterate":
                cur[t["tid"]] = fe_data[i]
            for sid, u in t["sites"]:
                key = key_of(sid, u)
                if u.get("rowdyn"):
                    # arguments computed per row: one remembered iterator per call site AND rendered arguments
                    nm = rd_name(u["rowdyn"], counts[t["tid"]], i, cur.get(t["tid"]))
                    if nm not in case["datasets"]:
                        raise _SpecStop()
                    key = key + "/" + nm
                    u = dict(u, ds=nm)
                ou = sp.owner.setdefault(key, u)         # the state is made by whoever asks first
                n = len(data_of(case, ou))
                k = used[key]
                if not u.get("name") and u["mode"] == "iterate":
                    sp.calls.append((sid, u["ds"], u["repeat"] is not False, t["tid"], counts[t["tid"]]))
                if k == 0 or (n > 0 and k % n == 0 and ou["repeat"] is not False):
                    start(("key", key), ou)              # created at its first use, restarted after every n
                if n == 0 or (ou["repeat"] is False and k >= n):
                    raise _SpecStop()
                bad = case["datasets"][ou["ds"]].get("long")
                if bad is not None and (ou["mode"] == "shuffle" or k % n == bad):
                    raise _SpecStop()
                sp.cons.setdefault(key, []).append((t["tid"], counts[t["tid"]], sid))
                used[key] += 1
            for ch in t["nested"]:
                gen(ch)
            if loop[0] == "foreach":
                hdr = case["datasets"][loop[1]["ds"]]["header"]
                if any(col_index(case, loop[1], name) >= len(hdr) for name in t["pass"]):
                    raise _SpecStop()
            counts[t["tid"]] += 1
            for f in t["friends"]:
                gen(f)

    try:
        for _ in range(case["iters"]):
            for t in top:
                gen(t)
    except _SpecStop:
        return sp
    if case["kind"] == "update" and case.get("target") and counts[top[0]["tid"]] < case["target"]:
        # update mode reads its input once (one shared non-repeating iterator): a second iteration finds it
        # used up, writes nothing, and the run must stop with an error, never start the file again
        sp.must_fail = "target"
        return sp
    sp.must_fail = False
    return sp


def spec_counts(case):
    counts, must_fail, _ = spec_run(case)
    return counts, must_fail


def _render(c):
    return "None" if c is None else c


def _oracle_dyn(case, rows, t, u, err):
    """inner for_each whose dataset is named by the outer record: the rows written for outer record r must be the
    records of the file / table that r names, in order (or each once), child_index 0..n-1"""
    dyn = u["dyn"]
    segs, pending = [], []
    for r in rows:
        if r["tid"] == t["tid"]:
            if dyn["place"] == "friend":
                if not segs:
                    return f"for_each: T{t['tid']} wrote a row before any row of its parent"
                segs[-1][1].append(r)
            else:
                pending.append(r)
        elif r["tid"] == dyn["outer"]:
            segs.append((r, pending if dyn["place"] == "nested" else []))
            pending = []
    if pending and not err:
        return f"for_each: rows of T{t['tid']} without a parent row"
    for si, (orow, inner) in enumerate(segs):
        if orow["fe"] in (None, "unavailable"):
            continue
        data = data_of(case, u, {dyn["outer"]: orow["fe"]})
        n = len(data)
        last = si == len(segs) - 1
        if [r["ci"] for r in inner] != list(range(len(inner))):
            return f"for_each: child_index sequence of T{t['tid']} under {orow['fe']} is {[r['ci'] for r in inner]}"
        if len(inner) > n or (len(inner) < n and not (last and err)):
            return f"for_each: T{t['tid']} wrote {len(inner)} rows under {orow['fe']}, whose dataset has {n} records"
        fes = [r["fe"] for r in inner]
        if any(f == "unavailable" for f in fes):
            continue
        if u["mode"] == "iterate" and fes != data[:len(fes)]:
            return f"for_each: under {orow['fe']} T{t['tid']} saw {fes}, the dataset named there has {data}"
        if u["mode"] == "shuffle" and (Counter(map(tuple, fes)) - Counter(map(tuple, data))):
            return f"for_each: under {orow['fe']} T{t['tid']} (shuffled) saw {fes}, the dataset named there has {data}"
        for r in inner:
            for name, got in zip(t["pass"], r["pas"]):
                ci = col_index(case, u, name)
                if ci >= len(r["fe"]) or got != _render(r["fe"][ci]):
                    return f"for_each: column {name} of {r['fe']} arrived as {got!r}"
    return None


def oracle_csv(case, obs):
    """the linear CSV iterator delivers what csv.DictReader finds in the file: the non-blank rows after the
    first row, in order, every cell intact, short rows filled with None — up to a row that is longer than the
    header, where it raises a DataGenError (never a silent truncation / shift)"""
    if obs.get("skip") or "records" not in obs:
        return None
    ds = case["datasets"]["d0"]
    rows = reader_rows(ds)
    if obs.get("reader_rows") != rows:
        return f"record: csv.reader over the file gave {obs.get('reader_rows')}, over the same text in memory {rows}"
    header, want, failed = dict_records(rows)
    err = obs.get("err")
    if err not in (None, "DGE"):
        return f"outcome: reading the file ended with {err} ({obs.get('msg', '')[:80]})"
    if obs["records"] != want:
        return f"record: the iterator delivered {obs['records']}, the file holds {want}"
    if failed != (err == "DGE"):
        return f"outcome: over-long row present: {failed}, DataGenError raised: {err == 'DGE'}"
    if case.get("probes") and "lookups" in obs and header and distinct_columns(header):
        # every column intact: a name gives the value of THE column it spells (up to case), else nothing
        for i, (rec, row) in enumerate(zip(want, obs["lookups"])):
            for p_, got in zip(case["probes"], row):
                hit = [v for k, v in rec if k.lower() == p_.lower()]
                exp = hit[0] if hit else {"missing": 1}
                if got != exp:
                    return f"record: column {p_!r} of record {i} {rec} is {got!r}, the file has {exp!r}"
    return None


def extra_rejected(case, obs):
    """a keyword the plugin does not know (iteration_mode, ...) must not change the iteration IF it is accepted;
    an implementation that rejects unknown keywords outright (error before the call handed out anything) is not
    C17's business"""
    if not obs.get("err"):
        return False
    ex = [(k, t, sid) for k, t, sid, u, _b in all_uses(case) if u.get("extra")]
    if not ex:
        return False
    tids = {t["tid"] for _k, t, _s in ex}
    return not any(int(tab[1:]) in tids for tab, _ in obs.get("rows", []) if tab[1:].isdigit())


def _check_draws(vals, data, u):
    """the successive records one remembered iterator handed out vs. its dataset"""
    n = len(data)
    for k, v in enumerate(vals):
        if n == 0:
            return f"a record was handed out from an empty dataset: {v}"
        if u["repeat"] is False and k >= n:
            return f"silent reuse: draw {k + 1} from a non-repeating dataset of {n} records returned {v}"
        if u["mode"] == "iterate" and v != data[k % n]:
            return f"draw {k} (0-based) of an {n}-record dataset is {v}, expected record {k % n} = {data[k % n]}"
    if u["mode"] == "shuffle" and n > 0:
        want = Counter(tuple(d) for d in data)
        for b in range(0, len(vals), n):
            block = Counter(tuple(v) for v in vals[b:b + n])
            if (len(vals) - b >= n and block != want) or (block - want):
                return f"draws {b}..{b + n - 1} of a shuffled {n}-record dataset are not a permutation of it: {vals[b:b + n]}"
    return None


def oracle(case, obs):
    if case["kind"] == "csv":
        return oracle_csv(case, obs)
    if case["kind"] == "session":
        steps_obs = obs.get("steps") or []
        for i, (st, o) in enumerate(zip(case["steps"], steps_obs)):
            msg = oracle(st, o)
            if msg:
                kind, _, rest = msg.partition(":")
                return f"{kind}: run {i + 1} of {len(case['steps'])} in one process ({st.get('regen')}, folder {st.get('dir')}):{rest}"
        return None
    if extra_rejected(case, obs):
        return None
    for name, ds in case["datasets"].items():
        h, recs = decode_reference(ds)
        if h != ds["header"] or recs != ds["rows"]:
            raise AssertionError(f"reference decoder disagrees with the generator on {name}")
    err = obs.get("err")
    sp = spec_run(case)
    counts, must_fail, _ev = sp
    if err == "RuntimeError" and must_fail == "target":
        err = "DGE"       # "... At this rate we will never hit our target": the input is used up, the run stops with an error
    if err is not None and err != "DGE":
        return f"outcome: the run ended with {err} ({obs.get('msg', '')[:80]}) instead of rows or a DataGenError"
    try:
        rows = decode(case, obs)
    except Undecodable as e:
        return f"record: {e}"
    top, _ = effective_top(case)
    uses = all_uses(case)
    for kind, t, sid, u, rc in uses:
        if u.get("dyn"):
            msg = _oracle_dyn(case, rows, t, u, err)
            if msg:
                return msg
            continue
        data = data_of(case, u)
        n = len(data)
        trows = [r for r in rows if r["tid"] == t["tid"]]
        if kind == "site" and len(sp.sharers.get(key_of(sid, u), [])) > 1:
            continue                     # an iterator shared through `name`: checked per iterator below
        if kind == "site" and u.get("rowdyn"):
            # arguments computed per row: the rows that name one dataset get ITS records 0,1,..,n-1,0,.. in their
            # order (each once per n for shuffle), whatever the rows in between name
            per = {}
            for r in trows:
                per.setdefault(r["names"][sid], []).append(dict(r["cons"])[sid])
            for nm, vals in per.items():
                msg = _check_draws(vals, data_of(case, dict(u, ds=nm)), u)
                if msg:
                    return (f"iterate: call site s{sid} of T{t['tid']} (arguments computed per row), rows naming "
                            f"dataset {nm}: {msg}")
        elif kind == "site":
            msg = _check_draws([dict(r["cons"])[sid] for r in trows], data, u)
            if msg:
                where = " (below a for_each)" if rc else ""
                if u.get("macro"):
                    where += (f" (field {u['fld']} written in macro {u['macro']}, this inclusion's table T{t.get('table', t['tid'])}"
                              f"{' under T%d' % t['owner'] if 'owner' in t else ''})")
                if u.get("alias") or u.get("anchor"):
                    where += " (one YAML node said by several fields through an alias)"
                return f"iterate: call site s{sid} of T{t['tid']}{where}: {msg}"
        else:
            # for_each: every evaluation writes the records in order (or each once), child_index 0..n-1
            evals = []
            for r in trows:
                if r["ci"] == 0 or not evals:
                    evals.append([])
                evals[-1].append(r)
            for ei, ev in enumerate(evals):
                last = ei == len(evals) - 1
                if [r["ci"] for r in ev] != list(range(len(ev))):
                    return f"for_each: child_index sequence of T{t['tid']} is {[r['ci'] for r in ev]}"
                if len(ev) > n or (len(ev) < n and not (last and err)):
                    return f"for_each: T{t['tid']} wrote {len(ev)} rows for a dataset of {n} records"
                fes = [r["fe"] for r in ev]
                if any(f == "unavailable" for f in fes):
                    continue
                if u["mode"] == "iterate" and fes != data[:len(fes)]:
                    return f"for_each: T{t['tid']} saw {fes}, the file has {data}"
                if u["mode"] == "shuffle" and (Counter(map(tuple, fes)) - Counter(map(tuple, data))):
                    return f"for_each: T{t['tid']} (shuffled) saw {fes}, the file has {data}"
            # projected columns
            for r in trows:
                if r["fe"] in (None, "unavailable"):
                    continue
                for name, got in zip(t["pass"], r["pas"]):
                    ci = col_index(case, u, name)
                    if ci >= len(r["fe"]):
                        return f"for_each: T{t['tid']} wrote a row although column {name} does not exist"
                    if got != _render(r["fe"][ci]):
                        return f"for_each: column {name} of {r['fe']} arrived as {got!r}"
    # iterators shared by several call sites (`name`): the k-th use, whichever call site it is, gets record
    # k mod n of the iterator's dataset (each record once per block of n for shuffle); uses whose row was never
    # written (the run failed inside that row) are unknown
    for key, sids in sp.sharers.items():
        if len(sids) < 2 or key not in sp.owner:
            continue
        ou = sp.owner[key]
        data = data_of(case, ou)
        n = len(data)
        seq = _event_values(rows, sp.cons.get(key, []))
        msg = None
        for k, v in enumerate(seq):
            if v is None:
                continue
            if ou["mode"] == "iterate" and v != data[k % n]:
                tid, ordinal, sid = sp.cons[key][k]
                msg = (f"use {k} (0-based) of the {n}-record dataset (row {ordinal} of T{tid}, field s{sid}) is {v}, "
                       f"expected record {k % n} = {data[k % n]}")
                break
        if not msg and ou["mode"] == "shuffle" and n > 0:
            want = Counter(tuple(d) for d in data)
            for b in range(0, len(seq), n):
                blk = seq[b:b + n]
                known = Counter(tuple(v) for v in blk if v is not None)
                if (known - want) or (len(blk) == n and None not in blk and known != want):
                    msg = f"uses {b}..{b + n - 1} of the shuffled {n}-record dataset are not a permutation of it: {blk}"
                    break
        if msg:
            return f"iterate: the iterator named {ou.get('name')!r} shared by call sites {sids}: {msg}"
    # row counts and outcome, as the property prescribes them
    got = Counter(r["tid"] for r in rows)
    msg = None
    if must_fail and err is None:
        msg = "the run succeeded although a dataset was over-consumed / the recipe is not a valid update recipe"
    elif not must_fail and err is not None:
        msg = f"the run failed with {err} ({obs.get('msg', '')[:80]}) although every dataset had enough records"
    else:
        for t, _rc in walk(top or []):
            if got[t["tid"]] != counts[t["tid"]]:
                msg = f"T{t['tid']} wrote {got[t['tid']]} rows, expected {counts[t['tid']]}"
                break
    if msg:
        return "count: " + msg
    return None


def match_finding(case, obs, msg, findings):
    """No open finding for C17 (the one found here, 'Dataset.iterate/shuffle below a for_each restarted at every
    evaluation', is repaired; its witness corpus/C17/finding_call_site_below_for_each.json is a regression case)."""
    return None


def violation_class(case, obs, msg):
    return msg.split(":")[0]


# ---------------------------------------------------------------- evidence
def nontrivial(case, obs):
    if case["kind"] == "csv":
        return "records" in obs and len(obs.get("reader_rows", [])) >= 2
    if case["kind"] == "session":
        return any(nontrivial(st, o) for st, o in zip(case["steps"][1:], (obs.get("steps") or [])[1:]))
    try:
        rows = decode(case, obs)
    except Exception:
        return False
    for kind, t, sid, u, rc in all_uses(case):
        n = len(data_of(case, u))
        k = sum(1 for r in rows if r["tid"] == t["tid"])
        if n >= 2 and (k >= 2 or obs.get("err")):
            return True
    return False


def stats(cases, obss):
    kinds, sizes, modes, srcs, reps, outcomes, place, draws = (Counter() for _ in range(8))
    feats = Counter()
    shapes = Counter()
    sess, rowdyn, upd = Counter(), Counter(), Counter()
    flat = []
    for c, o in zip(cases, obss):
        kinds[c["kind"]] += 1
        if c["kind"] == "session":
            so = (o.get("steps") if isinstance(o, dict) else None) or []
            shapes[c.get("shape", "session")] += 1
            sess["sessions"] += 1
            sess["runs_in_sessions"] += len(c["steps"])
            sess["steps=%d" % len(c["steps"])] += 1
            for i, st in enumerate(c["steps"]):
                flat.append((st, so[i] if i < len(so) else None))
                if i:
                    prev = c["steps"][i - 1]
                    same = st.get("dir") == prev.get("dir")
                    sess["regenerated_in_same_folder/" + str(st.get("regen")) if same else "other_folder_same_relative_text"] += 1
                    h0 = (prev["datasets"].get("d0") or {}).get("header")
                    h1 = (st["datasets"].get("d0") or {}).get("header")
                    sess["columns_changed" if h0 != h1 else "columns_kept"] += 1
                    n0 = len((prev["datasets"].get("d0") or {}).get("rows", []))
                    n1 = len((st["datasets"].get("d0") or {}).get("rows", []))
                    sess["n_grows" if n1 > n0 else "n_shrinks" if n1 < n0 else "n_same"] += 1
        else:
            flat.append((c, o))
    for c, o in flat:
        if isinstance(o, dict):
            outcomes[o.get("err", "ok") if "rows" in o else "harness"] += 1
        if c.get("url"):
            feats["dataset_by_relative_url_text" if c["url"] == "rel" else "dataset_by_absolute_url"] += 1
        incs = {t.get("inc") for t in c["recipe"] if t.get("inc")}
        if incs:
            feats["included_recipe_files_in_other_folders"] += 1
            sess["include/folders=%d" % (len(incs) + 1)] += 1
        if c["kind"] == "update":
            nm = c.get("input_name")
            upd["name/" + ("default d0.csv" if not nm else "lower .csv" if nm.endswith(".csv") and nm != ".csv" else
                           "other-case .csv" if nm.lower().endswith(".csv") and nm != ".csv" else "no .csv suffix")] += 1
            upd["passed_as/" + c.get("input_as", "str")] += 1
            d = c["datasets"][c["input"]]
            odd = bool(nm) and not (nm.endswith(".csv") and nm != ".csv")
            upd["odd_name_with_bom"] += bool(odd and d.get("bom"))
            upd["odd_name_with_cr_in_quoted_cell"] += bool(odd and any(c2 and "\r" in c2 for r in d["rows"] for c2 in r))
        for _k, t, _s, u, _b in all_uses(c):
            rd = u.get("rowdyn")
            if rd:
                rowdyn["call_sites"] += 1
                rowdyn["what/" + rd["what"]] += 1
                rowdyn["via/" + rd["via"]] += 1
                rowdyn["mode/" + u["mode"]] += 1
                rowdyn["repeat/" + str(u["repeat"])] += 1
                if "on" in rd:
                    rowdyn["on/" + rd["on"]] += 1
                hs = {tuple(c["datasets"][x]["header"]) for x in rd["cands"]}
                rowdyn["candidates_same_columns" if len(hs) == 1 else "candidates_other_columns"] += 1
                if isinstance(o, dict) and "rows" in o:
                    named = Counter(r.get("a%d" % _s) for tb, r in o["rows"] if tb == "T%d" % t["tid"])
                    rowdyn["rows_naming_2+_datasets" if len(named) > 1 else "rows_naming_1_dataset"] += 1
                    lens = [len(c["datasets"][x]["rows"]) for x in named if x in c["datasets"]]
                    rowdyn["some_named_dataset_wrapped_or_exhausted"] += any(named[x] > len(c["datasets"][x]["rows"]) for x in named if x in c["datasets"])
        for ds in c["datasets"].values():
            nrec = len(ds["rows"])
            sizes[nrec if nrec <= 7 else ">=499"] += 1
            feats["bom"] += bool(ds.get("bom"))
            feats["crlf"] += "\r\n" in ds["text"]
            feats["quoted"] += '"' in ds["text"]
            feats["non_ascii"] += any(ord(ch) > 127 for ch in ds["text"])
            feats["short_lines"] += any(None in r for r in ds["rows"])
            feats["long_line(oracle only)"] += "long" in ds
            feats["embedded_newline"] += any(c2 and "\n" in c2 for r in ds["rows"] for c2 in r)
            feats["csv_file_name_of_unusual_spelling"] += bool(ds.get("fname"))
        for kind, t, sid, u, rc in all_uses(c):
            modes[f"{kind}/{u['mode']}"] += 1
            srcs[u["src"]] += 1
            reps[str(u["repeat"])] += 1
            place["below_for_each" if (rc and kind == "site") else "plain"] += 1
            if kind == "site" and t["loop"][0] == "count":
                n = len(data_of(c, u))
                m = t["loop"][1]
                draws["m=0" if m == 0 else "m<n" if m < n else "m=n" if m == n else "m=n+1" if m == n + 1
                      else "m multiple of n" if n and m % n == 0 else "m>n"] += 1
        feats["dataset_args_computed_per_row(oracle only)"] += any(u.get("rowdyn") for _k, _t, _s, u, _b in all_uses(c))
        us = all_uses(c)
        feats["named_call"] += any(u.get("name") for _k, _t, _s, u, _b in us)
        feats["named_for_each"] += any(k == "foreach" and u.get("name") for k, _t, _s, u, _b in us)
        feats["named_for_each_evaluated_more_than_once"] += any(
            k == "foreach" and u.get("name") and (c.get("iters", 1) > 1 or any(
                t2["loop"][0] in ("count", "foreach") and (t in t2["nested"] or t in t2["friends"])
                for t2, _ in walk(c["recipe"]))) for k, t, _s, u, _b in us)
        keys = Counter(key_of(sid, u) for k, _t, sid, u, _b in us if k == "site")
        feats["iterator_shared_by_2+_call_sites"] += any(v > 1 for v in keys.values())
        feats["for_each_and_field_under_one_name"] += any(
            k == "foreach" and u.get("name") and ("name/%s/%s" % (u["mode"], u["name"])) in keys for k, _t, _s, u, _b in us)
        feats["falsy_name"] += any(("name" in u and not u["name"]) for _k, _t, _s, u, _b in us)
        feats["ignored_keyword"] += any(u.get("extra") for _k, _t, _s, u, _b in us)
        feats["continuation_run"] += bool(c.get("cont"))
        if c.get("shape"):
            shapes[c["shape"]] += 1
        feats["two_iterations"] += c.get("iters", 1) > 1
        feats["call_said_again_by_yaml_alias"] += any(u.get("alias") for _k, _t, _s, u, _b in us)
        if c.get("macros"):
            inst = Counter((u.get("macro"), u.get("fld"), t.get("table")) for _k, t, _s, u, _b in us if u.get("macro"))
            feats["macro_with_dataset_call"] += 1
            feats["macro_call_instantiated_by_2+_inclusions"] += any(v > 1 for v in inst.values())
            feats["macro_call_instantiated_by_3+_inclusions"] += any(v > 2 for v in inst.values())
            feats["macro_call_in_template_brought_along(friend/nested)"] += any(t.get("macro") for _k, t, _s, u, _b in us)
            feats["macro_included_through_macro"] += any(m.get("include") for m in c["macros"])
            feats["macro_call_unnamed"] += any(u.get("macro") and not u.get("name") for _k, t, _s, u, _b in us)
            feats["macro_call_named(shared by design)"] += any(u.get("macro") and u.get("name") for _k, t, _s, u, _b in us)
            feats["macro_call_shuffle"] += any(u.get("macro") and u["mode"] == "shuffle" for _k, t, _s, u, _b in us)
        for ds in c["datasets"].values():
            h = ds.get("header") or (reader_rows(ds) or [[]])[0]
            if any(ord(ch) > 127 for x in h for ch in x):
                feats["column_name_non_ascii"] += 1
            import unicodedata as _ud
            for label, f in (("casefold", str.casefold), ("upper", str.upper), ("NFKC", lambda x: _ud.normalize("NFKC", x)),
                             ("NFC", lambda x: _ud.normalize("NFC", x)), ("strip", str.strip),
                             ("accents_removed", lambda x: "".join(ch for ch in _ud.normalize("NFD", x) if not _ud.combining(ch)))):
                if len({f(x) for x in h}) < len(h) and distinct_columns(h):
                    feats["columns_twins_under_" + label] += 1
        feats["stopping_criterion_on_dataset_table"] += bool(c.get("target"))
        feats["sql_primary_key"] += any("pk" in ds for ds in c["datasets"].values())
        feats["dataset_named_by_outer_record(oracle only)"] += any(u.get("dyn") for _k, _t, _s, u, _b in all_uses(c))
        nsh = sum(1 for _k, _t, _s, u, _b in all_uses(c) if u["mode"] == "shuffle")
        feats["shuffled_uses>=2 (interleaved)"] += nsh >= 2
        feats["nested_objects"] += any(t["nested"] for t, _ in walk(c["recipe"]))
        feats["friends"] += any(t["friends"] for t, _ in walk(c["recipe"]))
        feats["nickname"] += any(t.get("nick") for t, _ in walk(c["recipe"]))
        if c["kind"] == "update":
            feats["update_passthrough"] += bool(c["passthrough"])
    return {"kinds": dict(kinds), "dataset_sizes": {str(k): v for k, v in sorted(sizes.items(), key=lambda kv: str(kv[0]))},
            "uses": dict(modes), "sources": dict(srcs), "repeat_kw": dict(reps), "outcomes": dict(outcomes),
            "placement": dict(place), "count_vs_size": dict(draws), "features": dict(feats), "named_shapes": dict(shapes),
            "histories_and_folders": dict(sess), "args_per_row": dict(rowdyn), "update_input": dict(upd)}


# ---------------------------------------------------------------- shrinking / directed search
def _with_rows(case, name, rows):
    ds = dict(case["datasets"][name])
    ds["rows"] = rows
    ds["text"] = render_csv(__import__("random").Random(0), ds["header"], rows, False, "minimal", False, True)
    ds["bom"] = False
    if "pk" in ds:
        ds["ddl"], ds["sql_rows"] = sql_layout(ds)
    if "long" in ds:
        bad = [i for i, r in enumerate(rows) if len(r) > len(ds["header"])]
        if bad:
            ds["long"] = bad[0]
        else:
            del ds["long"]
    c = dict(case)
    c["datasets"] = dict(case["datasets"], **{name: ds})
    return c


def shrink(case):
    """a few big steps only: every candidate costs a fresh worker pool in the driver"""
    import copy
    if case["kind"] == "session":
        st = case["steps"]
        if len(st) > 2:
            yield dict(case, steps=st[1:])
            yield dict(case, steps=st[:-1])
        return
    if case["kind"] == "csv":
        ds = case["datasets"]["d0"]
        t = ds["text"]
        for cut in (t[:len(t) // 2], t[len(t) // 2:], t[:-1], t[1:]):
            if cut != t:
                yield dict(case, datasets={"d0": dict(ds, text=cut)})
        if ds.get("bom"):
            yield dict(case, datasets={"d0": dict(ds, bom=False)})
        return
    if case.get("iters", 1) > 1:
        yield dict(case, iters=1)
    for name, ds in case["datasets"].items():
        rows = ds["rows"]
        if len(rows) > 2:
            yield _with_rows(case, name, rows[:2])
        if len(rows) > 1:
            yield _with_rows(case, name, rows[:-1])
    for idx, (t, _) in enumerate(walk(case["recipe"])):
        if t["loop"][0] == "count" and t["loop"][1] > 1:
            for m in (t["loop"][1] // 2, t["loop"][1] - 1):
                c = copy.deepcopy(case)
                list(walk(c["recipe"]))[idx][0]["loop"][1] = m
                yield c
    for name, ds in case["datasets"].items():
        plain = [[(None if c is None else f"r{i}c{j}") for j, c in enumerate(r)] for i, r in enumerate(ds["rows"])]
        if plain != ds["rows"]:
            yield _with_rows(case, name, plain)


def directed_search(rng, disagreeing):
    out = []
    for n in range(0, 5):
        for m in range(0, 3 * n + 3):
            for mode in ("iterate", "shuffle"):
                for repeat in (None, False):
                    out.append(gen_consumer_case(rng, n=n, m=m, mode=mode, repeat=repeat, src="csv",
                                                 placement=rng.choice(["top", "friend", "nested"]), iters=rng.choice([1, 2])))
            out.append(gen_consumer_case(rng, n=n, m=m, mode="iterate", repeat=None, src="sql", placement="top"))
        for mode in ("iterate", "shuffle"):
            for src in ("csv", "sql"):
                out.append(gen_foreach_case(rng, n=n, mode=mode, src=src))
        out.append(gen_update_case(rng, n=n))
    out.extend(gen_macro_case(rng) for _ in range(200))
    out.extend(gen_columns_case(rng) for _ in range(200))
    out.extend(gen_session_case(rng) for _ in range(150))
    out.extend(gen_include_case(rng) for _ in range(100))
    out.extend(gen_rowdyn_case(rng) for _ in range(150))
    out.extend(gen_interleaved_case(rng) for _ in range(200))
    out.extend(big_cases(rng, "quick"))
    out.extend(gen_consumer_case(rng) for _ in range(600))
    out.extend(gen_foreach_case(rng) for _ in range(300))
    out.extend(gen_update_case(rng) for _ in range(200))
    return out
