"""C17 — datasets are iterated faithfully: in order, cyclically, or exactly once.

Implementation: snowfakery/standard_plugins/datasets.py, plugins.py (PluginResultIterator),
data_generator_runtime_object_model.py (for_each, _generate_fields), parse_recipe_yaml.py
(build_update_recipe).  Model: coq/theories/Datasets.v.

A case is a small recipe (tree of object templates with count / for_each, Dataset.iterate /
Dataset.shuffle fields, nested objects, friends), the CSV files it reads (the same content is
also loaded into SQLite tables), the number of iterations, or an update-mode run.  Rows are
captured raw by an output stream defined here, so column values never pass through an
output encoder.
"""
import ast
import csv
import gc
import io
import os
import shutil
import sqlite3
import tempfile
from collections import Counter

from . import common as C
from .oracle_random import injected_randbelow

PROP = "C17"
MODEL = "Datasets"
SHARD = 120
CASE_TIMEOUT = 15
RULE = ("cases: recipes over generated CSV files (0-7 records, 1-4 columns, quoting, embedded commas/"
        "quotes/newlines, unicode, BOM, CRLF, blank lines, short lines) and SQLite tables with the same "
        "content; Dataset.iterate / Dataset.shuffle consumers (count 0..3n+2) at top level, as friend, as "
        "nested object, with repeat unset/True/False; for_each templates (also nested, also shuffled); "
        "consumers inside / below a for_each; update mode with pass-through fields; 1-2 iterations; a malformed stream "
        "(line longer than the header, rejected update recipes, missing columns; long lines oracle-only).  The rows "
        "written (per template: for_each record, child_index, consumed records per call site, projected "
        "columns) and the outcome are compared with the Coq model; shuffled passes (any number of shuffled uses, also interleaved consumers of one file) are read back per use and replayed in the model; datasets of 499/500/501/1000/1300 records consumed for a full cycle. "
        "non-trivial: some dataset with >= 2 records is drawn from at least twice (wrap-around, cycle, "
        "for_each) or is over-consumed; distinct by case hash")
TRUSTED = ["harness/oracle_random.py: random.Random._randbelow patched so that runs are reproducible from the case",
           "harness/c17.py: CaptureStream (an OutputStream subclass passed by dotted name as output_format) records "
           "raw row values; the permutation of every shuffled pass (random.shuffle for CSV, ORDER BY random() inside "
           "SQLite) is read back from the output and given to the model as the equivalent Fisher-Yates draws, so the "
           "model comparison checks 'some permutation per pass', the oracle checks exactly-once directly",
           "python csv module (reader) as the reference decoder of the generated CSV text"]
ASSUMPTIONS = ["csv.DictReader / SQLAlchemy+SQLite deliver the stored records in storage order with every cell intact "
               "(library code; sampled by every case, not proved)",
               "a shuffled pass (random.shuffle / SQLite ORDER BY random()) is some permutation of the records; the model "
               "represents it as Fisher-Yates over an arbitrary oracle stream and the theorems hold for every stream",
               "the dataset file does not change while a recipe runs",
               "call-site identifiers (id() of live StructuredValue objects) are distinct"]
EXHAUSTIVE = {"quick": False, "thorough": True}

NAMES = ["a", "b", "c", "d", "City", "Zip_Code", "k1", "Name", "X", "oid"]
_ROWS = []
_CAP = [1500]


# ---------------------------------------------------------------- capture stream (worker side)
class _TooManyRows(BaseException):
    pass


def __getattr__(name):
    if name == "CaptureStream":
        from snowfakery.output_streams import OutputStream

        class CaptureStream(OutputStream):
            is_text = True

            def __init__(self, *a, **k):
                pass

            def write_row(self, tablename, row):
                if len(_ROWS) > _CAP[0]:       # a loop that no longer ends
                    raise _TooManyRows()
                _ROWS.append((tablename, dict(row)))

            def write_single_row(self, tablename, row):
                pass

            def close(self, **k):
                return None

        globals()["CaptureStream"] = CaptureStream
        return CaptureStream
    raise AttributeError(name)


# ---------------------------------------------------------------- datasets
def render_csv(rng, header, rows, crlf, quote, blank, final_eol):
    eol = "\r\n" if crlf else "\n"

    def q(c, alone):
        need = (c == "" and alone) or any(ch in c for ch in ',"\r\n')
        force = quote == "all" or (quote == "random" and rng.random() < 0.4)
        if need or force:
            return '"' + c.replace('"', '""') + '"'
        return c

    lines = [",".join(q(h, len(header) == 1) for h in header)]
    for r in rows:
        cells = [c for c in r if c is not None]
        lines.append(",".join(q(c, len(cells) == 1) for c in cells))
        if blank and rng.random() < 0.3:
            lines.append("")
    text = eol.join(lines)
    if final_eol:
        text += eol
    return text


def file_bytes(ds):
    return (b"\xef\xbb\xbf" if ds.get("bom") else b"") + ds["text"].encode("utf-8")


def decode_reference(ds):
    """the harness' own decoding of the file: (header, records) with None for missing cells"""
    s = file_bytes(ds).decode("utf-8-sig")
    rows = list(csv.reader(io.StringIO(s, newline="")))
    header = rows[0] if rows else []
    recs = []
    for r in rows[1:]:
        if r == []:
            continue
        recs.append([*r, *([None] * (len(header) - len(r)))])
    return header, recs


PLAIN = "abxyzQRS"
SPECIAL = [",", '"', "\n", "\r\n", "'", " ", "é", "ß", "漢", "\U0001F600", "é", "${{x}}", "#",
           ": ", "\t", "-", "{%", " ", ";", "|"]


def proj_safe(c):
    """text that survives ${{var.col}} unchanged (look_for_number turns 12 into an int and 1.50 into a
    float; ints are compared through str, float-looking cells are kept out of projected columns)"""
    if c is None or c == "":
        return True
    if all(ch in "0123456789." for ch in c):
        return c.isdigit() and (c == "0" or c[0] != "0")
    return True


def gen_cell(rng, safe):
    r = rng.random()
    if r < 0.07:
        return ""
    if r < 0.2:
        return str(rng.randint(0, 120))
    if r < 0.27 and not safe:
        return rng.choice(["007", "1.50", "3.", "0.5", "00", ".", "1.2.3"])
    n = rng.choice([1, 1, 2, 3, 5])
    out = []
    for _ in range(n):
        out.append(rng.choice(SPECIAL) if rng.random() < 0.35 else rng.choice(PLAIN))
    c = "".join(out)
    if safe:
        # Jinja keeps values as they are; leading/trailing blanks and newlines are kept out of projected
        # columns only because the template engine's whitespace rules are not what C17 is about
        c = c.strip() or "x"
    if safe and not proj_safe(c):
        c = "v" + c
    return c


PK_KINDS = ["text", "text", "composite", "int", "integer", "text_norowid", "composite_norowid"]


def sql_layout(ds):
    """DDL of the SQLite table for a dataset and the order in which `SELECT * FROM t` (sqlite3 module, no
    Snowfakery involved) returns its rows after they were inserted in file order: the reference for SQL uses.
    With a primary key that order can differ from insertion order (rowid alias, WITHOUT ROWID, covering index)."""
    h = ds["header"]
    pk = ds.get("pk")
    typ = {0: "INT" if pk == "int" else "INTEGER" if pk == "integer" else "TEXT"}
    cols = ['"%s" %s' % (c, typ.get(i, "TEXT")) for i, c in enumerate(h)]
    if pk in ("text", "int", "integer", "text_norowid"):
        cols[0] += " PRIMARY KEY"
    elif pk in ("composite", "composite_norowid"):
        cols.append('PRIMARY KEY ("%s", "%s")' % (h[1], h[0]))
    ddl = "create table t (%s)%s" % (", ".join(cols), " WITHOUT ROWID" if pk and pk.endswith("norowid") else "")
    con = sqlite3.connect(":memory:")
    con.execute(ddl)
    con.executemany("insert into t values (%s)" % ",".join("?" * len(h)), ds["rows"])
    got = [[(c if (c is None or isinstance(c, str)) else str(c)) for c in r] for r in con.execute("select * from t")]
    con.close()
    return ddl, got


def gen_dataset(rng, n, ncols=None, short=False, distinct=False, plain=False, pk=None):
    ncols = ncols or rng.choice([1, 2, 2, 3, 4])
    if pk and "composite" in pk and ncols < 2:
        pk = "text"
    if pk:
        short, distinct = False, True
    header = rng.sample(NAMES, ncols)
    safe_cols = [rng.random() < 0.7 for _ in header]
    rows = []
    for i in range(n):
        row = [("r%d" % i if plain else gen_cell(rng, safe_cols[j])) for j in range(ncols)]
        if distinct:
            row[0] = f"{i}-{row[0]}" if not row[0].isdigit() else f"k{i}"
        if short and ncols > 1 and rng.random() < 0.4:
            keep = rng.randint(1, ncols - 1)
            row = row[:keep] + [None] * (ncols - keep)
        rows.append(row)
    if pk in ("int", "integer"):
        for r, v in zip(rows, rng.sample(range(1, 900), n)):     # unique, not in ascending order
            r[0] = str(v)
    ds = {"header": header, "rows": rows, "safe": safe_cols,
          "bom": rng.random() < 0.3}
    if pk:
        ds["pk"] = pk
    ds["text"] = render_csv(rng, header, rows, crlf=rng.random() < 0.4,
                            quote=rng.choice(["minimal", "minimal", "all", "random"]),
                            blank=rng.random() < 0.15, final_eol=rng.random() < 0.85)
    h, recs = decode_reference(ds)
    assert h == header and recs == rows, ("generator/decoder mismatch", ds, h, recs)
    if pk:
        ds["ddl"], ds["sql_rows"] = sql_layout(ds)
        assert sorted(map(tuple, ds["sql_rows"])) == sorted(map(tuple, rows))
    return ds


# ---------------------------------------------------------------- recipe structure helpers
def use(ds, src="csv", mode="iterate", repeat=None, table=True):
    return {"ds": ds, "src": src, "mode": mode, "repeat": repeat, "table": table}


def tmpl(tid, loop, sites=(), pas=(), nested=(), friends=(), nick=False):
    return {"tid": tid, "loop": list(loop), "sites": [list(s) for s in sites], "pass": list(pas),
            "nested": list(nested), "friends": list(friends), "nick": nick}


def effective_top(case):
    """top-level templates as they are executed (update mode rewrites the single template)"""
    if case["kind"] != "update":
        return case["recipe"], None
    rec = case["recipe"]
    if len(rec) != 1:
        return None, "structure"
    t = rec[0]
    if t["loop"][0] == "count":
        return None, "count"
    t2 = dict(t)
    t2["loop"] = ["foreach", use(case["input"], "csv", "iterate", False)]
    t2["pass"] = list(t["pass"]) + list(case["passthrough"])
    return [t2], None


def walk(tmpls, below=False):
    """yield (template, below) — below: the template is, or lies below, a for_each template.  Since the repair
    of ForEachVariableDefinition.evaluate (recalculate_every_time restored after the for_each expression) this
    placement behaves like any other; the flag only feeds the evidence statistics."""
    for t in tmpls:
        b = below or t["loop"][0] == "foreach"
        yield t, b
        yield from walk(t["nested"], b)
        yield from walk(t["friends"], b)


def all_uses(case):
    top, _ = effective_top(case)
    out = []
    for t, rc in walk(top or case["recipe"]):
        if t["loop"][0] == "foreach":
            out.append(("foreach", t, None, t["loop"][1], rc))
        for sid, u in t["sites"]:
            out.append(("site", t, sid, u, rc))
    return out


def ds_of(case, u, cur=None):
    """the dataset a use reads; a computed name (`dyn`) needs the current records of the enclosing loops"""
    dyn = u.get("dyn")
    if dyn and cur is not None and dyn["outer"] in cur:
        outer_ds = case["datasets"][dyn["outer_ds"]]
        v = cur[dyn["outer"]][outer_ds["header"].index(dyn["col"])]
        return case["datasets"][v[:-4] if v.endswith(".csv") else v]
    return case["datasets"][u["ds"]]


def data_of(case, u, cur=None):
    ds = ds_of(case, u, cur)
    if u["src"] == "sql" and "sql_rows" in ds:
        return ds["sql_rows"]          # table order as sqlite3 itself reads it (primary keys may reorder)
    return ds["rows"]


def col_index(case, u, name):
    header = case["datasets"][u["ds"]]["header"]
    for i, h in enumerate(header):
        if h.lower() == name.lower():
            return i
    return len(header) + 3


# ---------------------------------------------------------------- generation
def _sid(counter):
    counter[0] += 1
    return counter[0]


def gen_consumer_case(rng, n=None, m=None, mode=None, repeat="?", src=None, placement=None, iters=None):
    n = rng.randint(0, 7) if n is None else n
    src = src or rng.choice(["csv", "csv", "sql"])
    pk = rng.choice(PK_KINDS) if (src == "sql" and rng.random() < 0.6) else None
    ds = gen_dataset(rng, n, short=rng.random() < 0.15, distinct=rng.random() < 0.5, pk=pk)
    m = rng.randint(0, 3 * n + 2) if m is None else m
    mode = mode or rng.choice(["iterate", "iterate", "shuffle"])
    repeat = rng.choice([None, None, True, False]) if repeat == "?" else repeat
    placement = placement or rng.choice(["top", "top", "friend", "nested", "deep", "two_sites", "two_templates"])
    iters = iters or rng.choice([1, 1, 2])
    u = use("d0", src, mode, repeat, table=rng.random() < 0.6)
    cons = tmpl(1, ["count", m] if (m != 1 or rng.random() < 0.5) else ["default"], sites=[[1, u]],
                nick=rng.random() < 0.2)
    if placement == "top":
        recipe = [cons]
    elif placement == "friend":
        recipe = [tmpl(2, ["count", rng.randint(0, 3)], friends=[cons])]
    elif placement == "nested":
        recipe = [tmpl(2, ["count", rng.randint(0, 3)], nested=[cons])]
    elif placement == "deep":
        as_nested = rng.random() < 0.5
        inner = tmpl(2, ["count", rng.randint(1, 2)], nested=[cons] if as_nested else [],
                     friends=[] if as_nested else [cons])
        recipe = [tmpl(3, ["count", rng.randint(1, 2)], friends=[inner])]
    elif placement == "two_sites":
        # two call sites over the same file in one row (each one's passes are read back from its own values)
        u2 = use("d0", rng.choice(["csv", "sql"]), rng.choice(["iterate", "shuffle"]), rng.choice([None, False]))
        cons["sites"].append([2, u2])
        recipe = [cons]
    else:
        ds1 = gen_dataset(rng, rng.randint(1, 4), distinct=True)
        other = tmpl(4, ["count", rng.randint(0, 4)], sites=[[3, use("d1", "csv", "iterate", None)]])
        recipe = [cons, other] if rng.random() < 0.5 else [other, cons]
        return {"kind": "run", "datasets": {"d0": ds, "d1": ds1}, "recipe": recipe, "iters": iters,
                "tick": iters > 1 or rng.random() < 0.3, "raw": [rng.randint(0, 10 ** 6) for _ in range(80)]}
    return {"kind": "run", "datasets": {"d0": ds}, "recipe": recipe, "iters": iters,
            "tick": iters > 1 or rng.random() < 0.3, "raw": [rng.randint(0, 10 ** 6) for _ in range(80)]}


def pick_pass(rng, ds, allow_missing=False):
    cols = [h for h, s in zip(ds["header"], ds["safe"]) if s]
    k = rng.randint(0, len(cols))
    out = []
    for h in rng.sample(cols, k):
        out.append(h.upper() if rng.random() < 0.2 else h)
    if allow_missing and rng.random() < 0.08:
        out.append("nosuch")
    return out


def gen_foreach_case(rng, n=None, mode=None, src=None, placement=None, iters=None):
    n = rng.randint(0, 7) if n is None else n
    src = src or rng.choice(["csv", "csv", "sql"])
    pk = rng.choice(PK_KINDS) if (src == "sql" and rng.random() < 0.6) else None
    ds = gen_dataset(rng, n, short=rng.random() < 0.15, distinct=rng.random() < 0.6, pk=pk)
    # projected columns must exist on every record that has them (a short line renders as None: fine)
    mode = mode or rng.choice(["iterate", "iterate", "shuffle"])
    placement = placement or rng.choice(["top", "top", "friend", "nested", "inner_foreach", "with_children"])
    iters = iters or rng.choice([1, 1, 2])
    u = use("d0", src, mode, rng.choice([None, None, True, False]), table=rng.random() < 0.6)
    fe = tmpl(1, ["foreach", u], pas=pick_pass(rng, ds, allow_missing=True), nick=rng.random() < 0.2)
    datasets = {"d0": ds}
    target = None
    if placement == "top":
        recipe = [fe]
        if n > 0 and rng.random() < 0.25:
            # stopping criterion on the for_each table: a for_each is evaluated afresh in every iteration
            target = rng.choice([n - 1, n, n + 1, 2 * n, 2 * n + 1]) or 1
            iters = -(-target // n)
    elif placement == "friend":
        recipe = [tmpl(2, ["count", rng.randint(0, 3)], friends=[fe])]
    elif placement == "nested":
        recipe = [tmpl(2, ["count", rng.randint(0, 3)], nested=[fe])]
    elif placement == "inner_foreach":
        ds1 = gen_dataset(rng, rng.randint(0, 3), distinct=True)
        datasets["d1"] = ds1
        outer = tmpl(2, ["foreach", use("d1", "csv", "iterate", None)], pas=pick_pass(rng, ds1),
                     friends=[fe] if rng.random() < 0.6 else [], nested=[])
        if not outer["friends"]:
            outer["nested"] = [fe]
        recipe = [outer]
    else:
        fe["friends"] = [tmpl(2, ["count", rng.randint(0, 2)])]
        fe["nested"] = [tmpl(3, ["default"])] if rng.random() < 0.5 else []
        recipe = [fe]
    case = {"kind": "run", "datasets": datasets, "recipe": recipe, "iters": iters,
            "tick": iters > 1 or rng.random() < 0.3, "raw": [rng.randint(0, 10 ** 6) for _ in range(80)]}
    if target:
        case.update(target=target, tick=False)
    return case


def gen_scope_case(rng):
    """a Dataset.* field inside / below a for_each template (regression for the repaired finding
    'restarted at every evaluation': the call site keeps its iterator like anywhere else)"""
    n = rng.randint(0, 5)
    ds = gen_dataset(rng, n, distinct=True)
    ds1 = gen_dataset(rng, rng.randint(0, 3), distinct=True)
    u = use("d0", "csv", rng.choice(["iterate", "iterate", "shuffle"]), rng.choice([None, False]))
    where = rng.choice(["own", "friend", "nested"])
    m = rng.randint(0, 3)
    if where == "own":
        outer = tmpl(2, ["foreach", use("d1", "csv", "iterate", None)], sites=[[1, u]])
    elif where == "friend":
        outer = tmpl(2, ["foreach", use("d1", "csv", "iterate", None)],
                     friends=[tmpl(1, ["count", m], sites=[[1, u]])])
    else:
        outer = tmpl(2, ["foreach", use("d1", "csv", "iterate", None)],
                     nested=[tmpl(1, ["count", m], sites=[[1, u]])])
    return {"kind": "run", "datasets": {"d0": ds, "d1": ds1}, "recipe": [outer], "iters": rng.choice([1, 2]),
            "tick": True, "raw": [rng.randint(0, 10 ** 6) for _ in range(80)]}


def gen_update_case(rng, n=None):
    n = rng.randint(0, 7) if n is None else n
    ds = gen_dataset(rng, n, short=rng.random() < 0.1, distinct=rng.random() < 0.6)
    t = tmpl(1, ["default"], nick=rng.random() < 0.4)
    r = rng.random()
    recipe = [t]
    datasets = {"d0": ds}
    if r < 0.08:
        t["loop"] = ["count", rng.randint(0, 3)]            # rejected: update templates have no count
    elif r < 0.16:
        recipe = [t, tmpl(2, ["default"])] if rng.random() < 0.7 else []   # rejected: not exactly one
    elif r < 0.3:
        t["friends"] = [tmpl(2, ["count", rng.randint(0, 2)])]
    elif r < 0.38:
        ds1 = gen_dataset(rng, rng.randint(0, 3), distinct=True)
        datasets["d1"] = ds1
        t["loop"] = ["foreach", use("d1", "csv", "iterate", None)]      # replaced by the input loop
    elif r < 0.45:
        ds1 = gen_dataset(rng, rng.randint(0, 3), distinct=True)
        datasets["d1"] = ds1
        t["friends"] = [tmpl(2, ["foreach", use("d1", "csv", "iterate", None)], pas=pick_pass(rng, ds1))]
    case = {"kind": "update", "datasets": datasets, "recipe": recipe, "input": "d0",
            "passthrough": pick_pass(rng, ds, allow_missing=False if r >= 0.45 and rng.random() < 0.5 else True),
            "iters": 1, "tick": False, "raw": [rng.randint(0, 10 ** 6) for _ in range(20)]}
    if r >= 0.6 and rng.random() < 0.6:
        # a stopping criterion on the updated table: at most n rows exist; asking for more must be an error
        case["target"] = rng.choice([max(n - 1, 1), max(n, 1), n + 1, 2 * n + 1, 3 * n])  or 1
    return case


def _raw(rng, k=40):
    return [rng.randint(0, 10 ** 6) for _ in range(k)]


def gen_interleaved_case(rng, n=None):
    """two or more shuffled consumers of the SAME file whose passes interleave row by row: each consumer must
    still see every record exactly once per cycle (a pass must not be disturbed by another consumer's restart)"""
    n = rng.randint(3, 7) if n is None else n
    ds = gen_dataset(rng, n, ncols=rng.choice([1, 2, 3]), distinct=True)
    src2 = rng.choice(["csv", "csv", "csv", "sql"])
    rep = lambda: rng.choice([None, None, True])
    ua = lambda: use("d0", "csv", "shuffle", rep())
    ub = lambda: use("d0", src2, "shuffle", rep())
    shape = rng.choice(["two_top", "parent_friend", "nested_and_friend", "foreach_friend", "foreach_foreach",
                        "two_sites_row", "foreach_own_site"])
    iters = 1
    if shape == "two_top":
        recipe = [tmpl(1, ["count", rng.randint(1, 2)], sites=[[1, ua()]]),
                  tmpl(2, ["count", rng.randint(1, 3)], sites=[[2, ub()]])]
        iters = rng.randint(n, 2 * n + 2)
    elif shape == "parent_friend":
        recipe = [tmpl(1, ["count", rng.randint(n + 1, 2 * n + 2)], sites=[[1, ua()]],
                       friends=[tmpl(2, ["count", rng.randint(1, 2)], sites=[[2, ub()]])])]
    elif shape == "nested_and_friend":
        recipe = [tmpl(3, ["count", rng.randint(n + 1, 2 * n + 2)],
                       nested=[tmpl(1, ["count", rng.randint(1, 2)], sites=[[1, ua()]])],
                       friends=[tmpl(2, ["default"], sites=[[2, ub()]])])]
    elif shape == "foreach_friend":
        recipe = [tmpl(1, ["foreach", ua()],
                       friends=[tmpl(2, ["count", rng.randint(1, 2)], sites=[[2, ub()]])])]
        iters = rng.randint(2, 3)
    elif shape == "foreach_foreach":
        inner = tmpl(2, ["foreach", ub()])
        recipe = [tmpl(1, ["foreach", ua()], friends=[inner] if rng.random() < 0.6 else [], nested=[])]
        if not recipe[0]["friends"]:
            recipe[0]["nested"] = [inner]
        iters = rng.randint(1, 2)
    elif shape == "two_sites_row":
        recipe = [tmpl(1, ["count", rng.randint(n + 1, 2 * n + 2)], sites=[[1, ua()], [2, ub()]])]
        iters = rng.randint(1, 2)
    else:
        recipe = [tmpl(1, ["foreach", ua()], sites=[[2, ub()]])]
        iters = rng.randint(2, 3)
    return {"kind": "run", "datasets": {"d0": ds}, "recipe": recipe, "iters": iters, "tick": True, "raw": _raw(rng)}


def gen_dyn_case(rng):
    """nested for_each whose dataset (file name, or table of one database) is computed from the record of the
    outer loop, directly or through a field of the enclosing row: every outer record names a DIFFERENT file with
    different content and length.  Outside the Coq model (its templates are static): oracle only."""
    k = rng.randint(2, 4)
    header = rng.sample([h for h in NAMES if h not in ("k1",)], rng.choice([1, 2]))
    what = rng.choice(["file", "file", "table"])
    names = ["e%d" % i for i in range(k)]
    lens = rng.sample(range(0, 6), k)
    datasets = {}
    for nm, ln in zip(names, lens):
        d = gen_dataset(rng, ln, ncols=len(header), distinct=True)
        d["header"] = header
        d["text"] = render_csv(rng, header, d["rows"], False, "minimal", False, True)
        d["bom"] = False
        for r in d["rows"]:
            r[0] = nm + "_" + r[0]
        d["text"] = render_csv(rng, header, d["rows"], False, "minimal", False, True)
        datasets[nm] = d
    order = names[:]
    rng.shuffle(order)
    if rng.random() < 0.4:
        order.append(rng.choice(names))                      # a file can be named twice
    col = "file" if what == "file" else "tbl"
    outer_rows = [["o%d" % i, (nm + ".csv") if what == "file" else nm] for i, nm in enumerate(order)]
    od = {"header": ["k1", col], "rows": outer_rows, "safe": [True, True], "bom": False}
    od["text"] = render_csv(rng, od["header"], outer_rows, False, "minimal", False, True)
    datasets["d1"] = od
    via = rng.choice(["var", "field"])
    place = rng.choice(["friend", "friend", "nested"])
    u = use(names[0], "csv" if what == "file" else "sql", rng.choice(["iterate", "iterate", "shuffle"]), None)
    u["dyn"] = {"outer": 2, "outer_ds": "d1", "col": col, "via": via, "what": what, "cands": names, "place": place}
    inner = tmpl(1, ["foreach", u], pas=[header[0]] if rng.random() < 0.5 else [])
    outer = tmpl(2, ["foreach", use("d1", "csv", "iterate", None)], pas=["k1"],
                 friends=[inner] if place == "friend" else [], nested=[inner] if place == "nested" else [])
    if via == "field":
        outer["extra"] = [["fname", "${{v2.%s}}" % col]]
    iters = rng.choice([1, 2])
    return {"kind": "run", "datasets": datasets, "recipe": [outer], "iters": iters, "tick": iters > 1, "raw": _raw(rng)}


BIG_SIZES = [499, 500, 501, 1000, 1300]


def gen_big_case(rng, n, src="sql", mode="shuffle", shape="site", cycles=1):
    """a dataset around / beyond 500 records (a page, a fetch buffer), consumed for at least one full cycle"""
    ds = gen_dataset(rng, n, ncols=1, plain=True)
    u = use("d0", src, mode, rng.choice([None, True]) if cycles > 1 or shape == "site" else None, table=rng.random() < 0.5)
    if shape == "site":
        m = cycles * n + rng.randint(0, 9)
        recipe = [tmpl(1, ["count", m], sites=[[1, u]])]
    else:
        recipe = [tmpl(1, ["foreach", u])]
    return {"kind": "run", "datasets": {"d0": ds}, "recipe": recipe, "iters": 1, "tick": False,
            "raw": _raw(rng), "cap": 3 * n + 500}


def big_cases(rng, tier):
    out = []
    if tier == "quick":
        for n in BIG_SIZES:
            out.append(gen_big_case(rng, n, "sql", "shuffle", "site", cycles=1))
        out.append(gen_big_case(rng, 501, "sql", "shuffle", "foreach"))
        out.append(gen_big_case(rng, 1300, "sql", "shuffle", "foreach"))
        out.append(gen_big_case(rng, 1000, "csv", "shuffle", "site"))
        out.append(gen_big_case(rng, 501, "sql", "iterate", "site"))
        out.append(gen_big_case(rng, 1300, "sql", "iterate", "foreach"))
        return out
    for n in BIG_SIZES:
        for src in ("sql", "csv"):
            for mode in ("shuffle", "iterate"):
                out.append(gen_big_case(rng, n, src, mode, "site", cycles=2 if n <= 501 else 1))
                out.append(gen_big_case(rng, n, src, mode, "foreach"))
    return out


def gen_long_case(rng):
    """malformed stream: one line has more cells than the header.  The linear iterator reports it as a
    DataGenError when it reaches that line, the shuffled one when it loads the file.  Outside the model
    (compared by the oracle only): records before the bad line are still handed out faithfully."""
    n = rng.randint(1, 5)
    ds = gen_dataset(rng, n, distinct=True)
    bad = rng.randrange(n)
    ds["rows"][bad] = ds["rows"][bad] + ["extra"]
    ds["rows"] = [[("" if c is None else c) for c in r] for r in ds["rows"]]
    ds["long"] = bad
    ds["text"] = render_csv(rng, ds["header"], ds["rows"], False, "minimal", False, True)
    h, recs = decode_reference(ds)
    assert h == ds["header"] and recs == ds["rows"]
    mode = rng.choice(["iterate", "iterate", "shuffle"])
    if rng.random() < 0.6:
        recipe = [tmpl(1, ["count", rng.randint(0, 2 * n)], sites=[[1, use("d0", "csv", mode, rng.choice([None, False]))]])]
    else:
        recipe = [tmpl(1, ["foreach", use("d0", "csv", mode, None)])]
    return {"kind": "run", "datasets": {"d0": ds}, "recipe": recipe, "iters": 1, "tick": False,
            "raw": [rng.randint(0, 10 ** 6) for _ in range(20)]}


def boundary_cases(rng):
    out = []
    for n in (0, 1, 2, 3):
        for m in sorted({0, 1, max(n - 1, 0), n, n + 1, 2 * n, 2 * n + 1, 3 * n, 3 * n + 2}):
            for mode in ("iterate", "shuffle"):
                for repeat in (None, False):
                    out.append(gen_consumer_case(rng, n=n, m=m, mode=mode, repeat=repeat, src="csv",
                                                 placement="top", iters=1))
            out.append(gen_consumer_case(rng, n=n, m=m, mode="iterate", repeat=None, src="sql",
                                         placement="top", iters=1))
        out.append(gen_foreach_case(rng, n=n, mode="iterate", src="csv", placement="top", iters=1))
        out.append(gen_foreach_case(rng, n=n, mode="shuffle", src="csv", placement="top", iters=2))
        out.append(gen_foreach_case(rng, n=n, mode="iterate", src="sql", placement="top", iters=1))
        out.append(gen_update_case(rng, n=n))
    return out


def exhaustive_cases(rng):
    """(n, m) in 0..7 x 0..23 for the linear and the shuffled iterator, repeat on and off"""
    out = []
    for n in range(0, 8):
        for m in range(0, 24):
            for mode, repeat, src in (("iterate", None, "csv"), ("iterate", False, "csv"),
                                      ("shuffle", None, "csv"), ("iterate", None, "sql"),
                                      ("shuffle", False, "csv")):
                out.append(gen_consumer_case(rng, n=n, m=m, mode=mode, repeat=repeat, src=src,
                                             placement=rng.choice(["top", "friend", "nested"]),
                                             iters=rng.choice([1, 1, 2])))
    return out


def generate(rng, tier):
    cases = boundary_cases(rng)
    k = 3 if tier == "quick" else 30
    for _ in range(260 * k):
        cases.append(gen_consumer_case(rng))
    for _ in range(130 * k):
        cases.append(gen_foreach_case(rng))
    for _ in range(40 * k):
        cases.append(gen_scope_case(rng))
    for _ in range(90 * k):
        cases.append(gen_update_case(rng))
    for _ in range(12 * k):
        cases.append(gen_long_case(rng))
    for _ in range(50 * k):
        cases.append(gen_interleaved_case(rng))
    for _ in range(30 * k):
        cases.append(gen_dyn_case(rng))
    cases.extend(big_cases(rng, tier))
    if tier == "thorough":
        cases.extend(exhaustive_cases(rng))
    return cases


# ---------------------------------------------------------------- rendering the recipe
def _render_use(u, indent, root):
    pad = " " * indent
    fn = "Dataset.iterate" if u["mode"] == "iterate" else "Dataset.shuffle"
    lines = [f"{pad}{fn}:"]
    dyn = u.get("dyn")
    if dyn:
        expr = "${{v%d.%s}}" % (dyn["outer"], dyn["col"]) if dyn["via"] == "var" else "${{T%d.fname}}" % dyn["outer"]
        if dyn["what"] == "file":
            lines.append(f"{pad}  dataset: {expr}")
        else:
            lines += [f"{pad}  dataset: sqlite:///{root}/multi.db", f"{pad}  table: {expr}"]
    elif u["src"] == "csv":
        lines.append(f"{pad}  dataset: {u['ds']}.csv")
    else:
        lines.append(f"{pad}  dataset: sqlite:///{root}/{u['ds']}.db")
        if u.get("table"):
            lines.append(f"{pad}  table: t")
    if u["repeat"] is not None:
        lines.append(f"{pad}  repeat: {'True' if u['repeat'] else 'False'}")
    return lines


def _render_tmpl(t, indent, root, var_override=None):
    pad = " " * indent
    tid = t["tid"]
    lines = [f"{pad}- object: T{tid}"]
    if t.get("nick"):
        lines.append(f"{pad}  nickname: n{tid}")
    loop = t["loop"]
    var = var_override
    if loop[0] == "count":
        lines.append(f"{pad}  count: {loop[1]}")
    elif loop[0] == "foreach":
        lines += [f"{pad}  for_each:", f"{pad}    var: v{tid}", f"{pad}    value:"]
        lines += _render_use(loop[1], indent + 6, root)
        var = var or f"v{tid}"
    lines.append(f"{pad}  fields:")
    for sid, u in t["sites"]:
        lines.append(f"{pad}    s{sid}:")
        lines += _render_use(u, indent + 6, root)
    for fname, expr in t.get("extra", []):
        lines.append(f"{pad}    {fname}: {expr}")
    for ch in t["nested"]:
        lines.append(f"{pad}    n{ch['tid']}:")
        lines += _render_tmpl(ch, indent + 6, root)
    if var:
        lines.append(f"{pad}    w: ${{{{{var}}}}}")
    lines.append(f"{pad}    ci: ${{{{child_index}}}}")
    if var:
        for j, name in enumerate(t["pass"]):
            lines.append(f"{pad}    p{j}: ${{{{{var}.{name}}}}}")
    if t["friends"]:
        lines.append(f"{pad}  friends:")
        for f in t["friends"]:
            lines += _render_tmpl(f, indent + 4, root)
    return lines


def render_recipe(case, root):
    lines = ["- plugin: snowfakery.standard_plugins.datasets.Dataset"]
    if case.get("tick") and case["kind"] == "run":
        lines.append("- object: Tick")
    for t in case["recipe"]:
        lines += _render_tmpl(t, 0, root, var_override="input" if case["kind"] == "update" else None)
    return "\n".join(lines) + "\n"


# ---------------------------------------------------------------- implementation
def _ser(v):
    res = getattr(v, "__dict__", {}).get("result") if not isinstance(v, (str, int, float, type(None))) else None
    if res is not None and hasattr(res, "items"):
        return {"rec": [[k if isinstance(k, str) else repr(k), x if (x is None or isinstance(x, str)) else {"int": x} if (isinstance(x, int) and not isinstance(x, bool)) else {"other": repr(x)[:40]}]
                        for k, x in res.items()]}
    if v is None or isinstance(v, str) or (isinstance(v, int) and not isinstance(v, bool)):
        return v
    return {"other": type(v).__name__, "text": str(v)[:60]}


def run_impl(case):
    root = tempfile.mkdtemp(prefix="sfv_c17_", dir="/var/tmp")
    try:
        return _run(case, root)
    finally:
        gc.collect()
        shutil.rmtree(root, ignore_errors=True)


def _run(case, root):
    from snowfakery import generate_data
    sql_used = {u["ds"] for _, _, _, u, _ in all_uses(case) if u["src"] == "sql"}
    for t, _ in walk(case["recipe"]):        # update mode: the template's own for_each too
        if t["loop"][0] == "foreach" and t["loop"][1]["src"] == "sql":
            sql_used.add(t["loop"][1]["ds"])
    for name, ds in case["datasets"].items():
        with open(os.path.join(root, name + ".csv"), "wb") as f:
            f.write(file_bytes(ds))
        if name in sql_used:
            con = sqlite3.connect(os.path.join(root, name + ".db"))
            cols = ", ".join('"%s" TEXT' % h for h in ds["header"])
            con.execute(ds.get("ddl") or f"create table t ({cols})")
            con.executemany("insert into t values (%s)" % ",".join("?" * len(ds["header"])), ds["rows"])
            con.commit()
            if "sql_rows" in ds:
                got = [[(c if (c is None or isinstance(c, str)) else str(c)) for c in r] for r in con.execute("select * from t")]
                assert got == ds["sql_rows"], "sqlite3 reads the table in another order than at generation time"
            con.close()
    multi = sorted({c for _k, _t, _s, u, _b in all_uses(case) if u.get("dyn", {}).get("what") == "table"
                    for c in u["dyn"]["cands"]})
    if multi:
        con = sqlite3.connect(os.path.join(root, "multi.db"))
        for name in multi:
            ds = case["datasets"][name]
            con.execute('create table "%s" (%s)' % (name, ", ".join('"%s" TEXT' % h for h in ds["header"])))
            con.executemany('insert into "%s" values (%s)' % (name, ",".join("?" * len(ds["header"]))), ds["rows"])
        con.commit()
        con.close()
    recipe_path = os.path.join(root, "recipe.yml")
    with open(recipe_path, "w", encoding="utf-8") as f:
        f.write(render_recipe(case, root))
    kw = {}
    if case["kind"] == "update":
        kw["update_input_file"] = os.path.join(root, case["input"] + ".csv")
        kw["update_passthrough_fields"] = list(case["passthrough"])
    elif case.get("tick"):
        kw["target_number"] = ("Tick", case["iters"])
    if case.get("target"):
        kw["target_number"] = ("T%d" % case["recipe"][0]["tid"], case["target"])
    del _ROWS[:]
    _CAP[0] = case.get("cap", 1500)
    out = {}
    raw = case["raw"] or [0]
    with injected_randbelow(chooser=lambda n, idx: raw[idx % len(raw)] % n) as rec:   # reproducible, never runs dry
        try:
            generate_data(recipe_path, output_format="harness.c17.CaptureStream", **kw)
        except BaseException as e:
            out["err"] = C.canon_exc(e)
            out["msg"] = str(e)[:160]
    out["rows"] = [[t, {k: _ser(v) for k, v in r.items()}] for t, r in _ROWS if t != "Tick"]
    out["draws"] = list(rec.values)
    out["widths"] = list(rec.widths)
    del _ROWS[:]
    return out


# ---------------------------------------------------------------- decoding the observation
class Undecodable(Exception):
    pass


def _align(recpairs, ds):
    """[[key, value], ...] -> cells in header order (exact key match, every key exactly once)"""
    header = ds["header"]
    if ds.get("pk") in ("int", "integer"):       # the key column is numeric in the SQL table, text in the CSV file
        recpairs = [[k, (str(v["int"]) if (k == header[0] and isinstance(v, dict) and "int" in v) else v)] for k, v in recpairs]
    keys = [k for k, _ in recpairs]
    if sorted(keys) != sorted(header):
        raise Undecodable(f"record keys {keys} differ from the header {header}")
    d = dict((k, v) for k, v in recpairs)
    cells = [d[h] for h in header]
    for c in cells:
        if not (c is None or isinstance(c, str)):
            raise Undecodable(f"cell of unexpected type: {c}")
    return cells


def decode(case, obs):
    """rows of the observation as dicts {tid, fe, ci, cons: [(sid, cells)], pas: [text]}"""
    top, _ = effective_top(case)
    tinfo = {t["tid"]: t for t, _ in walk(top or case["recipe"])}
    rows = []
    for table, vals in obs["rows"]:
        if not (table.startswith("T") and table[1:].isdigit() and int(table[1:]) in tinfo):
            raise Undecodable(f"row of unknown table {table}")
        t = tinfo[int(table[1:])]
        row = {"tid": t["tid"], "fe": None, "cons": [], "pas": []}
        try:
            row["ci"] = int(str(vals.get("ci")))
        except ValueError:
            raise Undecodable(f"child_index is {vals.get('ci')!r}")
        if t["loop"][0] == "foreach":
            fds = case["datasets"][t["loop"][1]["ds"]]
            w = vals.get("w")
            try:
                d = ast.literal_eval(w)
                row["fe"] = _align([[k, ({"int": v} if (isinstance(v, int) and not isinstance(v, bool)) else v)]
                                    for k, v in d.items()], fds)
            except Undecodable:
                raise
            except Exception:
                row["fe"] = "unavailable"      # str(PluginResult) no longer a dict literal: skip raw comparison
            n_own = len(t["pass"]) - (len(case["passthrough"]) if (case["kind"] == "update" and top and t is top[0]) else 0)
            for j, name in enumerate(t["pass"]):
                v = vals.get(f"p{j}") if j < n_own else vals.get(name)   # pass-through fields carry their own name
                if isinstance(v, dict):
                    raise Undecodable(f"projected column {name} is {v}")
                row["pas"].append(str(v))
        for sid, u in t["sites"]:
            v = vals.get(f"s{sid}")
            if not (isinstance(v, dict) and "rec" in v):
                raise Undecodable(f"field s{sid} is not a dataset record: {v!r}")
            row["cons"].append((sid, _align(v["rec"], case["datasets"][u["ds"]])))
        rows.append(row)
    return rows


# ---------------------------------------------------------------- model side
def c_cell(c):
    return "None" if c is None else "(Some " + C.clist(C.cz(ord(ch)) for ch in c) + ")"


def c_rec(r):
    return C.clist(c_cell(c) for c in r)


def c_text(s):
    return C.clist(C.cz(ord(ch)) for ch in s)


def c_use(case, u):
    mode = "Linear" if u["mode"] == "iterate" else "Shuffled"
    return f"(mkDs {C.clist(c_rec(r) for r in data_of(case, u))} {mode} {C.cbool(u['repeat'] is not False)})"


def c_tmpl(case, t, update_top=False):
    loop = t["loop"]
    if loop[0] == "default":
        lp = "LDefault"
    elif loop[0] == "count":
        lp = f"(LCount {C.cnat(loop[1])})"
    else:
        lp = f"(LForEach {c_use(case, loop[1])})"
    sites = C.clist(f"({C.cnat(sid)}, {c_use(case, u)})" for sid, u in t["sites"])
    pas = []
    if loop[0] == "foreach":
        pas = [col_index(case, loop[1], name) for name in t["pass"]]
    return (f"(Tmpl {C.cnat(t['tid'])} {lp} {sites} {C.clist(C.cnat(i) for i in pas)} "
            f"{c_tmpls(case, t['nested'])} {c_tmpls(case, t['friends'])})")


def c_tmpls(case, ts):
    out = "TNil"
    for t in reversed(ts):
        out = f"(TCons {c_tmpl(case, t)} {out})"
    return out


def c_row(r):
    cons = C.clist(f"({C.cnat(sid)}, {c_rec(cells)})" for sid, cells in r["cons"])
    pas = C.clist(c_text(p) for p in r["pas"])
    return f"(mkRow {C.cnat(r['tid'])} {C.copt(r['fe'], c_rec)} {C.cz(r['ci'])} {cons} {pas})"


def fy_draws(n, prefix):
    """Fisher-Yates draws (random.shuffle, Python 3.12) that make list(range(n)) start with `prefix`"""
    seen = set(prefix)
    target = list(prefix) + [i for i in range(n) if i not in seen]
    x = list(range(n))
    pos = list(range(n))            # pos[v] = index of v in x
    draws = []
    for i in reversed(range(1, n)):
        j = pos[target[i]]
        draws.append(j)
        a, b2 = x[i], x[j]
        x[i], x[j] = b2, a
        pos[b2], pos[a] = i, j
    assert x == target
    return draws


def infer_draws(case, rows):
    """The permutation of every pass of every shuffled use is read back from that use's own rows and turned
    into the Fisher-Yates draws that produce it; the passes are put in the order in which the recipe starts
    them (spec_run).  SQLite's ORDER BY random() cannot be injected, and for CSV files this keeps the
    comparison independent of how the code obtains its permutation (random.shuffle today)."""
    uses = {}
    for kind, t, sid, u, _b in all_uses(case):
        if u["mode"] == "shuffle":
            uses[("fe", t["tid"]) if kind == "foreach" else ("site", sid)] = (t, sid, u)
    if not uses:
        return []
    groups = {}
    for key, (t, sid, u) in uses.items():
        n = len(data_of(case, u))
        trows = [r for r in rows if r["tid"] == t["tid"]]
        g = []
        if key[0] == "fe":
            for r in trows:
                if r["ci"] == 0 or not g:
                    g.append([])
                g[-1].append(r["fe"])
        else:
            vals = [dict(r["cons"]).get(sid) for r in trows]
            g = [vals[i:i + n] for i in range(0, len(vals), max(n, 1))]
        groups[key] = g
    draws = []
    maxn = 1
    for key, j in spec_run(case)[2]:
        t, sid, u = uses[key]
        data = data_of(case, u)
        n = len(data)
        maxn = max(maxn, n)
        where = {}
        for i, d in enumerate(data):
            where.setdefault(tuple(d), []).append(i)
        where = {k: list(reversed(v)) for k, v in where.items()}
        prefix = []
        for v in (groups[key][j] if j < len(groups[key]) else []):
            lst = where.get(tuple(v))
            if not lst:
                return "noperm"
            prefix.append(lst.pop())
        draws += fy_draws(n, prefix)
    return draws + [0] * (3 * maxn)


def coq_case(case, obs):
    if any("long" in ds for ds in case["datasets"].values()):
        return None                 # malformed file: outside the model, oracle only
    if any(u.get("dyn") for _k, _t, _s, u, _b in all_uses(case)):
        return None                 # dataset name computed at run time: the model's templates are static
    try:
        rows = decode(case, obs)
    except Undecodable:
        return None                 # reported by the oracle; nothing representable to compare
    if any(r["fe"] == "unavailable" for r in rows):
        return None
    err = obs.get("err")
    if err not in (None, "DGE"):
        return None                 # a crash / runaway loop: reported by the oracle, the model only knows DGE
    orc = infer_draws(case, rows)
    if orc == "noperm":
        orc = [0] * 64              # the oracle reports it; the model will disagree as well
    top, _ = effective_top(case)
    tids = sorted({t["tid"] for t, _ in walk(case["recipe"])})
    e = "None" if err is None else f"(Some {C.cerr(err)})"
    exp = C.clist(c_row(r) for r in rows)
    orc_t = C.clist(C.cz(v) for v in orc)
    tids_t = C.clist(C.cnat(t) for t in tids)
    if case["kind"] == "update":
        inp = C.clist(c_rec(r) for r in case["datasets"][case["input"]]["rows"])
        pt = C.clist(C.cnat(col_index(case, use(case["input"]), name)) for name in case["passthrough"])
        return f"CUpdate {c_tmpls(case, case['recipe'])} {inp} {pt} {orc_t} {tids_t} {exp} {e}"
    return f"CRun {C.cnat(case['iters'])} {c_tmpls(case, case['recipe'])} {orc_t} {tids_t} {exp} {e}"


# ---------------------------------------------------------------- property oracle (implementation only)
class _SpecStop(Exception):
    pass


def spec_run(case):
    """What the property prescribes: rows per template, whether the run must end in an error, and the order
    in which the shuffled uses start their passes (("site", sid) / ("fe", tid), pass number).
    Every call site hands out record k mod n on its k-th use; repeat: False sites fail on use n+1;
    an empty dataset fails on the first use; for_each expands once per record."""
    top, why = effective_top(case)
    counts = Counter()
    events = []
    if top is None:
        return counts, True, events
    used = Counter()
    passes = Counter()
    cur = {}

    def start(key, u):
        if u["mode"] == "shuffle":
            events.append((key, passes[key]))
            passes[key] += 1

    def gen(t):
        loop = t["loop"]
        fe_bad = None
        if loop[0] == "foreach":
            start(("fe", t["tid"]), loop[1])
            fe_data = data_of(case, loop[1], cur)
            reps = len(fe_data)
            fe_bad = case["datasets"][loop[1]["ds"]].get("long")
            if fe_bad is not None and loop[1]["mode"] == "shuffle":
                raise _SpecStop()
        else:
            reps = 1 if loop[0] == "default" else loop[1]
        for i in range(reps):
            if fe_bad is not None and i == fe_bad:
                raise _SpecStop()
            if loop[0] == "foreach" and loop[1]["mode"] == "iterate":
                cur[t["tid"]] = fe_data[i]
            for sid, u in t["sites"]:
                n = len(data_of(case, u))
                k = used[sid]
                if k == 0 or (n > 0 and k % n == 0 and u["repeat"] is not False):
                    start(("site", sid), u)          # created at its first use, restarted after every n
                if n == 0 or (u["repeat"] is False and k >= n):
                    raise _SpecStop()
                bad = case["datasets"][u["ds"]].get("long")
                if bad is not None and (u["mode"] == "shuffle" or k % n == bad):
                    raise _SpecStop()
                used[sid] += 1
            for ch in t["nested"]:
                gen(ch)
            if loop[0] == "foreach":
                hdr = case["datasets"][loop[1]["ds"]]["header"]
                if any(col_index(case, loop[1], name) >= len(hdr) for name in t["pass"]):
                    raise _SpecStop()
            counts[t["tid"]] += 1
            for f in t["friends"]:
                gen(f)

    try:
        for _ in range(case["iters"]):
            for t in top:
                gen(t)
    except _SpecStop:
        return counts, True, events
    if case["kind"] == "update" and case.get("target") and counts[top[0]["tid"]] < case["target"]:
        # update mode reads its input once (one shared non-repeating iterator): a second iteration finds it
        # used up, writes nothing, and the run must stop with an error, never start the file again
        return counts, "target", events
    return counts, False, events


def spec_counts(case):
    counts, must_fail, _ = spec_run(case)
    return counts, must_fail


def _render(c):
    return "None" if c is None else c


def _oracle_dyn(case, rows, t, u, err):
    """inner for_each whose dataset is named by the outer record: the rows written for outer record r must be the
    records of the file / table that r names, in order (or each once), child_index 0..n-1"""
    dyn = u["dyn"]
    segs, pending = [], []
    for r in rows:
        if r["tid"] == t["tid"]:
            if dyn["place"] == "friend":
                if not segs:
                    return f"for_each: T{t['tid']} wrote a row before any row of its parent"
                segs[-1][1].append(r)
            else:
                pending.append(r)
        elif r["tid"] == dyn["outer"]:
            segs.append((r, pending if dyn["place"] == "nested" else []))
            pending = []
    if pending and not err:
        return f"for_each: rows of T{t['tid']} without a parent row"
    for si, (orow, inner) in enumerate(segs):
        if orow["fe"] in (None, "unavailable"):
            continue
        data = data_of(case, u, {dyn["outer"]: orow["fe"]})
        n = len(data)
        last = si == len(segs) - 1
        if [r["ci"] for r in inner] != list(range(len(inner))):
            return f"for_each: child_index sequence of T{t['tid']} under {orow['fe']} is {[r['ci'] for r in inner]}"
        if len(inner) > n or (len(inner) < n and not (last and err)):
            return f"for_each: T{t['tid']} wrote {len(inner)} rows under {orow['fe']}, whose dataset has {n} records"
        fes = [r["fe"] for r in inner]
        if any(f == "unavailable" for f in fes):
            continue
        if u["mode"] == "iterate" and fes != data[:len(fes)]:
            return f"for_each: under {orow['fe']} T{t['tid']} saw {fes}, the dataset named there has {data}"
        if u["mode"] == "shuffle" and (Counter(map(tuple, fes)) - Counter(map(tuple, data))):
            return f"for_each: under {orow['fe']} T{t['tid']} (shuffled) saw {fes}, the dataset named there has {data}"
        for r in inner:
            for name, got in zip(t["pass"], r["pas"]):
                ci = col_index(case, u, name)
                if ci >= len(r["fe"]) or got != _render(r["fe"][ci]):
                    return f"for_each: column {name} of {r['fe']} arrived as {got!r}"
    return None


def oracle(case, obs):
    for name, ds in case["datasets"].items():
        h, recs = decode_reference(ds)
        if h != ds["header"] or recs != ds["rows"]:
            raise AssertionError(f"reference decoder disagrees with the generator on {name}")
    err = obs.get("err")
    counts, must_fail, _ev = spec_run(case)
    if err == "RuntimeError" and must_fail == "target":
        err = "DGE"       # "... At this rate we will never hit our target": the input is used up, the run stops with an error
    if err is not None and err != "DGE":
        return f"outcome: the run ended with {err} ({obs.get('msg', '')[:80]}) instead of rows or a DataGenError"
    try:
        rows = decode(case, obs)
    except Undecodable as e:
        return f"record: {e}"
    top, _ = effective_top(case)
    uses = all_uses(case)
    for kind, t, sid, u, rc in uses:
        if u.get("dyn"):
            msg = _oracle_dyn(case, rows, t, u, err)
            if msg:
                return msg
            continue
        data = data_of(case, u)
        n = len(data)
        trows = [r for r in rows if r["tid"] == t["tid"]]
        if kind == "site":
            vals = [dict(r["cons"])[sid] for r in trows]
            msg = None
            for k, v in enumerate(vals):
                if n == 0:
                    msg = f"a record was handed out from an empty dataset: {v}"
                elif u["repeat"] is False and k >= n:
                    msg = f"silent reuse: draw {k + 1} from a non-repeating dataset of {n} records returned {v}"
                elif u["mode"] == "iterate" and v != data[k % n]:
                    msg = f"draw {k} (0-based) of an {n}-record dataset is {v}, expected record {k % n} = {data[k % n]}"
                if msg:
                    break
            if not msg and u["mode"] == "shuffle" and n > 0:
                for b in range(0, len(vals), n):
                    block = Counter(tuple(v) for v in vals[b:b + n])
                    want = Counter(tuple(d) for d in data)
                    if (len(vals) - b >= n and block != want) or (block - want):
                        msg = f"draws {b}..{b + n - 1} of a shuffled {n}-record dataset are not a permutation of it: {vals[b:b + n]}"
                        break
            if msg:
                where = " (below a for_each)" if rc else ""
                return f"iterate: call site s{sid} of T{t['tid']}{where}: {msg}"
        else:
            # for_each: every evaluation writes the records in order (or each once), child_index 0..n-1
            evals = []
            for r in trows:
                if r["ci"] == 0 or not evals:
                    evals.append([])
                evals[-1].append(r)
            for ei, ev in enumerate(evals):
                last = ei == len(evals) - 1
                if [r["ci"] for r in ev] != list(range(len(ev))):
                    return f"for_each: child_index sequence of T{t['tid']} is {[r['ci'] for r in ev]}"
                if len(ev) > n or (len(ev) < n and not (last and err)):
                    return f"for_each: T{t['tid']} wrote {len(ev)} rows for a dataset of {n} records"
                fes = [r["fe"] for r in ev]
                if any(f == "unavailable" for f in fes):
                    continue
                if u["mode"] == "iterate" and fes != data[:len(fes)]:
                    return f"for_each: T{t['tid']} saw {fes}, the file has {data}"
                if u["mode"] == "shuffle" and (Counter(map(tuple, fes)) - Counter(map(tuple, data))):
                    return f"for_each: T{t['tid']} (shuffled) saw {fes}, the file has {data}"
            # projected columns
            for r in trows:
                if r["fe"] in (None, "unavailable"):
                    continue
                for name, got in zip(t["pass"], r["pas"]):
                    ci = col_index(case, u, name)
                    if ci >= len(r["fe"]):
                        return f"for_each: T{t['tid']} wrote a row although column {name} does not exist"
                    if got != _render(r["fe"][ci]):
                        return f"for_each: column {name} of {r['fe']} arrived as {got!r}"
    # row counts and outcome, as the property prescribes them
    got = Counter(r["tid"] for r in rows)
    msg = None
    if must_fail and err is None:
        msg = "the run succeeded although a dataset was over-consumed / the recipe is not a valid update recipe"
    elif not must_fail and err is not None:
        msg = f"the run failed with {err} ({obs.get('msg', '')[:80]}) although every dataset had enough records"
    else:
        for t, _rc in walk(top or []):
            if got[t["tid"]] != counts[t["tid"]]:
                msg = f"T{t['tid']} wrote {got[t['tid']]} rows, expected {counts[t['tid']]}"
                break
    if msg:
        return "count: " + msg
    return None


def match_finding(case, obs, msg, findings):
    """No open finding for C17 (the one found here, 'Dataset.iterate/shuffle below a for_each restarted at every
    evaluation', is repaired; its witness corpus/C17/finding_call_site_below_for_each.json is a regression case)."""
    return None


def violation_class(case, obs, msg):
    return msg.split(":")[0]


# ---------------------------------------------------------------- evidence
def nontrivial(case, obs):
    try:
        rows = decode(case, obs)
    except Exception:
        return False
    for kind, t, sid, u, rc in all_uses(case):
        n = len(data_of(case, u))
        k = sum(1 for r in rows if r["tid"] == t["tid"])
        if n >= 2 and (k >= 2 or obs.get("err")):
            return True
    return False


def stats(cases, obss):
    kinds, sizes, modes, srcs, reps, outcomes, place, draws = (Counter() for _ in range(8))
    feats = Counter()
    for c, o in zip(cases, obss):
        kinds[c["kind"]] += 1
        if isinstance(o, dict):
            outcomes[o.get("err", "ok") if "rows" in o else "harness"] += 1
        for ds in c["datasets"].values():
            nrec = len(ds["rows"])
            sizes[nrec if nrec <= 7 else ">=499"] += 1
            feats["bom"] += bool(ds.get("bom"))
            feats["crlf"] += "\r\n" in ds["text"]
            feats["quoted"] += '"' in ds["text"]
            feats["non_ascii"] += any(ord(ch) > 127 for ch in ds["text"])
            feats["short_lines"] += any(None in r for r in ds["rows"])
            feats["long_line(oracle only)"] += "long" in ds
            feats["embedded_newline"] += any(c2 and "\n" in c2 for r in ds["rows"] for c2 in r)
        for kind, t, sid, u, rc in all_uses(c):
            modes[f"{kind}/{u['mode']}"] += 1
            srcs[u["src"]] += 1
            reps[str(u["repeat"])] += 1
            place["below_for_each" if (rc and kind == "site") else "plain"] += 1
            if kind == "site" and t["loop"][0] == "count":
                n = len(data_of(c, u))
                m = t["loop"][1]
                draws["m=0" if m == 0 else "m<n" if m < n else "m=n" if m == n else "m=n+1" if m == n + 1
                      else "m multiple of n" if n and m % n == 0 else "m>n"] += 1
        feats["two_iterations"] += c.get("iters", 1) > 1
        feats["stopping_criterion_on_dataset_table"] += bool(c.get("target"))
        feats["sql_primary_key"] += any("pk" in ds for ds in c["datasets"].values())
        feats["dataset_named_by_outer_record(oracle only)"] += any(u.get("dyn") for _k, _t, _s, u, _b in all_uses(c))
        nsh = sum(1 for _k, _t, _s, u, _b in all_uses(c) if u["mode"] == "shuffle")
        feats["shuffled_uses>=2 (interleaved)"] += nsh >= 2
        feats["nested_objects"] += any(t["nested"] for t, _ in walk(c["recipe"]))
        feats["friends"] += any(t["friends"] for t, _ in walk(c["recipe"]))
        feats["nickname"] += any(t.get("nick") for t, _ in walk(c["recipe"]))
        if c["kind"] == "update":
            feats["update_passthrough"] += bool(c["passthrough"])
    return {"kinds": dict(kinds), "dataset_sizes": {str(k): v for k, v in sorted(sizes.items(), key=lambda kv: str(kv[0]))},
            "uses": dict(modes), "sources": dict(srcs), "repeat_kw": dict(reps), "outcomes": dict(outcomes),
            "placement": dict(place), "count_vs_size": dict(draws), "features": dict(feats)}


# ---------------------------------------------------------------- shrinking / directed search
def _with_rows(case, name, rows):
    ds = dict(case["datasets"][name])
    ds["rows"] = rows
    ds["text"] = render_csv(__import__("random").Random(0), ds["header"], rows, False, "minimal", False, True)
    ds["bom"] = False
    if "pk" in ds:
        ds["ddl"], ds["sql_rows"] = sql_layout(ds)
    if "long" in ds:
        bad = [i for i, r in enumerate(rows) if len(r) > len(ds["header"])]
        if bad:
            ds["long"] = bad[0]
        else:
            del ds["long"]
    c = dict(case)
    c["datasets"] = dict(case["datasets"], **{name: ds})
    return c


def shrink(case):
    """a few big steps only: every candidate costs a fresh worker pool in the driver"""
    import copy
    if case.get("iters", 1) > 1:
        yield dict(case, iters=1)
    for name, ds in case["datasets"].items():
        rows = ds["rows"]
        if len(rows) > 2:
            yield _with_rows(case, name, rows[:2])
        if len(rows) > 1:
            yield _with_rows(case, name, rows[:-1])
    for idx, (t, _) in enumerate(walk(case["recipe"])):
        if t["loop"][0] == "count" and t["loop"][1] > 1:
            for m in (t["loop"][1] // 2, t["loop"][1] - 1):
                c = copy.deepcopy(case)
                list(walk(c["recipe"]))[idx][0]["loop"][1] = m
                yield c
    for name, ds in case["datasets"].items():
        plain = [[(None if c is None else f"r{i}c{j}") for j, c in enumerate(r)] for i, r in enumerate(ds["rows"])]
        if plain != ds["rows"]:
            yield _with_rows(case, name, plain)


def directed_search(rng, disagreeing):
    out = []
    for n in range(0, 5):
        for m in range(0, 3 * n + 3):
            for mode in ("iterate", "shuffle"):
                for repeat in (None, False):
                    out.append(gen_consumer_case(rng, n=n, m=m, mode=mode, repeat=repeat, src="csv",
                                                 placement=rng.choice(["top", "friend", "nested"]), iters=rng.choice([1, 2])))
            out.append(gen_consumer_case(rng, n=n, m=m, mode="iterate", repeat=None, src="sql", placement="top"))
        for mode in ("iterate", "shuffle"):
            for src in ("csv", "sql"):
                out.append(gen_foreach_case(rng, n=n, mode=mode, src=src))
        out.append(gen_update_case(rng, n=n))
    out.extend(gen_interleaved_case(rng) for _ in range(200))
    out.extend(big_cases(rng, "quick"))
    out.extend(gen_consumer_case(rng) for _ in range(600))
    out.extend(gen_foreach_case(rng) for _ in range(300))
    out.extend(gen_update_case(rng) for _ in range(200))
    return out
