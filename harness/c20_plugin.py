"""Fault-injection plugin of the C20 check: `Boom.boom: <ExceptionName>` raises that exception
from inside a plugin function call; `Boom.text: s` returns the string s; any other attribute
does not exist (attribute lookup fails)."""
import builtins

from snowfakery.plugins import SnowfakeryPlugin


def make_exc(name):
    if name == "DGE":
        from snowfakery.data_gen_exceptions import DataGenError
        return DataGenError("injected recipe error")
    cls = getattr(builtins, name)
    return cls("injected " + name)


class Boom(SnowfakeryPlugin):
    class Functions:
        def boom(self, name="KeyError"):
            raise make_exc(str(name))

        def text(self, s="abc"):
            return str(s)
