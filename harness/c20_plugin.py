"""Fault-injection plugin of the C20 check.

`Boom.boom: <ExceptionName>` raises that exception from inside a plugin function call;
`Boom.boom: {name: <ExceptionName>, msg: <index into HOSTILE>}` raises it with that text (the empty text
makes an exception whose str() is empty); any attribute whose name starts with `boom` is such a function
(so that the function name itself can carry hostile text: `Boom.boom{x}`); `Boom.text: s` returns the
string s; `Boom.obj` returns an object no field may hold; `Boom.items: {n: k, repeat: bool}` returns an iterator
(a PluginResultIterator written the way the dataset iterators are: start / next_result) over k records - k = 0 is a
source that is used up before it gave anything, also after every restart; any other attribute does not exist
(attribute lookup fails).

HOSTILE is the alphabet of text a recipe author controls and that ends up inside error messages and
format / template operations: table names, nicknames, field names, variable names, option names, macro
names, function names, file names, the text of exceptions."""
import builtins

try:
    from snowfakery.plugins import SnowfakeryPlugin
except ImportError:          # the harness process imports this module for HOSTILE only
    SnowfakeryPlugin = object
try:
    from snowfakery.plugins import PluginResultIterator, PluginResult
except ImportError:
    PluginResultIterator = PluginResult = None

HOSTILE = [
    "{", "}", "{}", "{0}", "{1}", "{x}", "{e}", "{{", "}}", "{{}}", "{e.__class__}", "{0!r}", "{:>10}", "{e!s:{e}}",
    "a{b}c", "}{", "{ }", "{0}{}", "${{", "${{x}}", "<<x>>", "${% if %}",
    "%", "%s", "%d", "%(x)s", "%%", "100%", "%(e)s",
    "\\", "\\n", "\\{", "\\x", "C:\\path\\{e}",
    "\"", "'", "`", "'{}'", "\"{e}\"",
    "line\nbreak", "tab\there", "cr\rlf", " lead", "trail ", "  ",
    "é", "名前", "😀", "a\u0301", "\u202eabc", "Ω{Ω}",
    "#", ":", "- x", "a: b", "[x]", "{a: b}", "*a", "&a", "!tag", "|", ">", "~", "null", "None", "true", "5", "1.5",
    "..", "a.b", "a/b", "/", "id", "__x", "x" * 300, "{" * 40, "%s" * 40,
    "\x07", "\x1b[31m", "\x7f", "a\x00b",
    "sqlite_sequence", "SQLite_x", "a\"b", "x\" (id); --", "select", "a;b", "a]b", "[a]",
    "$", "$x", "${x}", "$$", "$(x)", "(", "a(b", "*", "+?", "^$", "\\1", "(?P<e>", "%(", "%c", "%5", "{!}", "{:}", "{:{}}",
    "",
]


def make_exc(name, msg=None):
    text = ("injected " + name) if msg is None else (HOSTILE[msg] if isinstance(msg, int) else str(msg))
    if name == "DGE":
        from snowfakery.data_gen_exceptions import DataGenError
        return DataGenError(text if text.strip() else "injected recipe error")
    cls = getattr(builtins, name)
    return cls(text) if text else cls()


class Boom(SnowfakeryPlugin):
    class Functions:
        def __getattr__(self, attr):
            if attr.startswith("boom"):
                def boom(name="KeyError", msg=None):
                    raise make_exc(str(name), msg)
                return boom
            raise AttributeError(attr)

        def text(self, s="abc"):
            return str(s)

        def obj(self, *a):
            return {"not": "a field value"}.keys()

        def items(self, _=None, *, n=0, repeat=True):
            if PluginResultIterator is None:
                raise AttributeError("items")
            return _Items(int(n), bool(repeat))


class NoFunctions(SnowfakeryPlugin):
    """a plugin class without a function library (no `Functions`, inherited custom_functions)"""


class OwnLibrary(SnowfakeryPlugin):
    """no `Functions` class, but its own custom_functions"""

    class _Lib:
        def one(self):
            return 1

    def custom_functions(self, *args, **kwargs):
        return self._Lib()


if PluginResultIterator is not None:
    class _Items(PluginResultIterator):
        """k records, then used up; restart begins again (with none, if k = 0)"""

        def __init__(self, n, repeat):
            super().__init__(repeat)
            self.n = n
            self.start()

        def start(self):
            self.results = iter([PluginResult({"City": "c%d" % i, "Number": i}) for i in range(self.n)])

        def next_result(self):
            return next(self.results)
