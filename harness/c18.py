"""C18 — fake contact data is safe: reserved e-mail domains, bounded unique usernames, spelling-
insensitive provider names.

Implementation: snowfakery/fakedata/fake_data_generator.py (FakeNames.email / user_name /
_already_have, replace_unicode_strings_with_None, FakeData.__init__ / _get_fake_data),
snowfakery/utils/template_utils.py (FakerTemplateLibrary), data_generator_runtime.py
(EvaluationNamespace.fake, RuntimeContext.local_vars).  Model: coq/theories/Fake.v.

Case kinds
  locale  one Faker locale: (a) the name table — dir() of the locale's Faker and of FakeNames, every
          query spelling resolved through FakerTemplateLibrary._get_fake_data with Faker's providers
          replaced by stubs that return "F:<name>" (so the provider that answered is observable);
          (b) the provider's safe_domain_names; (c) rows: small recipes run through
          snowfakery.data_generator.generate — each row is one object template whose fields are `fake:`
          calls in every request form of FORM_TEXT / _field_stmt (block, dotted, formula variants), in recipe
          dialects 2 and 3; first/last names (and for the
          uniqueness witnesses the hostname) can be injected, every value Faker returns at the top level
          is recorded, the two draws of the module-level `random` are injected.
  user    FakeNames.user_name called directly with a stub Faker (boundaries of the truncation)
  email   FakeNames.email called directly with a stub Faker
  clean   replace_unicode_strings_with_None on a batch of strings
"""
import contextlib
import io
import random as _random
import re
from collections import Counter

from . import common as C

PROP = "C18"
MODEL = "Fake"
SHARD = 12
CASE_TIMEOUT = 90
RESERVED = ("example.com", "example.org", "example.net")
RULE = ("cases: per Faker locale (quick: en_US, default, ja_JP, ko_KR + 10 sampled; thorough: all of "
        "faker.config.AVAILABLE_LOCALES) the real dir() lists go through the model's table construction and every "
        "query spelling (exact, case flips, all underscores removed, underscores moved, unknown, non-ASCII) is resolved "
        "by FakerTemplateLibrary with stubbed providers and compared with the model; the provider's safe_domain_names; "
        "rows = recipes run by snowfakery.data_generator.generate with fields `fake: <first/last name spelling>`, "
        "`fake: email`, `fake: username` in varying order — every request (names as well as e-mail/username) in one of the forms "
        "block `fake: X`, dotted `fake.X: []` / `fake.X: {}` / `fake.X: {matching: False}`, formula `${{fake.X}}`, `${{fake.X()}}`, "
        "`${{fake[\"X\"]}}`, `${{fake.X + ''}}`, `<<${{fake.X}}>>` inside a text, `${{fake.X(matching=False)}}`, crossed with the "
        "spellings (first_name, FirstName, firstname, FIRST_NAME, First_Name, fIRSTnAME, Firstname ...) and the recipe dialect "
        "(no snowfakery_version, 2, 3) — also with nested objects (one and two levels), friends and count loops that fake names of their own between a row's names and its e-mail/username — names genuine or injected (ASCII, punctuation, "
        "1 char, empty, non-ASCII, digits, '@', 100 chars), all Faker return values recorded and replayed in the model, "
        "template/year draws injected; direct calls of FakeNames.user_name/email with stub Faker at the truncation "
        "boundaries; replace_unicode_strings_with_None on boundary code points.  non-trivial: a locale case in which "
        "an e-mail or username was produced, a user/email unit case, a clean batch; distinct by case hash")
TRUSTED = ["harness/c18.py: faker.proxy.Faker.__getattr__ wrapped from the harness side (records / injects / stubs the "
           "top-level Faker calls); random.Random._randbelow wrapped for the module-level generator only",
           "harness/c18.py: the capturing OutputStream"]
ASSUMPTIONS = ["code as repaired by the fix commits for C18-K1 (names are cut before the uuid, 16 uuid characters kept) and "
               "C18-K2 (fifth table layer: Faker spellings of Snowfakery names)",
               "Faker: safe_domain_name() returns an element of the provider's safe_domain_names (checked per locale: "
               "subset of example.com/.org/.net); ascii_safe_email() is <no '@'>@<reserved domain> (checked on every draw)",
               "Faker: hostname() has no '@' and at most 79 characters; uuid4() has 36 characters and no '@'; "
               "first_name()/last_name() contain no '@' (checked on every recorded value)",
               "distinct uuid4() calls return distinct values (128 random bits; not provable)",
               "str.lower on ASCII names = the model's lower; Python str = sequence of code points",
               "this_year - 80 .. this_year - 10 are four-digit years"]
EXHAUSTIVE = {"quick": False, "thorough": False}

QUICK_FIXED = ["en_US", None, "ja_JP", "ko_KR"]
EMAIL_CANON = "email"
USER_CANON = "username"


def canon(n):
    return n.lower().replace("_", "")


# ================================================================ worker side: patches
class _State:
    def __init__(self, mode):
        self.mode = mode
        self.row = 0
        self.inject = {}
        self.raw = {}
        self.flog = {}
        self.draws = {}


@contextlib.contextmanager
def _patched(state):
    """Wrap the Faker proxy's attribute access and the module-level random generator."""
    import faker.proxy as fp
    cls = fp.Faker
    orig_ga = cls.__getattr__
    orig_rb = _random.Random._randbelow
    inst = getattr(_random, "_inst", None)

    def ga(self, attr):
        real = orig_ga(self, attr)
        if attr.startswith("_") or not callable(real):
            return real
        if state.mode == "stub":
            def stub(*a, **k):
                return "F:" + attr
            return stub

        def rec(*a, **k):
            row = state.row
            queue = state.inject.get(row, {}).get(attr)
            if queue:
                v = queue.pop(0)
            else:
                try:
                    v = real(*a, **k)
                except BaseException as e:
                    state.flog.setdefault(row, []).append([attr, None, "raised:" + type(e).__name__])
                    raise
            ok = isinstance(v, str)
            state.flog.setdefault(row, []).append([attr, v if ok else None, None if ok else type(v).__name__])
            return v
        return rec

    def rb(self, n):
        if self is inst and state.mode == "record":
            row = state.row
            queue = state.raw.get(row)
            v = queue.pop(0) % n if queue else orig_rb(self, n)
            state.draws.setdefault(row, []).append([n, v])
            return v
        return orig_rb(self, n)

    cls.__getattr__ = ga
    _random.Random._randbelow = rb
    try:
        yield
    finally:
        cls.__getattr__ = orig_ga
        _random.Random._randbelow = orig_rb


class _Ctx:
    """what FakeNames / FakeData need from a PluginContext"""
    def __init__(self, lv=None):
        self.v = dict(lv or {})

    def local_vars(self):
        return self.v


def _sig(fn):
    try:
        r = fn()
    except Exception as e:
        return "!" + type(e).__name__
    if isinstance(r, str):
        return r
    return "<" + type(r).__name__ + ">"


def _this_year():
    try:
        from snowfakery.fakedata import fake_data_generator as m
        y = getattr(m, "this_year", None)
        if isinstance(y, int):
            return y
    except Exception:
        pass
    import datetime
    return datetime.datetime.today().year


# ================================================================ worker side: run_impl
def _table_part(case):
    import warnings
    warnings.filterwarnings("ignore")
    from faker import Faker, Generator
    locale = case["locale"]
    out = {}
    f = Faker(locale, use_weighting=False)
    out["fk_dir"] = list(dir(f))
    out["ignore"] = sorted(set(dir(Faker)) | set(dir(Generator)))
    doms = None
    try:
        for p in f.factories[0].get_providers():
            if hasattr(p, "safe_domain_names"):
                doms = sorted(set(p.safe_domain_names))
                break
    except Exception:
        doms = None
    out["doms"] = doms
    ig = set(out["ignore"])
    noncall = []
    for n in out["fk_dir"]:
        if not n.startswith("_") and n not in ig:
            try:
                if not callable(getattr(f, n)):
                    noncall.append(n)
            except Exception:
                noncall.append(n)
    out["fk_noncallable"] = noncall
    try:
        from snowfakery.fakedata.fake_data_generator import FakeNames
    except Exception:
        FakeNames = None
    st = _State("stub")
    with _patched(st):
        if FakeNames is not None:
            try:
                inst = FakeNames(Faker(locale, use_weighting=False), _Ctx())
                sf_dir = list(dir(inst))
                sigs, ni = [], []
                for n in sf_dir:
                    if n.startswith("_"):
                        continue
                    v = getattr(inst, n)
                    if v is NotImplemented:
                        ni.append(n)
                        sigs.append([n, "NI"])
                    else:
                        inst.faker_context.v.clear()
                        sigs.append([n, _sig(v)])
                sigs += [["F:" + n, "!TypeError"] for n in noncall]
                out.update(sf_dir=sf_dir, ni=ni, sigs=sigs)
            except Exception as e:
                out["sf_problem"] = f"{type(e).__name__}: {e}"
        from snowfakery.utils.template_utils import FakerTemplateLibrary
        ctx = _Ctx()
        lib = FakerTemplateLibrary([], locale, ctx)
        res = []
        for i, qd in enumerate(case.get("queries", [])):
            q = qd["q"]
            ctx.v.clear()
            via_attr = (i % 3 == 2 and q.isidentifier() and q.isascii() and not q.startswith("_")
                        and q not in ("locale", "context", "fake_data"))
            if via_attr:
                res.append(_sig(lambda: getattr(lib, q)()))       # the ${{fake.X}} path
            else:
                res.append(_sig(lambda: lib._get_fake_data(q)))   # the `fake: X` path
        out["queries"] = res
    return out


NESTED = "<nested>"

# The ways a recipe can ask for a fake value.  They reach FakeData._get_fake_data on three routes:
# EvaluationNamespace.fake (block), StructuredValue.render -> getattr(fake, X)(*args, **kwargs) (dotted)
# and Jinja -> FakerTemplateLibrary.__getattr__ -> StringGenerator (__str__/__call__/__add__/render).
EMB = ("<<", ">>")
FORM_TEXT = {
    "jinja": "${{fake.%s}}",                              # StringGenerator rendered by the formula engine
    "jcall": "${{fake.%s()}}",                            # StringGenerator.__call__
    "jitem": '${{fake["%s"]}}',                           # Jinja subscript -> getattr
    "jadd": "${{fake.%s + ''}}",                          # StringGenerator.__add__
    "jembed": EMB[0] + "${{fake.%s}}" + EMB[1],           # inside a longer text
    "nomatch": "${{fake.%s(matching=False)}}",
    "jitem-nomatch": '${{fake["%s"](matching=False)}}',
    "jembed-nomatch": EMB[0] + "${{fake.%s(matching=False)}}" + EMB[1],
}
EMBED_FORMS = ("jembed", "jembed-nomatch")
NOMATCH_FORMS = ("nomatch", "dotted-nomatch", "jitem-nomatch", "jembed-nomatch")
NAME_FORMS = ["block", "jinja", "jcall", "jitem", "jadd", "jembed", "dotted", "dotted-kw"]
CONTACT_FORMS = NAME_FORMS + list(NOMATCH_FORMS)
VERSIONS = (None, 2, 3)


def is_matching(form):
    return form not in NOMATCH_FORMS


def _field_stmt(q, form):
    if form == "block":
        return {"fake": q}
    if form == "dotted":
        return {"fake." + q: []}
    if form == "dotted-kw":
        return {"fake." + q: {}}
    if form == "dotted-nomatch":
        return {"fake." + q: {"matching": False}}
    return FORM_TEXT[form] % q


def template_ops(t):
    """evaluation order of one template instantiation: ("push",) fields/nested/friends ... ("pop",).
    All rows of a `count:` loop share the template's context."""
    ops = [("push",)]
    for _ in range(t.get("count", 1)):
        for f in t["fields"]:
            if f[0] == NESTED:
                ops.extend(template_ops(f[1]))
            else:
                ops.append(("fake", f[0], f[1]))
        for fr in t.get("friends", []):
            ops.extend(template_ops(fr))
    ops.append(("pop",))
    return ops


def row_queries(row):
    return [(o[1], o[2]) for o in template_ops(row) if o[0] == "fake"]


def _n_written(t):
    inner = sum(_n_written(f[1]) for f in t["fields"] if f[0] == NESTED)
    inner += sum(_n_written(fr) for fr in t.get("friends", []))
    return t.get("count", 1) * (1 + inner)


def _template_stmt(name, t):
    fields = {}
    for j, f in enumerate(t["fields"]):
        if f[0] == NESTED:
            fields[f"f{j}"] = [_template_stmt(f"{name}_{j}", f[1])]
        else:
            fields[f"f{j}"] = _field_stmt(f[0], f[1])
    d = {"object": name}
    if t.get("count", 1) != 1:
        d["count"] = t["count"]
    d["fields"] = fields
    if t.get("friends"):
        d["friends"] = [_template_stmt(f"{name}_f{k}", fr) for k, fr in enumerate(t["friends"])]
    return d


def _collect(name, t, queues, out):
    """values of the fake fields in evaluation order, from the captured rows (per-table FIFO)"""
    for _ in range(t.get("count", 1)):
        row = queues[name].pop(0)
        for j, f in enumerate(t["fields"]):
            if f[0] == NESTED:
                _collect(f"{name}_{j}", f[1], queues, out)
            else:
                v = row[f"f{j}"]
                if f[1] in EMBED_FORMS and isinstance(v, str):
                    if v.startswith(EMB[0]) and v.endswith(EMB[1]) and len(v) >= len(EMB[0]) + len(EMB[1]):
                        v = v[len(EMB[0]):len(v) - len(EMB[1])]
                    else:
                        v = ["other", "unmarked", repr(v)[:60]]
                out.append(v if isinstance(v, str) else ["other", type(v).__name__, repr(v)[:60]])
        for k, fr in enumerate(t.get("friends", [])):
            _collect(f"{name}_f{k}", fr, queues, out)


def _recipe_text(locale, rows, offset, version=None):
    import yaml
    stmts = []
    if version is not None:
        stmts.append({"snowfakery_version": version})
    if locale is not None:
        stmts.append({"var": "snowfakery_locale", "value": locale})
    for i, r in enumerate(rows):
        stmts.append(_template_stmt(f"R{offset + i}", r))
    return yaml.safe_dump(stmts, allow_unicode=True, sort_keys=False)


def _rows_part(case):
    from snowfakery.data_generator import generate
    from snowfakery.output_streams import OutputStream
    rows = case.get("rows", [])
    st = _State("record")
    expected = [_n_written(r) for r in rows]
    for i, r in enumerate(rows):
        st.inject[i] = {k: list(v) for k, v in (r.get("inject") or {}).items()}
        st.raw[i] = list(r.get("draws") or [])
    got = {}

    class Cap(OutputStream):
        def __init__(self):
            pass

        def write_row(self, tablename, row):
            i = st.row
            got.setdefault(i, []).append((tablename, dict(row)))
            if i < len(expected) and len(got[i]) >= expected[i]:
                st.row += 1             # the top-level template and everything below it is finished

        def write_single_row(self, *a):
            pass

        def close(self, **k):
            return []

    results = [None] * len(rows)
    start = 0
    with _patched(st):
        while start < len(rows):
            st.row = start
            err = None
            try:
                generate(io.StringIO(_recipe_text(case["locale"], rows[start:], start, case.get("version"))), {}, Cap())
            except BaseException as e:
                if type(e).__name__ == "_CaseTimeout":
                    raise
                err = C.canon_exc(e)
            done = st.row
            if err is None or done >= len(rows):
                break
            results[done] = {"err": err}
            start = done + 1
    for i in range(len(rows)):
        if results[i] is None:
            written = got.get(i, [])
            if len(written) == expected[i]:
                queues = {}
                for name, row in written:
                    queues.setdefault(name, []).append(row)
                vals = []
                try:
                    _collect(f"R{i}", rows[i], queues, vals)
                    results[i] = {"vals": vals}
                except (KeyError, IndexError):
                    results[i] = {"err": "rows-not-as-expected"}
            else:
                results[i] = {"err": "not-run"}
        results[i]["flog"] = st.flog.get(i, [])
        results[i]["draws"] = st.draws.get(i, [])
    return results


class _StubF:
    def __init__(self, vals, log):
        self._vals, self._log = vals, log

    def __getattr__(self, name):
        if name.startswith("_"):
            raise AttributeError(name)

        def m(*a, **k):
            self._log.append(name)
            v = self._vals.get(name)
            return v if v is not None else "F:" + name
        return m


def run_impl(case):
    kind = case["kind"]
    if kind == "locale":
        out = _table_part(case)
        out["this_year"] = _this_year()
        out["rows"] = _rows_part(case) if case.get("rows") else []
        return out
    if kind == "clean":
        try:
            from snowfakery.fakedata.fake_data_generator import replace_unicode_strings_with_None as fn
        except Exception:
            return {"missing": True}
        return {"out": [fn(s) for s in case["items"]]}
    if kind in ("user", "email"):
        try:
            from snowfakery.fakedata.fake_data_generator import FakeNames
        except Exception:
            return {"missing": True}
        log = []
        f = _StubF({"hostname": case.get("host"), "uuid4": case.get("uuid"), "first_name": case.get("ff"),
                    "last_name": case.get("fl"), "safe_domain_name": case.get("dom"),
                    "ascii_safe_email": case.get("ase")}, log)
        names = FakeNames(f, _Ctx(case["lv"]))
        st = _State("record")
        st.raw[0] = list(case.get("draws") or [])
        with _patched(st):
            try:
                if kind == "user":
                    r = names.user_name() if case["matching"] else names.user_name(matching=False)
                else:
                    r = names.email() if case["matching"] else names.email(matching=False)
                res = {"ok": r if isinstance(r, str) else ["other", type(r).__name__]}
            except BaseException as e:
                if type(e).__name__ == "_CaseTimeout":
                    raise
                res = {"err": C.canon_exc(e)}
        res.update(calls=log, draws=st.draws.get(0, []), this_year=_this_year())
        return res
    raise ValueError(kind)


# ================================================================ generation
FIRST_SPELL = ["first_name", "FirstName", "firstname", "FIRST_NAME", "First_Name", "fIRSTnAME", "Firstname"]
LAST_SPELL = ["last_name", "LastName", "lastname", "LAST_NAME", "Last_Name", "lASTnAME", "Lastname"]
EMAIL_SPELL = ["email", "Email", "EMAIL", "eMail", "e_mail", "E_Mail", "EMAIL_", "em_ail"]
USER_SPELL = ["username", "user_name", "UserName", "Username", "USER_NAME", "User_Name", "uSERnAME", "user_Name"]

NAME_POOL = [
    "John", "Smith", "Mary", "de la Cruz", "O'Brien", "Anne-Marie", "J.R.", "St. John", "A", "z", "9", "",
    "-", "'", "...", " ", "A B C", "Renée", "Müller", "山田", "Ñ", "Zoë1", "İ", "007",
    "42", "a@b", "@", "{x}", "{firstname}", "%s", "x" * 40, "y" * 60, "L" * 100, "\x7f", "\x80", "a\x7fb", "ª",
    "Nguyễn", "Анна", "Xy", "Q_R", "under_score", "\t", "tab\tbed", "José", "Jose",
    "McDonald", "van der Berg", "D'Angelo", "\U0001F600", "á",
]


def _locales():
    import warnings
    warnings.filterwarnings("ignore")
    from faker.config import AVAILABLE_LOCALES
    return sorted(AVAILABLE_LOCALES)


def _spell_variants(rng, name, k):
    """spellings of an attribute name: exact, case flips, underscores removed (valid); underscores moved (partial)"""
    out = [(name, "exact")]
    flat = name.replace("_", "")
    cand = [name.upper(), name.title(), flat, flat.upper(), "".join(p.capitalize() for p in name.split("_")),
            name.swapcase(), "".join(c.upper() if rng.random() < .5 else c for c in name),
            "".join(c.upper() if rng.random() < .5 else c for c in flat)]
    for c in cand:
        out.append((c, "valid"))
    if len(flat) >= 2:
        for _ in range(2):
            pos = rng.randint(1, len(flat) - 1)
            moved = flat[:pos] + "_" + flat[pos:]
            if moved != name:
                out.append((moved, "partial"))
        out.append((name + "_", "partial"))
        out.append(("_" + name, "partial"))
        if "_" in name:
            first = name.index("_")
            out.append((name[:first] + name[first + 1:], "partial" if name.count("_") > 1 else "valid"))
            out.append((name.replace("_", "__"), "partial"))
    seen, res = set(), []
    for q, cls in out:
        if q not in seen:
            seen.add(q)
            res.append((q, cls))
    head = res[:1]
    tail = res[1:]
    rng.shuffle(tail)
    return head + tail[:k]


SF_NAMES = ["alias", "count", "date_time", "date_time_ad", "date_time_between", "date_time_between_dates",
            "date_time_this_century", "date_time_this_decade", "date_time_this_month", "date_time_this_year",
            "datetime", "email", "f", "faker_context", "future_datetime", "index", "iso8601", "postalcode",
            "realistic_maybe_real_email", "state", "user_name"]
CONTACT_NAMES = ["email", "user_name", "first_name", "last_name", "safe_domain_name", "ascii_safe_email", "hostname",
                 "uuid4", "safe_email", "free_email", "company_email", "domain_name", "postal_code", "postcode",
                 "postalcode", "zipcode", "administrative_unit", "state", "phone_number", "first_name_female",
                 "last_name_male", "name", "date_time", "iso8601", "future_datetime", "date_time_between"]


def _queries(rng, locale, n_names):
    import warnings
    warnings.filterwarnings("ignore")
    from faker import Faker, Generator
    f = Faker(locale, use_weighting=False)
    ignore = set(dir(Faker)) | set(dir(Generator))
    fa = [n for n in dir(f) if not n.startswith("_") and n not in ignore]
    names = list(dict.fromkeys(SF_NAMES + [n for n in CONTACT_NAMES if n in fa]))
    rest = [n for n in fa if n not in names]
    rng.shuffle(rest)
    names += rest[:n_names]
    qs = []
    for n in names:
        for q, cls in _spell_variants(rng, n, 5 if n in SF_NAMES or n in CONTACT_NAMES else 3):
            qs.append({"q": q, "base": n, "cls": cls})
    # names that must not be visible / unknown / malformed
    for q in ["seed", "seed_instance", "add_provider", "random", "provider", "format", "parse", "_already_have",
              "__init__", "", "_", "__", "nosuchfake", "first name", "first-name", "email ", " email", "émail",
              "ｅmail", "Émail", "first_namé", "İban", "fake", "Faker", "unique", "optional",
              "locales", "weights", "factories", "generator_attrs", "cache_pattern"]:
        qs.append({"q": q, "base": None, "cls": "other"})
    return qs


def _name_form(rng):
    return "block" if rng.random() < .3 else rng.choice(NAME_FORMS)


def _contact_form(rng):
    return "block" if rng.random() < .3 else rng.choice(CONTACT_FORMS)


def _gen_row(rng, genuine=False):
    fs, ls = rng.choice(FIRST_SPELL), rng.choice(LAST_SPELL)
    # one way of asking for the names per row (so that every (form, spelling) pair meets an e-mail
    # whose names all came that way), mixed ways in the others
    nform = _name_form(rng) if rng.random() < .6 else None
    layout = rng.choice(["fleu", "fleu", "fleu", "flue", "efl", "fe", "le", "e", "u", "flfle", "fuleu", "lfe", "flu",
                         "fxle", "ufle"])
    fields, inject = [], {}
    nf = nl = 0
    for ch in layout:
        if ch == "f":
            fields.append([rng.choice(FIRST_SPELL) if rng.random() < .5 else fs, nform or _name_form(rng)])
            nf += 1
        elif ch == "l":
            fields.append([rng.choice(LAST_SPELL) if rng.random() < .5 else ls, nform or _name_form(rng)])
            nl += 1
        elif ch == "x":
            fields.append([rng.choice(["first_name_female", "LastNameMale", "name", "prefix", "FirstNameMale"]),
                           _name_form(rng)])
        else:
            sp = rng.choice(EMAIL_SPELL[:4] if ch == "e" else USER_SPELL[:7])
            fields.append([sp, _contact_form(rng)])
    if not genuine:
        mode = rng.random()
        if mode < .75:
            inject["first_name"] = [rng.choice(NAME_POOL) for _ in range(nf + 2)]
        if mode > .1:
            inject["last_name"] = [rng.choice(NAME_POOL) for _ in range(nl + 2)]
    tpl = rng.choice([0, 59, rng.randrange(60), rng.randrange(60)])
    yoff = rng.choice([0, 70, rng.randrange(71)])
    return {"fields": fields, "inject": inject, "draws": [tpl, yoff, rng.randrange(60), rng.randrange(71)]}


def _gen_nested_row(rng, genuine=None):
    """parent names, then a nested object / friend that fakes names (and contact data) of its own,
    then the parent's e-mail / username: they must be built from the parent's names"""
    matching = [f for f in CONTACT_FORMS if is_matching(f)]
    F = lambda: [rng.choice(FIRST_SPELL), _name_form(rng)]
    L = lambda: [rng.choice(LAST_SPELL), _name_form(rng)]
    E = lambda: [rng.choice(EMAIL_SPELL[:4]), "block" if rng.random() < .3 else rng.choice(matching)]
    U = lambda: [rng.choice(USER_SPELL[:7]), "block" if rng.random() < .3 else rng.choice(matching)]
    inner = lambda: {"fields": rng.choice([[F(), L()], [F(), L(), E()], [L(), F(), U(), E()], [F()], [E()]])}
    shape = rng.choice(["nested", "nested", "nested", "two-level", "friend", "friend-count", "nested-first",
                        "nested-count", "two-nested"])
    row = {"fields": [F(), L(), [NESTED, inner()], E(), U()]}
    if shape == "two-level":
        mid = {"fields": [F(), L(), [NESTED, inner()], E()]}
        row = {"fields": [F(), L(), [NESTED, mid], rng.choice([E(), U()]), E()]}
    elif shape == "friend":
        row = {"fields": [F(), L(), E()], "friends": [inner()]}
    elif shape == "friend-count":
        row = {"fields": [F(), L(), E(), U()], "friends": [{"fields": [F(), L(), E()]}], "count": 2}
    elif shape == "nested-first":
        row = {"fields": [[NESTED, inner()], F(), L(), E()]}
    elif shape == "nested-count":
        row = {"fields": [F(), L(), [NESTED, dict(inner(), count=2)], E()], "count": 2}
    elif shape == "two-nested":
        row = {"fields": [F(), [NESTED, inner()], L(), [NESTED, inner()], U(), E()]}
    nfake = len([1 for q, _ in row_queries(row)])
    plain = NAME_POOL[:9] + ["Xy", "McDonald", "van der Berg", "D'Angelo", "Jose", "Q_R", "Jackson", "Miles",
                             "Bernard", "Norton"]
    inject = {}
    if genuine is None:
        genuine = rng.random() < .4
    if not genuine:
        pool = plain if rng.random() < .7 else NAME_POOL
        inject = {"first_name": [rng.choice(pool) for _ in range(nfake + 4)],
                  "last_name": [rng.choice(pool) for _ in range(nfake + 4)]}
    row["inject"] = inject
    row["draws"] = [rng.choice([0, 59, rng.randrange(60)]) if k % 2 == 0 else rng.choice([0, 70, rng.randrange(71)])
                    for k in range(2 * nfake)]
    return row


def _probe_rows(rng):
    """two rows that differ only in the uuid4 Faker draws: the usernames must differ"""
    first, last = rng.choice([("Ann", "Lee"), ("Zoë", "Müller"), ("O'Neil", "de la Cruz"), ("A", "B"),
                              ("Christopher", "Featherstonehaugh")])
    host = rng.choice(["web-01.smith.com", "db-77.mueller-schmidt.info", "lt-5.x.org"])
    form = rng.choice(CONTACT_FORMS)
    row = {"fields": [[rng.choice(FIRST_SPELL), _name_form(rng)], [rng.choice(LAST_SPELL), _name_form(rng)],
                      [rng.choice(USER_SPELL[:7]), form]],
           "inject": {"first_name": [first, first], "last_name": [last, last], "hostname": [host]}, "draws": []}
    return [row, dict(row)]


def _gen_bulk_row(rng, i):
    layouts = [[["FirstName", "block"], ["LastName", "block"], ["Email", "block"], ["Username", "block"]],
               [["first_name", "block"], ["last_name", "block"], ["email", "jinja"], ["user_name", "jinja"]],
               [["email", "block"], ["username", "block"]],
               [["FirstName", "block"], ["LastName", "block"], ["Email", "nomatch"], ["UserName", "nomatch"]],
               [["first_name", "jinja"], ["last_name", "jinja"], ["Email", "block"], ["Username", "block"]],
               [["First_Name", "dotted"], ["LAST_NAME", "dotted-kw"], ["email", "dotted"], ["user_name", "dotted"]],
               [["FIRST_NAME", "jcall"], ["Last_Name", "jembed"], ["EMAIL", "jembed"], ["UserName", "jitem"]],
               [["firstname", "jitem"], ["lastname", "jadd"], ["eMail", "jcall"], ["USER_NAME", "dotted-nomatch"]]]
    return {"fields": layouts[i % len(layouts)], "inject": {},
            "draws": [rng.randrange(60), rng.randrange(71)]}


def _gen_user(rng):
    alnum = "abcXYZ019"
    def word(n):
        return "".join(rng.choice(alnum) for _ in range(n))
    hl = rng.choice([0, 1, 20, 30, 41, 42, 43, 60, 77, 78, 79, 80, 81, 100, rng.randint(0, 90)])
    host = (word(hl - 4) + ".com") if hl >= 6 else word(hl)
    uuid = "".join(rng.choice("0123456789abcdef-") for _ in range(36))
    lv = {}
    shape = rng.choice(["both", "both", "both", "first", "none", "nonascii", "punct", "empty"])
    fl = rng.choice([1, 2, 5, 10, 20, 40, 41, 42, 43, 80])
    if shape == "both":
        lv = {"firstname": word(fl), "lastname": word(rng.choice([1, 3, 8, 20, 38, 39, 40]))}
    elif shape == "first":
        lv = {"firstname": word(fl)}
    elif shape == "nonascii":
        lv = {"firstname": "Zoë", "lastname": word(5)}
    elif shape == "punct":
        lv = {"firstname": "O'Neil-" + word(fl), "lastname": "d' A." + word(3)}
    elif shape == "empty":
        lv = {"firstname": "", "lastname": "--"}
    if rng.random() < .2:
        lv["email"] = "x@example.com"
    ff = rng.choice([word(rng.choice([1, 6, 12, 30])), "山田", "Renée" * rng.choice([1, 8]), ""])
    fln = rng.choice([word(rng.choice([1, 7, 15, 40])), "สมชาย" * rng.choice([1, 6])])
    return {"kind": "user", "matching": rng.random() < .8, "lv": lv, "host": host, "ff": ff, "fl": fln, "uuid": uuid}


def _gen_email(rng):
    lv = {}
    shape = rng.choice(["both", "both", "both", "first", "last", "none", "mixed"])
    plain = NAME_POOL[:9] + ["Xy", "McDonald", "van der Berg", "D'Angelo", "Jose", "Q_R"]
    if shape in ("both", "first", "mixed"):
        lv["firstname"] = rng.choice(plain if rng.random() < .6 else NAME_POOL)
    if shape in ("both", "last", "mixed"):
        lv["lastname"] = rng.choice(plain if rng.random() < .6 else NAME_POOL)
    if shape == "mixed":
        lv["username"] = "u@h"
    return {"kind": "email", "matching": rng.random() < .85, "lv": lv,
            "dom": rng.choice(list(RESERVED)), "ase": rng.choice(["jsmith@example.org", "a.b-c_9@example.com"]),
            "draws": [rng.choice([0, 59, rng.randrange(60)]), rng.choice([0, 70, rng.randrange(71)])]}


def _clean_batches(rng, n):
    boundary = [chr(c) for c in (0, 9, 10, 32, 47, 48, 57, 58, 64, 65, 90, 91, 95, 96, 97, 122, 123, 126, 127,
                                 128, 0xaa, 0xb2, 0xe9, 0x130, 0x3a3, 0x660, 0x4e00, 0xff21, 0x1d7d8, 0x10ffff)]
    out = [{"kind": "clean", "items": boundary + ["", "abc", "A-b_c.d e'f", "é", "aé", "12ab", "@"] + NAME_POOL},
           {"kind": "clean", "items": [chr(c) for c in range(0, 132)]}]
    for _ in range(n):
        items = []
        for _ in range(40):
            ln = rng.choice([0, 1, 2, 5, 12])
            items.append("".join(chr(rng.choice([rng.randrange(32, 127), rng.randrange(0, 128), rng.randrange(0, 128),
                                                 rng.randrange(128, 0x250), rng.randrange(0x250, 0x3000)]))
                                 if rng.random() < .15 else rng.choice("abzAZ09 _-.'@")
                                 for _ in range(ln)))
        out.append({"kind": "clean", "items": items})
    return out


def generate(rng, tier):
    locs = _locales()
    if tier == "quick":
        pool = [l for l in locs if l not in QUICK_FIXED]
        chosen = QUICK_FIXED + rng.sample(pool, 10)
        n_mixed, n_bulk, n_names = 3, 48, 25
    else:
        chosen = [None] + locs
        n_mixed, n_bulk, n_names = 6, 200, 400
    cases = []
    for loc in chosen:
        cases.append({"kind": "locale", "locale": loc, "part": "table", "queries": _queries(rng, loc, n_names), "rows": []})
        cases.append({"kind": "locale", "locale": loc, "part": "bulk", "queries": [], "version": rng.choice(VERSIONS),
                      "rows": [_gen_bulk_row(rng, i) for i in range(n_bulk)]})
        for k in range(n_mixed):
            cases.append({"kind": "locale", "locale": loc, "part": "mixed", "queries": [],
                          "version": VERSIONS[(k + len(cases)) % 3],
                          "rows": [_gen_row(rng, genuine=rng.random() < .25) for _ in range(8)]
                                  + [_gen_nested_row(rng) for _ in range(4)] + _probe_rows(rng)})
    for _ in range(250 if tier == "quick" else 2500):
        cases.append(_gen_user(rng))
    for _ in range(200 if tier == "quick" else 2000):
        cases.append(_gen_email(rng))
    cases.extend(_clean_batches(rng, 6 if tier == "quick" else 60))
    return cases


# ================================================================ model side
def _printable(s):
    return all(32 <= ord(c) < 127 for c in s)


def clit(s):
    if _printable(s):
        return "(A " + C.cstr(s) + ")"
    return "(U " + C.clist(C.cz(ord(c)) for c in s) + ")"


def cname(s):
    return C.cstr(s)


def _names_ok(names):
    return all(isinstance(n, str) and _printable(n) for n in names)


def py_hyps(fa, sa, sigs):
    """Python twin of Fake.hyps_hold; returns (ok, reasons)"""
    sg = dict(sigs)
    reasons = []
    by = {}
    for n in fa:
        by.setdefault(canon(n), []).append(n)
    for k, v in by.items():
        if len({sg.get("F:" + n, "F:" + n) for n in v}) > 1:
            reasons.append(["faker-collision", k, sorted(set(v))])
    by = {}
    for n in sa:
        by.setdefault(canon(n), []).append(n)
    for k, v in by.items():
        if len({sg.get(n, "?") for n in v}) > 1:
            reasons.append(["snowfakery-collision", k, sorted(set(v))])
    return (not reasons), reasons


def _attrs(dirlist, ignore):
    ig = set(ignore)
    return [n for n in dirlist if not n.startswith("_") and n not in ig]


def formula_may_reinterpret(row):
    """The row sends injected (unrealistic) texts through the formula engine, which reads some of them
    as Python / number literals ("42" -> 42, "..." -> Ellipsis -> error in dialect 3).  What a formula
    makes of a text is not this property's matter: such a row's failure is neither compared nor judged."""
    return bool(row.get("inject")) and any(form in FORM_TEXT for _, form in row_queries(row))


def _row_term(row, ob):
    """None if the row cannot be expressed (non-text value, exception inside Faker)"""
    if "err" in ob and formula_may_reinterpret(row):
        return None
    for m, v, note in ob.get("flog", []):
        if v is None or not _printable(m):
            return None
    if "vals" in ob:
        if any(not isinstance(v, str) for v in ob["vals"]):
            return None
        exp = "(Ok " + C.clist(clit(v) for v in ob["vals"]) + ")"
    elif ob.get("err") == "DGE":
        exp = '(Err (DGE ""))'
    else:
        return None
    fields = C.clist("OPush" if o[0] == "push" else "OPop" if o[0] == "pop" else
                     f"(OFake {cname(o[1])} {C.cbool(is_matching(o[2]))})" for o in template_ops(row))
    flog = C.clist(C.cpair(cname(m), clit(v)) for m, v, _ in ob.get("flog", []))
    draws = C.clist(C.cpair(C.cz(n), C.cz(v)) for n, v in ob.get("draws", []))
    return f"(Row {fields} {flog} {draws} {exp})"


def coq_case(case, obs):
    kind = case["kind"]
    if obs.get("missing"):
        return None
    if kind == "clean":
        items = []
        for s, o in zip(case["items"], obs["out"]):
            if o is not None and not isinstance(o, str):
                return None
            items.append(C.cpair(clit(s), C.copt(o, clit)))
        return "CClean " + C.clist(items)
    if kind == "user":
        if "ok" not in obs or not isinstance(obs["ok"], str):
            return None
        lv = C.clist(C.cpair(cname(k), clit(v)) for k, v in case["lv"].items())
        return (f"CUser {C.cbool(case['matching'])} {lv} {clit(case['host'])} {clit(case['ff'])} {clit(case['fl'])} "
                f"{clit(case['uuid'])} {clit(obs['ok'])}")
    if kind == "email":
        lv = C.clist(C.cpair(cname(k), clit(v)) for k, v in case["lv"].items())
        draws = obs.get("draws", [])
        if draws:
            if len(draws) != 2 or draws[0][0] != 60 or draws[1][0] != 71:
                tpl, year = -1, 0          # the model answers BadOracle: the draws are not the modelled ones
            else:
                tpl, year = draws[0][1], obs["this_year"] - 80 + draws[1][1]
        else:
            tpl, year = 0, 2000
        if "ok" in obs:
            if not isinstance(obs["ok"], str):
                return None
            exp = f"(Ok {clit(obs['ok'])})"
        else:
            exp = f"(Err {C.cerr(obs['err'])})"
        return (f"CEmail {C.cbool(case['matching'])} {lv} {C.cz(tpl)} {C.cz(year)} {clit(case['dom'])} "
                f"{clit(case['ase'])} {exp}")
    if kind == "locale":
        if "sf_dir" not in obs or not _names_ok(obs["fk_dir"] + obs["ignore"] + obs["sf_dir"]):
            return None
        if not all(_printable(s) for _, s in obs["sigs"]):
            return None
        fa = _attrs(obs["fk_dir"], obs["ignore"])
        sa = _attrs(obs["sf_dir"], [])
        hyp_ok, _ = py_hyps(fa, sa, obs["sigs"])
        qs = []
        for qd, sig in zip(case.get("queries", []), obs.get("queries", [])):
            if _printable(qd["q"]) and _printable(sig):
                qs.append(C.cpair(cname(qd["q"]), cname(sig)))
        doms = obs.get("doms") or []
        rows = []
        for row, ob in zip(case.get("rows", []), obs.get("rows", [])):
            t = _row_term(row, ob)
            if t is not None:
                rows.append(t)
        L = lambda xs: C.clist(cname(x) for x in xs)
        fk_dir, ignore, sf_dir, ni, sg = obs["fk_dir"], obs["ignore"], obs["sf_dir"], obs["ni"], obs["sigs"]
        if not case.get("queries"):
            # rows only: a lookup of q can only hit keys made from names n with canon(n) = canon(q)
            # (keys are lower(n) or canon(n), the probe is lower(q)), so the other names are left out
            # of the term; order is preserved.  The table cases carry the complete lists.
            want = {canon(q) for row in case.get("rows", []) for q, _ in row_queries(row)}
            fk_dir = [n for n in fk_dir if canon(n) in want]
            sf_dir = [n for n in sf_dir if canon(n) in want]
            ignore = [n for n in ignore if n in set(fk_dir)]
            ni = [n for n in ni if n in set(sf_dir)]
            sg = [[n, x] for n, x in sg if n in set(sf_dir) or (n.startswith("F:") and n[2:] in set(fk_dir))]
        sigs = C.clist(C.cpair(cname(n), cname(x)) for n, x in sg)
        return (f"CLocale {L(fk_dir)} {L(ignore)} {L(sf_dir)} {L(ni)} {sigs} "
                f"{C.copt(hyp_ok if case.get('queries') else None, C.cbool)} {C.clist(qs)} {C.clist(clit(d) for d in doms)} "
                f"{C.cbool(all(d in RESERVED for d in doms))} {C.cz(obs['this_year'])} {C.clist(rows)}")
    return None


# ================================================================ property oracle (implementation only)
def _clean(s):
    if not s.isascii():
        return None
    return "".join(c for c in s if c.isascii() and c.isalnum())


def _check_email(v):
    if not isinstance(v, str):
        return f"is not text: {v!r}"
    if v.count("@") != 1:
        return f"{v!r} does not contain exactly one '@'"
    if v.split("@")[1] not in RESERVED:
        return f"{v!r} is not in a reserved example domain"
    return None


def _check_user(v):
    if not isinstance(v, str):
        return f"is not text: {v!r}"
    if len(v) > 80:
        return f"{v!r} has {len(v)} > 80 characters"
    if v.count("@") != 1:
        return f"{v!r} does not contain exactly one '@'"
    return None


def _email_from_names(first, last, v):
    f, l = _clean(first), _clean(last)
    f2 = f.ljust(2, "_")
    pat = ("^(?:" + "|".join(re.escape(x) for x in (f2, f2[0], f2[:2])) + r")[.\-_+]?" + re.escape(l)
           + r"(?:\d{4}|\d{2}|\d|)@")
    return re.match(pat, v) is not None


def row_walk(row, ob):
    """Replay a row from its values in evaluation order: yields (value index, kind, value, the local
    variables of the context the call ran in, form).  Every template instantiation has local variables
    of its own (the property's "names generated earlier in the row")."""
    vals = ob.get("vals")
    if vals is None:
        return
    stack, lv, j = [], {}, 0
    for o in template_ops(row):
        if o[0] == "push":
            stack.append(lv)
            lv = {}
        elif o[0] == "pop":
            lv = stack.pop()
        else:
            if j >= len(vals):
                return
            q, form, v = o[1], o[2], vals[j]
            cq = canon(q)
            if cq == EMAIL_CANON:
                yield j, "email", v, dict(lv), form
            elif cq == USER_CANON:
                yield j, "user", v, dict(lv), form
            lv[cq] = v
            j += 1


def spelling_class(q):
    if "_" in q:
        return "underscore-lower" if q.islower() else "underscore-upper" if q.isupper() else "underscore-mixed"
    return "flat-lower" if q.islower() else "flat-upper" if q.isupper() else "flat-mixed"


def name_origins(row):
    """purely syntactic: for every e-mail / username request of the row, how its context's first and
    last name were asked for: [(kind, form, [(form, spelling) of firstname or None, same for lastname])]"""
    out, stack, hv = [], [], {}
    for o in template_ops(row):
        if o[0] == "push":
            stack.append(hv)
            hv = {}
        elif o[0] == "pop":
            hv = stack.pop()
        else:
            cq = canon(o[1])
            if cq in (EMAIL_CANON, USER_CANON):
                out.append(("email" if cq == EMAIL_CANON else "user", o[2], [hv.get("firstname"), hv.get("lastname")]))
            hv[cq] = (o[2], o[1])
    return out


def surviving_uuid_chars(username, uuid):
    local = username.rsplit("@", 1)[0]
    for k in range(len(uuid), 0, -1):
        if local.endswith(uuid[:k]):
            return k
    return 0


def oracle(case, obs):
    kind = case["kind"]
    if obs.get("missing"):
        return None
    if kind == "clean":
        for s, o in zip(case["items"], obs["out"]):
            want = _clean(s)
            if o != want:
                return f"clean: replace_unicode_strings_with_None({s!r}) = {o!r}, expected {want!r}"
        return None
    if kind == "user":
        if "ok" not in obs:
            return f"user: user_name raised {obs['err']}"
        v = obs["ok"]
        parts = [case["host"], case["uuid"], case["ff"], case["fl"]]
        if len(case["host"]) <= 79 and not any("@" in p for p in parts):
            m = _check_user(v)
            if m:
                return "user: " + m
            if not v.endswith("@" + case["host"]):
                return f"user: {v!r} does not end with the host name"
            if len(v) < 80 and case["uuid"] not in v:
                return f"user: {v!r} was not truncated but does not contain the uuid {case['uuid']!r}"
            if len(case["host"]) <= 62 and case["uuid"][:16] not in v.rsplit("@", 1)[0]:
                return (f"user: {v!r} does not contain the first 16 characters of the uuid {case['uuid']!r} "
                        f"although the host name leaves room for them")
        return None
    if kind == "email":
        if "ok" not in obs:
            return f"email: email raised {obs['err']}"
        m = _check_email(obs["ok"])
        if m:
            return "email: " + m
        f, l = case["lv"].get("firstname"), case["lv"].get("lastname")
        if case["matching"] and f is not None and l is not None and _clean(f) and _clean(l):
            if not _email_from_names(f, l, obs["ok"]):
                return f"email: {obs['ok']!r} is not built from the ASCII names {f!r} {l!r}"
        return None
    # ---- locale
    doms = obs.get("doms")
    if doms is not None and not all(d in RESERVED for d in doms):
        return f"domains: locale {case['locale']}: safe_domain_names {doms} are not all reserved example domains"
    # name table
    sigs = {}
    for qd, sig in zip(case.get("queries", []), obs.get("queries", [])):
        sigs[qd["q"]] = sig
    for qd, sig in zip(case.get("queries", []), obs.get("queries", [])):
        base = qd["base"]
        if base is None or base not in sigs:
            continue
        want = sigs[base]
        if want == "!AttributeError" and qd["cls"] == "partial":
            continue
        if qd["cls"] == "valid" and sig != want:
            return (f"lookup: locale {case['locale']}: spelling {qd['q']!r} of {base!r} gives {sig!r}, "
                    f"the exact name gives {want!r}")
        if qd["cls"] == "partial" and sig not in (want, "!AttributeError"):
            return (f"lookup: locale {case['locale']}: spelling {qd['q']!r} of {base!r} denotes another provider "
                    f"({sig!r} instead of {want!r})")
    for qd, sig in zip(case.get("queries", []), obs.get("queries", [])):
        if canon(qd["q"]) == EMAIL_CANON and sig == "F:email" and qd["cls"] in ("exact", "valid"):
            return f"lookup: {qd['q']!r} resolves to Faker's (possibly deliverable) email, not Snowfakery's"
        if canon(qd["q"]) == USER_CANON and sig == "F:user_name" and qd["cls"] in ("exact", "valid"):
            return f"lookup: {qd['q']!r} resolves to Faker's user_name, not Snowfakery's"
    if "sf_dir" in obs and case.get("queries"):
        ok, reasons = py_hyps(_attrs(obs["fk_dir"], obs["ignore"]), _attrs(obs["sf_dir"], []), obs["sigs"])
        asked = {canon(qd["q"]) for qd in case["queries"]}
        rel = [r for r in reasons if r[1] in asked]
        if rel:
            return f"lookup: locale {case['locale']}: provider names collide after canonicalisation: {rel[:3]}"
    # rows
    users, repeat = {}, None
    for i, (row, ob) in enumerate(zip(case.get("rows", []), obs.get("rows", []))):
        if any(note and note.startswith("raised:") for _, _, note in ob.get("flog", [])):
            continue                      # Faker itself failed; no value was produced
        if "err" in ob:
            if formula_may_reinterpret(row):
                continue
            bad = [q for q, _ in row_queries(row) if canon(q) not in
                   ("firstname", "lastname", "email", "username", "firstnamefemale", "lastnamemale", "name", "prefix",
                    "firstnamemale")]
            if not bad:
                return f"rows: row {i} of locale {case['locale']} failed with {ob['err']}: {row_queries(row)}"
            continue
        for m, v, note in ob.get("flog", []):
            if v is None:
                continue
            if m == "safe_domain_name" and v not in RESERVED:
                return f"rows: Faker's safe_domain_name() returned {v!r}"
        for j, what, v, lv, form in row_walk(row, ob):
            if what == "email":
                m = _check_email(v)
                if m:
                    return f"rows: row {i} value {j}: e-mail {m}"
                f, l = lv.get("firstname"), lv.get("lastname")
                if (is_matching(form) and isinstance(f, str) and isinstance(l, str) and _clean(f) and _clean(l)
                        and not _email_from_names(f, l, v)):
                    return (f"rows: row {i} value {j}: e-mail {v!r} is not built from the ASCII names {f!r} / {l!r} "
                            f"generated earlier in its own row")
            else:
                rec = {m_: x for m_, x, _ in ob.get("flog", []) if x is not None}
                host = rec.get("hostname")
                if isinstance(v, str) and len(v) > 80 and (host is None or len(host) <= 79):
                    return f"rows: row {i} field {j} : username {v!r} has {len(v)} > 80 characters"
                inputs_ok = all("@" not in (x or "") for m_, x, _ in ob.get("flog", [])
                                if m_ in ("first_name", "last_name", "hostname", "uuid4"))
                if inputs_ok and (host is None or len(host) <= 79):
                    m = _check_user(v)
                    if m:
                        return f"rows: row {i} field {j} : username {m}"
                uu = [x for m_, x, _ in ob.get("flog", []) if m_ == "uuid4" and x]
                if isinstance(v, str) and len(v) < 80 and uu and not any(u in v for u in uu):
                    return (f"rows: row {i} field {j}: username {v!r} was not truncated but contains none of the "
                            f"uuid4 values {uu}")
                if (isinstance(v, str) and host is not None and len(host) <= 62 and uu
                        and not any(len(u) >= 16 and u[:16] in v.rsplit("@", 1)[0] for u in uu)):
                    return (f"rows: row {i} field {j}: username {v!r} keeps fewer than 16 characters of its uuid "
                            f"{uu} although the host name leaves room for them")
                if v in users and repeat is None:
                    repeat = f"repeat: locale {case['locale']}: username {v!r} produced twice (rows {users[v]} and {i})"
                users[v] = i
    return repeat


def _long_names_eat_uuid(case, obs):
    """every repeated username of the case is one whose uuid part was cut off completely"""
    seen, rep = {}, []
    for row, ob in zip(case.get("rows", []), obs.get("rows", [])):
        uu = [v for m, v, _ in ob.get("flog", []) if m == "uuid4" and v]
        for j, what, v, lv, form in row_walk(row, ob):
            if what == "user":
                if v in seen:
                    rep.append((v, uu, seen[v]))
                seen[v] = uu
    if not rep:
        return False
    for v, uu1, uu2 in rep:
        for u in uu1 + uu2:
            if surviving_uuid_chars(v, u) > 0:
                return False
        if len(v) != 80:
            return False
    return True


def match_finding(case, obs, msg, findings):
    ids = {f["id"]: f for f in findings}
    if case.get("kind") != "locale":
        return None
    if msg.startswith("repeat:") and "C18-K1-uuid-truncated-away" in ids and _long_names_eat_uuid(case, obs):
        return "C18-K1-uuid-truncated-away"
    if msg.startswith("lookup:") and "C18-K2-faker-name-shadowed-in-one-spelling" in ids and "sf_dir" in obs:
        ok, reasons = py_hyps(_attrs(obs["fk_dir"], obs["ignore"]), _attrs(obs["sf_dir"], []), obs["sigs"])
        if not ok and all(r[0] == "not-covered" for r in reasons):
            bad = {r[1] for r in reasons}
            # every failing query must be a spelling of one of the shadowed names
            sigs = {qd["q"]: s for qd, s in zip(case["queries"], obs["queries"])}
            for qd, sig in zip(case["queries"], obs["queries"]):
                base = qd["base"]
                if base is None or base not in sigs or sigs[base] == "!AttributeError":
                    continue
                wrong = (qd["cls"] == "valid" and sig != sigs[base]) or \
                        (qd["cls"] == "partial" and sig not in (sigs[base], "!AttributeError"))
                if wrong and canon(base) not in bad:
                    return None
            for qd, sig in zip(case["queries"], obs["queries"]):
                if canon(qd["q"]) in (EMAIL_CANON, USER_CANON) and sig in ("F:email", "F:user_name") \
                        and qd["cls"] in ("exact", "valid"):
                    return None
            if bad & {EMAIL_CANON, USER_CANON}:
                return None
            return "C18-K2-faker-name-shadowed-in-one-spelling"
    return None


def violation_class(case, obs, msg):
    return msg.split(":")[0]


# ================================================================ evidence
def nontrivial(case, obs):
    if obs.get("missing"):
        return False
    if case["kind"] == "locale":
        if case.get("queries"):
            return len(obs.get("queries", [])) >= 10
        return any(True for row, ob in zip(case["rows"], obs.get("rows", [])) for _ in row_walk(row, ob))
    if case["kind"] == "clean":
        return len(case["items"]) > 0
    return "ok" in obs


def stats(cases, obss):
    kinds = Counter()
    branch = Counter()
    errs = Counter()
    per_loc = {}
    qcls = Counter()
    name_cls = Counter()
    dialects = Counter()
    req_forms = Counter()
    origin = Counter()
    origin_spell = Counter()
    origin_pairs = set()
    for c, o in zip(cases, obss):
        if not isinstance(o, dict) or "harness_error" in o or o.get("hang"):
            kinds["harness-problem"] += 1
            continue
        kinds[c["kind"] + ("/" + c.get("part", "") if c["kind"] == "locale" else "")] += 1
        if c["kind"] == "user" and "ok" in o:
            branch["user/truncated" if len(o["ok"]) == 80 else "user/short"] += 1
            branch["user/host>=80" if len(c["host"]) >= 80 else "user/host<=79"] += 1
        if c["kind"] == "email" and "ok" in o:
            branch["email/unit-matching" if o.get("draws") else "email/unit-fallback"] += 1
        if c["kind"] != "locale":
            continue
        loc = str(c["locale"])
        d = per_loc.setdefault(loc, {"first": 0, "last": 0, "host": 0, "min_uuid_chars": 36, "usernames": 0,
                                     "emails": 0, "faker_raised": 0, "attrs": 0})
        if "fk_dir" in o:
            d["attrs"] = len(_attrs(o["fk_dir"], o["ignore"]))
        for qd in c.get("queries", []):
            qcls[qd["cls"]] += 1
        if c.get("rows"):
            dialects["snowfakery_version " + str(c.get("version"))] += 1
        for row, ob in zip(c.get("rows", []), o.get("rows", [])):
            injected = set((row.get("inject") or {}).keys())
            if "vals" in ob:
                for q, form in row_queries(row):
                    req_forms[form] += 1
                for what, form, names in name_origins(row):
                    if is_matching(form) and names[0] and names[1]:
                        for nform, nq in names:
                            origin[f"{what} after name asked as {nform}"] += 1
                            origin_spell[f"{what} after name spelled {spelling_class(nq)}"] += 1
                            origin_pairs.add((nform, spelling_class(nq), str(c.get("version"))))
            for m, v, note in ob.get("flog", []):
                if note and note.startswith("raised:"):
                    d["faker_raised"] += 1
                    errs["faker " + note] += 1
                if v is None:
                    continue
                if m == "first_name" and "first_name" not in injected:
                    d["first"] = max(d["first"], len(v))
                if m == "last_name" and "last_name" not in injected:
                    d["last"] = max(d["last"], len(v))
                if m == "hostname" and "hostname" not in injected:
                    d["host"] = max(d["host"], len(v))
                if m in ("first_name", "last_name") and m in injected:
                    name_cls["empty" if v == "" else "non-ascii" if not v.isascii() else
                             "alnum" if v.isalnum() else "punct-only" if not _clean(v) else "ascii+punct"] += 1
            if "err" in ob:
                errs["row " + str(ob["err"])] += 1
            uu = [v for m, v, _ in ob.get("flog", []) if m == "uuid4" and v]
            ms = [m for m, _, _ in ob.get("flog", [])]
            nuser = 0
            for j, what, v, lv, form in row_walk(row, ob):
                if what == "email":
                    d["emails"] += 1
                else:
                    d["usernames"] += 1
                    if not injected and isinstance(v, str) and nuser < len(uu):
                        d["min_uuid_chars"] = min(d["min_uuid_chars"], surviving_uuid_chars(v, uu[nuser]))
                    nuser += 1
            if "safe_domain_name" in ms:
                branch["email/from-names"] += ms.count("safe_domain_name")
            if "ascii_safe_email" in ms:
                branch["email/fallback"] += ms.count("ascii_safe_email")
    worst = sorted(((v["min_uuid_chars"], k) for k, v in per_loc.items() if v["usernames"]))[:5]
    return {"kinds": dict(kinds), "branches": dict(branch), "errors": dict(errs), "query_classes": dict(qcls),
            "injected_name_classes": dict(name_cls), "locales": len(per_loc),
            "dialects_of_row_cases": dict(dialects), "request_forms": dict(req_forms),
            "contact_after_both_names_by_name_form": dict(origin),
            "contact_after_both_names_by_name_spelling": dict(origin_spell),
            "distinct_name_form_x_spelling_x_dialect_before_contact": len(origin_pairs),
            "fewest_surviving_uuid_chars_genuine_names": worst,
            "longest_genuine": {"first": max([v["first"] for v in per_loc.values()] or [0]),
                                "last": max([v["last"] for v in per_loc.values()] or [0]),
                                "host": max([v["host"] for v in per_loc.values()] or [0])},
            "per_locale": per_loc}


def shrink(case):
    if case["kind"] == "locale":
        rows, qs = case.get("rows", []), case.get("queries", [])
        if len(rows) > 1:
            h = len(rows) // 2
            yield dict(case, rows=rows[:h])
            yield dict(case, rows=rows[h:])
            if len(rows) <= 12:
                for i in range(len(rows)):
                    yield dict(case, rows=rows[:i] + rows[i + 1:])
        if len(qs) > 2:
            h = len(qs) // 2
            yield dict(case, queries=qs[:h])
            yield dict(case, queries=qs[h:])
        for i, r in enumerate(rows[:3]):
            if len(r["fields"]) > 1 and not r.get("friends") and r.get("count", 1) == 1:
                for j in range(len(r["fields"])):
                    r2 = dict(r, fields=r["fields"][:j] + r["fields"][j + 1:])
                    yield dict(case, rows=rows[:i] + [r2] + rows[i + 1:])
    elif case["kind"] == "clean" and len(case["items"]) > 1:
        h = len(case["items"]) // 2
        yield dict(case, items=case["items"][:h])
        yield dict(case, items=case["items"][h:])


def directed_search(rng, disagreeing):
    out = []
    for loc in ["en_US", None, "ja_JP", "de_DE", "th_TH", "fr_FR"]:
        out.append({"kind": "locale", "locale": loc, "part": "table", "queries": _queries(rng, loc, 40), "rows": []})
        out.append({"kind": "locale", "locale": loc, "part": "bulk", "queries": [], "version": rng.choice(VERSIONS),
                    "rows": [_gen_bulk_row(rng, i) for i in range(120)]})
        for k in range(6):
            out.append({"kind": "locale", "locale": loc, "part": "mixed", "queries": [], "version": VERSIONS[k % 3],
                        "rows": [_gen_row(rng) for _ in range(8)] + [_gen_nested_row(rng) for _ in range(6)]
                                + _probe_rows(rng)})
    out.extend(_gen_user(rng) for _ in range(1500))
    out.extend(_gen_email(rng) for _ in range(1500))
    out.extend(_clean_batches(rng, 20))
    return out
