"""C06 — just_once rows are created exactly once per dataset.
Model: coq/theories/Interp.v; theorems: coq/props/C06.v."""
from collections import Counter

from . import common as C
from . import sfcore as S

PROP = "C06"
MODEL = "Interp"
SHARD = 120
SKIPPED_FN = "case_unsupported"
CASE_TIMEOUT = 40
MARK = "Zmark"
RULE = ("SF-core recipes with 1-3 just_once templates (any count, with/without nickname, any top-level position, "
        "sharing their table with ordinary templates), referenced later by `reference` and formulas; every "
        "just_once template carries a tag field so its rows can be recognised; a marker template closes each "
        "iteration; 2-5 iterations, most of them split into continuation chains.  Oracle: tagged rows appear only in "
        "the first iteration of the first run; the complete rows (ids, reference targets, values read through "
        "the just_once names) are compared with the model's run_history.  non-trivial: >= 2 iterations and a "
        "just_once template that produced a row; distinct by (recipe, history) hash")
TRUSTED = ["harness/sfcore.py printers / capture stream; continuation files passed as text between runs"]
ASSUMPTIONS = ["`random_reference` to just_once rows is covered by C10; row-valued fields of just_once rows are the "
               "known finding K1/K2 of C04 and are not generated here"]
W = dict(once=0.75, nick=0.6, ref=0.3, formula=0.4, nested=0.06, friend=0.3, fwd=0.15, var_stmt=0.15, randref=0.1)


DIRECTED6 = [S.stream_once_cluster, S.stream_once_hidden, S.stream_randref_nicks, S.stream_once_cluster_randref, S.stream_once_cluster_randref, S.stream_once_same_table_nick_order, S.stream_once_same_table_nick_order, S.stream_history_rows_hold_once_refs,
                                S.stream_once_nick_like_once_table, S.stream_once_nick_like_once_table, S.stream_randref_hidden_child, S.stream_once_idle_first, S.stream_once_after_lookup, S.stream_once_holds_forward_ref]


def gen_case(rng, stream=None):
    from .c04 import row_valued_in_once
    if stream is not None:
        r, feats = stream(rng)
    elif rng.random() < 0.25:      # directed streams (DESIGN.md 11.4)
        r, feats = rng.choice(DIRECTED6)(rng)
    else:
        for _ in range(50):
            r, feats = S.gen_recipe(rng, W)
            if "just_once" in feats and not row_valued_in_once(r):
                break
    tag = 1000
    for s in r["stmts"]:
        if s[0] == "obj" and s[1].get("once"):
            tag += 1
            s[1]["fields"].append(["jo", ["int", tag]])
    r["stmts"].append(["obj", {"table": MARK, "nick": None, "count": None, "once": False, "fields": [], "friends": []}])
    k = rng.choice([2, 2, 3, 4, 5])
    ks = [k]
    if rng.random() < 0.7 and not r.get("single_run"):
        cut = sorted(rng.sample(range(1, k), rng.randint(1, k - 1)))
        ks = [b - a for a, b in zip([0] + cut, cut + [k])]
    return {"recipe": r, "ks": ks, "features": feats}


def generate(rng, tier):
    import random
    cases = [gen_case(rng) for _ in range(260 if tier == "quick" else 7000)]
    # a fixed share per directed stream (own rng; see harness/c02.py generate)
    rng2 = random.Random(rng.getrandbits(48) ^ 0xC06)
    for stream in sorted(set(DIRECTED6), key=lambda f: f.__name__):
        for _ in range(8 if tier == "quick" else 100):
            cases.append(gen_case(rng2, stream))
    return cases


def run_impl(case):
    runs, cont = [], None
    ks = case["ks"]
    for i, k in enumerate(ks):
        o = S.run_recipe(case["recipe"], reps=k, continuation=cont, want_continuation=(i < len(ks) - 1),
                         draw_offset=sum(len(r.get("draws", [])) for r in runs))
        cont = o.get("cont")
        runs.append({kk: vv for kk, vv in o.items() if kk != "cont"})
        if "ok" not in o:
            break
    return {"runs": runs}


def coq_case(case, obs):
    runs = obs["runs"]
    if all("ok" in r for r in runs):
        if not all(S.comparable(r["ok"]) for r in runs):
            return None
        exp = "(Ok " + C.clist(S.rows_coq(r["ok"]) for r in runs) + ")"
    else:
        exp = f"(Err {C.cerr(runs[-1]['err'])})"
    return f"CHist PFull {S.recipe_coq(case['recipe'], S.obs_draws(obs))} {C.clist(C.cnat(k) for k in case['ks'])} {exp}"


def oracle(case, obs):
    runs = obs["runs"]
    for r in runs:
        if "err" in r:
            if r["err"] != "DGE":
                return f"internal-error: {r['err']}: {r.get('msg','')[:120]}"
            if "once_holds_forward_ref" in case.get("features", ()):
                # the rows written before the failure: a failure after the first iteration's marker row means the
                # first iteration completed and a LATER use of the just_once row (or of the reference it holds) failed
                marks = sum(1 for t, _ in r.get("rows", []) if t == MARK)
                if marks >= 1:
                    return (f"later-use-fails: the first iteration completes, iteration {marks + 1} fails reading the "
                            f"just_once row / the reference it holds: {r.get('msg', '')[:140]}")
            return None
    iteration = 0
    first_ids = {}
    for ri, r in enumerate(runs):
        for t, fs in r["ok"]:
            d = dict((k, v) for k, v in fs)
            if t == MARK:
                iteration += 1
                continue
            if "jo" in d:
                if iteration > 0:
                    return (f"just-once-repeated: a row of just_once template tag {d['jo'][1]} (table {t}, id {d['id'][1]}) "
                            f"was created in iteration {iteration + 1} (run {ri + 1} of history {case['ks']})")
                first_ids.setdefault(d["jo"][1], []).append(d["id"][1])
    return constancy_oracle(case, runs) or deref_oracle(case, runs)


def constancy_oracle(case, runs):
    """a field whose definition reads only just_once rows - `reference: X`, `${{X.f}}` with X the nickname
    of a just_once template or a table all of whose templates are just_once - denotes the same rows in
    every iteration and every continuation run: its value never changes over the history"""
    tpls = list(S.walk_templates(case["recipe"]))
    top = [s[1] for s in case["recipe"]["stmts"] if s[0] == "obj"]
    by_table = {}
    for t in tpls:
        by_table.setdefault(t["table"], []).append(t)
    once_names = {t["nick"] for t in top if t.get("once") and t.get("nick")}
    once_names |= {tb for tb, ts in by_table.items() if all(x.get("once") and x in top for x in ts)}
    # a nickname also carried by an ordinary template is not a just_once-only name
    once_names -= {t["nick"] for t in tpls if t.get("nick") and not t.get("once")}
    var_names = {s[1] for s in case["recipe"]["stmts"] if s[0] == "var"} | {o[0] for o in case["recipe"].get("options", [])}
    once_names -= var_names

    def only_once(d):
        if d[0] == "ref":
            return d[1].split(".")[0] in once_names
        if d[0] == "formula":
            vs = []

            def walk(e):
                if e[0] == "var":
                    vs.append((e[1], False))
                elif e[0] == "attr":
                    if e[1][0] == "var":
                        vs.append((e[1][1], True))
                    else:
                        walk(e[1])
                elif e[0] in ("add", "sub", "mul"):
                    walk(e[1])
                    walk(e[2])
            for p in d[1]:
                if p[0] == "e":
                    walk(p[1])
            return bool(vs) and all(n in once_names and attr for n, attr in vs)
        return False
    watch = {}
    last_once = max([i for i, t in enumerate(top) if t.get("once")] or [-1])
    for pos, t in enumerate(top):
        if t.get("once") or len(by_table[t["table"]]) != 1 or t["table"] in once_names:
            continue
        if pos < last_once:
            continue      # a reader placed before a just_once template sees a forward reference (its first
                          # row) in the first iteration and the singleton (its last row) afterwards
        own = {f for f, _ in t["fields"]}
        fs = [f for f, d in t["fields"] if only_once(d) and not (own & once_names)]
        if fs:
            watch[t["table"]] = fs
    seen = {}
    for r in runs:
        for t, fs in r["ok"]:
            if t in watch:
                d = dict((k, v) for k, v in fs)
                for f in watch[t]:
                    if f in d:
                        key = (t, f)
                        if key in seen and seen[key] != d[f]:
                            return (f"just-once-denotation-changed: {t}.{f} reads only just_once rows; it showed {seen[key]} "
                                    f"earlier in the history {case['ks']} and shows {d[f]} in row {d.get('id', ['', '?'])[1]}")
                        seen.setdefault(key, d[f])
    return None


def deref_oracle(case, runs):
    """a field that reads an attribute through a random_reference (p = random_reference X; q = ${{p.f}})
    must show the value the referenced row has: its written field, its id, or - for the hidden __h0 of
    the once_cluster_randref stream, defined as f0 + 90 - the value derived from the written f0"""
    reads = {}          # (table, field) -> (reference field, attribute)
    if "name_collisions" in case.get("features", []):
        return None      # a field named like a nickname / variable: `p.f` need not mean "field f of the row p names"
    for t in S.walk_templates(case["recipe"]):
        refs = {f for f, d in t["fields"] if d[0] == "randref"}
        for f, d in t["fields"]:
            if d[0] == "formula" and len(d[1]) == 1 and d[1][0][0] == "e":
                e = d[1][0][1]
                if e[0] == "attr" and e[1][0] == "var" and e[1][1] in refs:
                    reads[(t["table"], f)] = (e[1][1], e[2])
    if not reads:
        return None
    rows = {}
    for r in runs:
        for t, fs in r["ok"]:
            d = dict((k, v) for k, v in fs)
            if "id" in d:
                rows[(t, d["id"][1])] = d
    for r in runs:
        for t, fs in r["ok"]:
            d = dict((k, v) for k, v in fs)
            for (tt, f), (pf, attr) in reads.items():
                if tt != t or f not in d or pf not in d or d[pf][0] != "ref":
                    continue
                target = rows.get((d[pf][1], d[pf][2]))
                if target is None:
                    continue                      # hidden table: its rows are not written
                if attr == "id":
                    want = ["int", d[pf][2]]
                elif attr == "__h0":
                    if "f0" not in target or target["f0"][0] != "int":
                        continue
                    want = ["int", target["f0"][1] + 90]
                elif attr in target and target[attr][0] in ("int", "str"):
                    want = target[attr]
                else:
                    continue
                got = d[f]
                if got[0] == "str" and want[0] == "int" and got[1] == str(want[1]):
                    continue                      # dialect 2 renders through text
                if list(got) != list(want):
                    return (f"value-through-reference: {t}.{f} reads {attr} of {d[pf][1]}({d[pf][2]}) through the random "
                            f"reference {pf} and shows {got}, the row has {want}")
    return None


def nontrivial(case, obs):
    runs = obs["runs"]
    return (all("ok" in r for r in runs) and sum(case["ks"]) >= 2
            and any(k == "jo" for r in runs for _, fs in r["ok"] for k, _ in fs))


def stats(cases, obss):
    st = S.feature_stats(cases, [o["runs"][-1] for o in obss if isinstance(o, dict) and o.get("runs")])
    st["histories"] = dict(Counter("+".join(map(str, c["ks"])) for c in cases))
    st["just_once_templates_per_recipe"] = dict(Counter(
        sum(1 for s in c["recipe"]["stmts"] if s[0] == "obj" and s[1].get("once")) for c in cases))
    return st


def shrink(case):
    from .c04 import shrink as sh
    for c in sh(case):
        if any(s[0] == "obj" and s[1]["table"] == MARK for s in c["recipe"]["stmts"]):
            yield c


def directed_search(rng, disagreeing):
    return [gen_case(rng) for _ in range(800)]


def match_finding(case, obs, msg, findings):
    return None
