"""C07 — generation stops at the first iteration boundary that meets the target.
Implementation: snowfakery/api.py (SnowfakeryApplication), snowfakery/data_generator_runtime.py
(StoppingCriteria, IdManager, Interpreter loop); model: coq/theories/Stopping.v.

Two layers of cases:
  direct — the real SnowfakeryApplication + IdManager (+ Globals / RuntimeContext.check_if_finished
           when available) driven with synthetic id states: r generate_id() calls per iteration;
  e2e    — recipes run through snowfakery.api.generate_data / snowfakery.data_generator.generate,
           a marker row M opening and a marker row E closing every iteration, the target table T
           getting a prescribed number of rows per iteration; sessions of 1..3 runs chained through
           continuation files (io.StringIO).
"""
import io
import itertools
import re
from collections import Counter

from . import common as C

PROP = "C07"
MODEL = "Stopping Interp StopInterp"
CHECK_FN = "check_case7"
SKIPPED_FN = "case7_unsupported"
SHARD = 400
CASE_TIMEOUT = 60
RULE = ("cases: (i) direct: SnowfakeryApplication/IdManager driven with r generate_id calls per iteration, "
        "criterion None / reps k / (table, N), fresh or restored from last_used_ids (thorough: exhaustive over "
        "last0 in {fresh,0..6} x N in 1..8 x r in {0..3}^<=5, plus random larger); (ii) e2e sessions of 1-3 runs "
        "chained by continuation files through generate_data / generate (a new application object per run, or one "
        "object reused for all runs), iterations delimited by marker rows; unknown targets include near misses of "
        "real table names and nicknames (case, whitespace, prefix, suffix, extension), nicknames, '' and a table "
        "only an earlier recipe had. "
        "Compared with the model: outcome class, number of complete iterations, rows of the target table. "
        "non-trivial: a (table, N) or reps criterion whose run takes >= 2 iterations, or is continued (direct: from a state with rows), or ends "
        "in an error; distinct by case hash")
TRUSTED = ["harness/c07.py: recipe renderer, marker-row parser, capped output stream (raises after cap iterations)"]
ASSUMPTIONS = [
    "an iteration is abstracted to the number r >= 0 of rows of the criterion table it creates "
    "(ids are dense, property C01); theorems quantify over all sequences r",
    "Python int arithmetic = Z arithmetic",
    "theorems about (table, N) criteria assume proper_table: the name is not '__REPS__'",
]
EXHAUSTIVE = {"quick": False, "thorough": True}

COUNT_REPS = "__REPS__"
TABLE = "T"


# ---------------------------------------------------------------- generation
def _direct(crit, cont, rs, absent=False):
    return {"kind": "direct", "crit": crit, "cont": cont, "absent": bool(absent and cont == 0), "rs": list(rs)}


def gen_direct_boundaries():
    out = []
    for cont in (None, 0, 1, 5):
        for n in (1, 2, 3, 4):
            # reaching N exactly / one short / one over, in one or several iterations
            out.append(_direct([TABLE, n], cont, [n, 1, 1]))
            out.append(_direct([TABLE, n], cont, [n - 1, 1, 1] if n > 1 else [1, 1]))
            out.append(_direct([TABLE, n], cont, [n + 1, 1]))
            out.append(_direct([TABLE, n], cont, [1] * (n + 2)))
            out.append(_direct([TABLE, n], cont, [0, n, 1]))
            out.append(_direct([TABLE, n], cont, [1, 0, n, 1]))
            out.append(_direct([TABLE, n], cont, [0, 0, n]))
            out.append(_direct([TABLE, n], cont, [n - 1, 0, 1] if n > 1 else [0, 1]))
        for k in (1, 2, 3, 4):
            out.append(_direct([COUNT_REPS, k], cont, [0, 2, 0, 1, 1]))
        out.append(_direct(None, cont, [0, 1]))
        out.append(_direct(None, cont, [3, 1]))
    out.append(_direct([TABLE, 2], 0, [1, 1, 1], absent=True))
    out.append(_direct([TABLE, 2], 0, [0, 1, 1], absent=True))
    return out


def gen_direct_random(rng, n):
    out = []
    for _ in range(n):
        u = rng.random()
        cont = None if rng.random() < 0.35 else rng.choice([0, 1, 2, 3, 6, rng.randint(0, 1000)])
        if u < 0.12:
            k = rng.choice([1, 1, 2, 3, rng.randint(1, 12)])
            rs = [rng.choice([0, 0, 1, 2, rng.randint(0, 9)]) for _ in range(max(1, k) + rng.randint(0, 2))]
            out.append(_direct([COUNT_REPS, k], cont, rs))
            continue
        if u < 0.16:
            out.append(_direct(None, cont, [rng.randint(0, 3) for _ in range(rng.randint(1, 3))]))
            continue
        big = rng.random() < 0.3
        n_ = rng.randint(1, 60) if big else rng.randint(1, 8)
        length = rng.randint(1, 40) if big else rng.randint(1, 7)
        pz = rng.choice([0.0, 0.0, 0.1, 0.3])
        hi = rng.choice([1, 2, 3, 9]) if not big else rng.choice([1, 3, 20])
        rs = [0 if rng.random() < pz else rng.randint(1, hi) for _ in range(length)]
        if rng.random() < 0.15:
            rs[0] = 0
        out.append(_direct([TABLE, n_], cont, rs, absent=rng.random() < 0.5))
    return out


def gen_direct_exhaustive():
    out = []
    for length in range(0, 6):
        for rs in itertools.product(range(4), repeat=length):
            for cont in (None, 0, 1, 2, 3, 4, 5, 6):
                for n in range(1, 9):
                    out.append(_direct([TABLE, n], cont, rs))
    return out


def _tname(case):
    """name of the e2e recipe's target table (rows shown as 'T' in the observed row string)"""
    return case.get("tname", TABLE)


NICKNAMES = ["mk", "tn", "en"]


def near_miss_names(tn):
    """names that are NOT tables of the recipe but resemble one: case variants of table names and
    nicknames, surrounding / inner whitespace, prefixes, suffixes, extensions"""
    out = []
    for base in (tn, "M", "E"):
        out += [base.lower(), base.upper(), base.swapcase(), base.capitalize(),
                " " + base, base + " ", "  " + base + " ", base + "s", base + "_", "_" + base, base * 2]
        if len(base) > 1:
            out += [base[:-1], base[1:], base[:len(base) // 2], base[:len(base) // 2] + " " + base[len(base) // 2:]]
    for nick in NICKNAMES:
        out += [nick, nick.upper(), nick.capitalize(), nick + " "]
    out += ["Q", "qn", "UM", "Opt", "Vr", "fq", "fm", "q", "um"]      # macro-only table, macro, option, variable, fields
    real = {tn, "M", "E", "P", "X", COUNT_REPS}
    seen, res = set(), []
    for n in out:
        if n not in real and n not in seen:
            seen.add(n)
            res.append(n)
    return res


def _run(crit, cap, form="tuple"):
    return {"crit": crit, "cap": cap, "form": form}


def _cap_for(crit, rng=None):
    if crit is None:
        return 3
    if crit[0] == COUNT_REPS:
        return max(1, crit[1]) + 2
    return max(1, crit[1]) + 3


def gen_e2e(rng):
    shape = rng.choice(["top", "top", "top", "const", "friend", "just_once", "field"])
    if shape in ("const", "friend"):
        seq = [rng.choice([1, 1, 2, 3, 5])]
    elif shape == "just_once":
        seq = [rng.choice([1, 2, 4])]
    elif shape == "field":
        seq = [rng.randint(0, 2) for _ in range(rng.randint(1, 4))]
    else:
        pz = rng.choice([0.0, 0.0, 0.15, 0.35])
        seq = [0 if rng.random() < pz else rng.randint(1, rng.choice([1, 2, 4])) for _ in range(rng.randint(1, 6))]
    api = rng.choice(["generate_data", "generate"])
    tn = rng.choice([TABLE, TABLE, "Tab", "LineItem", "Line_Item", "tEAM", "order", "2024", "7"])
    case = gen_e2e_named(rng, shape, seq, api, tn)
    if tn != TABLE:
        case["tname"] = tn
    return case


def gen_e2e_named(rng, shape, seq, api, tn):
    if rng.random() < 0.22:
        # one SnowfakeryApplication object (one criterion) drives the run and its continuations
        crit = [tn, rng.choice([1, 2, 3, 4, 5, 6, 8])]
        nruns = rng.choice([2, 2, 3])
        return {"kind": "e2e", "shape": shape, "seq": seq, "api": api, "reuse": True,
                "runs": [_run(crit, _cap_for(crit)) for _ in range(nruns)]}
    old_table = rng.random() < 0.25
    runs = []
    nruns = rng.choice([1, 1, 2, 2, 2, 3])
    for i in range(nruns):
        u = rng.random()
        last = i == nruns - 1
        if not last:
            # earlier runs: mostly reps (so that the chain goes on), sometimes a target
            if u < 0.7:
                crit = [COUNT_REPS, rng.choice([1, 1, 2, 3])]
            elif u < 0.8:
                crit = None
            else:
                crit = [tn, rng.randint(1, 6)]
        else:
            if old_table and i > 0 and u < 0.35:
                crit = [rng.choice(["X", "X", "xn"]), rng.randint(1, 3)]
            elif u < 0.64:
                crit = [tn, rng.choice([1, 2, 3, 4, 5, 6, 7, 9, 12])]
            elif u < 0.76:
                crit = [COUNT_REPS, rng.choice([1, 2, 3, 4])]
            elif u < 0.81:
                crit = None
            else:
                # names the recipe cannot create: misspellings, the empty name, NICKNAMES of the
                # recipe's templates, and (continued runs) a table only the first run's recipe had
                if rng.random() < 0.25:
                    names = ["Q", "", "baz"] + (["X", "X", "xn", "x"] if old_table and i > 0 else [])
                else:
                    names = near_miss_names(tn)
                crit = [rng.choice(names), rng.randint(1, 3)]
        form = rng.choice(["tuple", "swapped"]) if (api == "generate_data" and crit is not None) else "tuple"
        runs.append(_run(crit, _cap_for(crit), form))
    case = {"kind": "e2e", "shape": shape, "seq": seq, "api": api, "runs": runs}
    if old_table and nruns > 1:
        case["old_table"] = True
    return case


def gen_e2e_fixed():
    out = []
    # former K7 in its natural habitat: the target table is created by a just_once template only
    out.append({"kind": "e2e", "shape": "just_once", "seq": [2], "api": "generate_data",
                "runs": [_run(None, 3), _run([TABLE, 1], 4)]})
    # former K7 with a varying count
    out.append({"kind": "e2e", "shape": "top", "seq": [2, 0, 1], "api": "generate",
                "runs": [_run([COUNT_REPS, 1], 3), _run([TABLE, 2], 5)]})
    # relative counting after a continuation, exact boundary
    out.append({"kind": "e2e", "shape": "const", "seq": [2], "api": "generate_data",
                "runs": [_run([COUNT_REPS, 3], 5), _run([TABLE, 4], 7, "swapped")]})
    out.append({"kind": "e2e", "shape": "const", "seq": [2], "api": "generate",
                "runs": [_run([TABLE, 3], 6), _run([TABLE, 3], 6), _run([TABLE, 1], 4)]})
    # unknown table, fresh and continued
    out.append({"kind": "e2e", "shape": "top", "seq": [1], "api": "generate_data", "runs": [_run(["Q", 2], 5)]})
    out.append({"kind": "e2e", "shape": "top", "seq": [1], "api": "generate",
                "runs": [_run(None, 3), _run(["Q", 1], 4)]})
    # fresh no-progress
    out.append({"kind": "e2e", "shape": "top", "seq": [1, 0, 1], "api": "generate_data", "runs": [_run([TABLE, 3], 6)]})
    out.append({"kind": "e2e", "shape": "top", "seq": [0], "api": "generate", "runs": [_run([TABLE, 1], 4)]})
    # a target naming a nickname, fresh and continued; a table only the first run's recipe had
    out.append({"kind": "e2e", "shape": "top", "seq": [1], "api": "generate_data", "runs": [_run(["mk", 2], 5)]})
    out.append({"kind": "e2e", "shape": "const", "seq": [2], "api": "generate",
                "runs": [_run([TABLE, 1], 4), _run(["tn", 2], 5)]})
    out.append({"kind": "e2e", "shape": "const", "seq": [2], "api": "generate_data", "old_table": True,
                "runs": [_run([TABLE, 1], 4), _run(["X", 1], 4)]})
    # near misses of real table names and nicknames (case, whitespace, prefix, suffix): always present
    for tn, shape in (("LineItem", "friend"), (TABLE, "top"), ("order", "const")):
        for k, name in enumerate(near_miss_names(tn)):
            c = {"kind": "e2e", "shape": shape, "seq": [2], "api": ("generate_data", "generate")[k % 2],
                 "runs": ([_run([name, 1 + k % 3], 5)] if k % 3 else [_run(None, 3), _run([name, 1 + k % 3], 5)])}
            if tn != TABLE:
                c["tname"] = tn
            out.append(c)
    # one application object reused for a run and its continuations: counted from each run's start
    for api in ("generate_data", "generate"):
        out.append({"kind": "e2e", "shape": "const", "seq": [2], "api": api, "reuse": True,
                    "runs": [_run([TABLE, 4], 7), _run([TABLE, 4], 7), _run([TABLE, 4], 7)]})
        out.append({"kind": "e2e", "shape": "top", "seq": [1, 2, 0, 3], "api": api, "reuse": True,
                    "runs": [_run([TABLE, 3], 6), _run([TABLE, 3], 6)]})
    # former K10: the empty table name is an unknown table
    out.append({"kind": "e2e", "shape": "top", "seq": [1], "api": "generate", "runs": [_run(["", 1], 4)]})
    return out


# ---------------------------------------------------------------- stream "interp": SF-core recipes with a target
IW = dict(case_twin=0.06, dual_fwd=0.2, fwd=0.45, nick=0.5, ref=0.3, zero_count=0.3, once=0.3, hidden_table=0.15, formula=0.3,
          randref=0.06)


def gen_interp(rng):
    """A generated SF-core recipe (forward references reserve ids before the rows exist, zero counts,
    count formulas, just_once, nested/friend templates of the criterion table), an optional history of
    repetition runs chained by real continuation files, then one run with a criterion."""
    from . import sfcore as S
    w = dict(IW, dual_fwd=0.95, nick=0.8) if rng.random() < 0.3 else IW
    r, feats = S.gen_recipe(rng, w)
    tables = sorted({t["table"] for t in S.walk_templates(r)})
    # tables whose ids are reserved by forward references before their rows exist: here the counter
    # the application reads and the number of rows created can drift apart if the slots misbehave
    fwd = sorted({st[1]["table"] for st in r["stmts"] if st[0] == "obj" and
                  any(f == "fz1" for f, _ in sum((s2[1]["fields"] for s2 in r["stmts"] if s2[0] == "obj"), []))
                  and st[1].get("nick") and
                  any(d == ["ref", st[1]["nick"]] for s2 in r["stmts"] if s2[0] == "obj" for _, d in s2[1]["fields"])})
    nicks = sorted({t["nick"] for t in S.walk_templates(r) if t.get("nick")})
    x = rng.random()
    if x < 0.72 and tables:
        crit = [rng.choice(fwd if fwd and rng.random() < 0.7 else tables), rng.choice([1, 1, 2, 2, 3, 4, 5, 6])]
    elif x < 0.84:
        crit = [COUNT_REPS, rng.choice([1, 2, 3])]
    elif x < 0.88:
        crit = None
    else:       # a name no template creates: nickname, near miss, unused table
        pool = [n for n in nicks if n not in tables] + [t.lower() for t in tables if t.lower() not in tables] + \
               [t + " " for t in tables] + ["Z", ""]
        crit = [rng.choice(pool), rng.choice([1, 2])]
    pre = rng.choice([[], [], [], [1], [1], [2], [1, 1], [2, 1]])
    from .c04 import row_valued_in_once
    if pre and row_valued_in_once(r):
        pre = []
    return {"kind": "interp", "recipe": r, "pre": pre, "crit": crit, "features": feats}


def generate(rng, tier):
    cases = gen_direct_boundaries()
    cases.append(_direct(["", 1], None, [0, 0, 0]))          # former K10 at the arithmetic level
    if tier == "quick":
        pool = gen_direct_exhaustive()
        cases.extend(rng.sample(pool, 2200))
        cases.extend(gen_direct_random(rng, 1200))
        cases.extend(gen_e2e_fixed())
        cases.extend(gen_e2e(rng) for _ in range(500))
        cases.extend(gen_interp(rng) for _ in range(260))
    else:
        cases.extend(gen_direct_exhaustive())
        cases.extend(gen_direct_random(rng, 8000))
        cases.extend(gen_e2e_fixed())
        cases.extend(gen_e2e(rng) for _ in range(6000))
        cases.extend(gen_interp(rng) for _ in range(4000))
    return cases


# ---------------------------------------------------------------- recipes
def rows_of_iteration(case, g):
    """rows of T created by global iteration g (0-based, counted over the whole session)"""
    shape, seq = case["shape"], case["seq"]
    if shape == "just_once":
        return seq[0] if g == 0 else 0
    if shape == "field":
        return seq[g % len(seq)] + 1
    return seq[g % len(seq)]


def recipe_text(case, with_old_table=False):
    """Every template carries a nickname (mk, tn, pn, en[, xn]): a nickname is not a table."""
    shape, seq = case["shape"], case["seq"]
    T = _tname(case)
    if T.isdigit():          # a table may be called "2024": written quoted, it is a string
        T = '"%s"' % T
    expr = "${{ %s[(M.id - 1) %% %d] }}" % (str(list(seq)), len(seq))
    if shape == "top":
        body = f"- object: {T}\n  nickname: tn\n  count: {expr}\n"
    elif shape == "const":
        body = f"- object: {T}\n  nickname: tn\n  count: {seq[0]}\n"
    elif shape == "just_once":
        body = f"- object: {T}\n  nickname: tn\n  just_once: true\n  count: {seq[0]}\n"
    elif shape == "friend":
        body = f"- object: P\n  nickname: pn\n  friends:\n    - object: {T}\n      nickname: tn\n      count: {seq[0]}\n"
    elif shape == "field":
        # one T row through a field of P, plus a varying number at top level
        body = (f"- object: P\n  nickname: pn\n  fields:\n    t:\n      - object: {T}\n"
                f"- object: {T}\n  nickname: tn\n  count: {expr}\n")
    else:
        raise ValueError(shape)
    if with_old_table:
        body += "- object: X\n  nickname: xn\n"
    # names the recipe knows that are NOT tables it can create: a table that occurs only inside a macro
    # nothing includes (Q, nickname qn), the macro itself, an option, a variable, field names
    extras = ("- macro: UM\n  fields:\n    fq: 1\n  friends:\n    - object: Q\n      nickname: qn\n"
              "- option: Opt\n  default: 1\n- var: Vr\n  value: 1\n")
    return extras + "- object: M\n  nickname: mk\n  fields:\n    fm: ${{Opt + Vr}}\n" + body + "- object: E\n  nickname: en\n"


# ---------------------------------------------------------------- implementation
class _Runaway(BaseException):
    pass


class _KeepIO(io.StringIO):
    def close(self):
        pass


def _run_direct(case):
    from snowfakery.api import SnowfakeryApplication
    from snowfakery.data_generator_runtime import StoppingCriteria, IdManager
    crit = case["crit"]
    table = crit[0] if crit and crit[0] != COUNT_REPS else TABLE
    app = SnowfakeryApplication(StoppingCriteria(crit[0], crit[1]) if crit else None)
    idm = IdManager()
    if case["cont"] is not None:
        state = {"last_used_ids": ({} if case.get("absent") else {table: case["cont"]})}
        try:
            from snowfakery.utils.yaml_utils import hydrate
            idm = hydrate(IdManager, state)
        except ImportError:
            idm.__setstate__(state)
    # use the real RuntimeContext.check_if_finished (slots check, progress check, finish test in
    # the code's own order) when its collaborators can be put together; else the two calls
    def finish():
        app.ensure_progress_was_made(idm)
        return app.check_if_finished(idm)
    via = "app"
    try:
        from types import SimpleNamespace
        from snowfakery.data_generator_runtime import RuntimeContext, Globals
        g = Globals()
        g.id_manager = idm
        fake = SimpleNamespace(interpreter=SimpleNamespace(globals=g, parent_application=app))
        # dry run with a recording stand-in: only when the method works on this stand-in structure
        # (a refactoring may have moved the logic elsewhere) is it used for the real objects
        class _Probe:
            stopping_tablename = None
            calls = 0

            def ensure_progress_was_made(self, id_manager):
                self.calls += 1

            def check_if_finished(self, id_manager):
                self.calls += 1
                return True
        pg = Globals()
        pg.id_manager = IdManager()
        probe = _Probe()
        usable = False
        try:
            usable = (RuntimeContext.check_if_finished(
                SimpleNamespace(interpreter=SimpleNamespace(globals=pg, parent_application=probe))) is True
                and probe.calls == 2)
        except Exception:
            usable = False
        if usable and hasattr(g, "check_slots_filled"):
            def finish():  # noqa: F811
                return RuntimeContext.check_if_finished(fake)
            via = "RuntimeContext"
    except Exception:
        pass
    j = 0
    for r in case["rs"]:
        for _ in range(r):
            idm.generate_id(table)
        j += 1
        try:
            fin = finish()
        except BaseException as e:
            return {"outcome": ["failed", j, C.canon_exc(e)], "via": via}
        if fin:
            return {"outcome": ["stopped", j, idm[table]], "via": via}
    return {"outcome": ["exhausted", j], "via": via}


_LINE = re.compile(r"^(\w+)\(")


def _run_e2e(case):
    from snowfakery.data_generator_runtime import StoppingCriteria
    from snowfakery.output_streams import OutputStream
    cont_text = None
    runs_obs = []
    shared_app = None
    if case.get("reuse"):
        from snowfakery.api import SnowfakeryApplication
        c0 = case["runs"][0]["crit"]
        shared_app = SnowfakeryApplication(StoppingCriteria(c0[0], c0[1]))

    for idx, run in enumerate(case["runs"]):
        crit, cap = run["crit"], run["cap"]
        # the table X exists only in the recipe of the first run of an "old_table" session
        recipe = recipe_text(case, with_old_table=bool(case.get("old_table")) and idx == 0)
        rows = []

        def saw(table):
            if table == "M" and rows.count("M") >= cap:
                raise _Runaway()
            rows.append(table)

        new_cont = _KeepIO()
        outcome = "ok"
        try:
            if case["api"] == "generate":
                from snowfakery.data_generator import generate

                class Capture(OutputStream):
                    def __init__(self):
                        super().__init__(None)

                    def write_single_row(self, tablename, row):
                        saw(tablename)

                    def close(self, **kw):
                        return []

                generate(io.StringIO(recipe), {}, Capture(), shared_app,
                         stopping_criteria=(StoppingCriteria(crit[0], crit[1]) if crit else None)
                         if shared_app is None else None,
                         generate_continuation_file=new_cont,
                         continuation_file=io.StringIO(cont_text) if cont_text is not None else None)
            else:
                from snowfakery.api import generate_data

                class CapIO(io.StringIO):
                    def write(self, s):
                        for line in s.splitlines():
                            m = _LINE.match(line)
                            if m:
                                saw(m.group(1))
                        return len(s)

                    def close(self):
                        pass

                tn = None
                if crit and shared_app is None:
                    tn = (crit[1], crit[0]) if run["form"] == "swapped" else (crit[0], crit[1])
                generate_data(io.StringIO(recipe), output_file=CapIO(), output_format="txt",
                              target_number=tn, parent_application=shared_app, generate_continuation_file=new_cont,
                              continuation_file=io.StringIO(cont_text) if cont_text is not None else None)
        except _Runaway:
            outcome = "runaway"
        except C._CaseTimeout:
            raise
        except BaseException as e:
            outcome = C.canon_exc(e)
        letters = {"M": "M", _tname(case): "T", "E": "E", "P": "P", "X": "X"}
        runs_obs.append({"outcome": outcome, "rows": "".join(letters.get(t, "?") for t in rows)})
        if outcome != "ok":
            break
        cont_text = new_cont.getvalue()
        if not cont_text.strip():
            runs_obs[-1]["no_continuation"] = True
            break
    return {"runs": runs_obs}


def _counter(cont_text, table):
    import yaml
    return (yaml.safe_load(cont_text)["id_manager"]["last_used_ids"] or {}).get(table, 0)


def _run_interp(case):
    """pre-history (repetition runs through real continuation files), the run with the criterion, and -
    for the oracle - the repetition runs of 1, 2, ... iterations from the same starting point."""
    from . import sfcore as S
    r, crit = case["recipe"], case["crit"]
    pre_runs, cont, off = [], None, 0
    for k in case["pre"]:
        o = S.run_recipe(r, reps=k, continuation=cont, want_continuation=True, draw_offset=off)
        off += len(o.get("draws", []))
        pre_runs.append({kk: vv for kk, vv in o.items() if kk != "cont"})
        if "ok" not in o:
            return {"pre": pre_runs, "pre_failed": True}
        cont = o["cont"]
    target = tuple(crit) if crit else None
    from .c04 import row_valued_in_once
    # a just_once row holding a reference cannot be written to a continuation file (findings K1/K2 of
    # C04/C05): for such recipes no file is asked for, the model comparison alone decides
    want = not row_valued_in_once(r)
    if crit is None:
        fin = S.run_recipe(r, reps=1, continuation=cont, want_continuation=False, draw_offset=off)
    elif crit[0] == COUNT_REPS:
        fin = S.run_recipe(r, reps=crit[1], continuation=cont, want_continuation=False, draw_offset=off)
    else:
        fin = S.run_recipe(r, continuation=cont, want_continuation=want, target=target, draw_offset=off)
    obs = {"pre": pre_runs, "final": {kk: vv for kk, vv in fin.items() if kk != "cont"}}
    if crit and crit[0] != COUNT_REPS and want:
        T, N = crit
        obs["start_counter"] = _counter(cont, T) if cont else 0
        if "ok" in fin:
            obs["final"]["counter"] = _counter(fin["cont"], T)
        ladder = []
        for i in range(1, N + 2):
            o = S.run_recipe(r, reps=i, continuation=cont, want_continuation=True, draw_offset=off)
            step = {kk: vv for kk, vv in o.items() if kk not in ("cont", "draws")}
            if "ok" in o:
                step["counter"] = _counter(o["cont"], T)
            ladder.append(step)
            if "ok" not in o or step["counter"] - obs["start_counter"] >= N or \
               (step["counter"] == (ladder[-2]["counter"] if len(ladder) > 1 else obs["start_counter"])):
                break
        obs["ladder"] = ladder
    return obs


def run_impl(case):
    if case["kind"] == "interp":
        return _run_interp(case)
    if case["kind"] == "direct":
        return _run_direct(case)
    if case["kind"] == "e2e":
        return _run_e2e(case)
    raise ValueError(case["kind"])


# ---------------------------------------------------------------- model side
def _ccrit(crit):
    if crit is None:
        return "None"
    name = "COUNT_REPS" if crit[0] == COUNT_REPS else C.cstr(crit[0])
    return f"(Some (mkCrit {name} {C.cz(crit[1])}))"


def _coutcome(o):
    if o[0] == "stopped":
        return f"(Stopped {C.cnat(o[1])} {C.cz(o[2])})"
    if o[0] == "failed":
        return f"(Failed {C.cnat(o[1])} {C.cerr(o[2])})"
    return f"(Exhausted {C.cnat(o[1])})"


_WHOLE = re.compile(r"^(M[TPX]*E)*$")


def parse_rows(rows):
    """-> (per-iteration T counts of the complete iterations, whole?)"""
    counts = [seg.count("T") for seg in re.findall(r"M[TPX]*E", rows)]
    return counts, bool(_WHOLE.match(rows))


def _session_rs(case):
    total = sum(r["cap"] for r in case["runs"]) + 2
    return [rows_of_iteration(case, g) for g in range(total)]


def _interp_coq(case, obs):
    from . import sfcore as S
    if obs.get("pre_failed"):
        return None
    fin = obs["final"]
    if "ok" in fin:
        if not S.comparable(fin["ok"]):
            return None
        exp = f"(Ok {S.rows_coq(fin['ok'])})"
    else:
        exp = f"(Err {C.cerr(fin['err'])})"
    crit = case["crit"]
    fuel = 1 if crit is None else crit[1] + 1
    draws = [d for run in obs["pre"] for d in run.get("draws", [])] + list(fin.get("draws", []))
    return (f"CTarget PFull {S.recipe_coq(case['recipe'], draws)} {C.clist(C.cnat(k) for k in case['pre'])} "
            f"{_ccrit(crit)} {C.cnat(fuel)} {exp}")


def coq_case(case, obs):
    t = _coq_case(case, obs)
    if t is None:
        return None
    return f"CInt ({t})" if case["kind"] == "interp" else f"CAbs ({t})"


def _coq_case(case, obs):
    if case["kind"] == "interp":
        return _interp_coq(case, obs)
    if case["kind"] == "direct":
        cont = C.copt(case["cont"], C.cz)
        return (f"CDirect {_ccrit(case['crit'])} {cont} {C.clist(C.cz(r) for r in case['rs'])} "
                f"{_coutcome(obs['outcome'])}")
    # e2e
    exp = []
    total_t = 0
    for ro in obs["runs"]:
        counts, _ = parse_rows(ro["rows"])
        n = len(counts)
        total_t += ro["rows"].count("T")
        if ro["outcome"] == "ok":
            exp.append(_coutcome(["stopped", n, total_t]))
        elif ro["outcome"] == "runaway":
            exp.append(_coutcome(["exhausted", n]))
        else:
            exp.append(_coutcome(["failed", n, ro["outcome"]]))
    tables = C.clist(C.cstr(t) for t in (["M", _tname(case), "E"] + (["P"] if case["shape"] in ("friend", "field") else [])))
    if case.get("reuse"):
        caps = C.clist(C.cnat(r["cap"]) for r in case["runs"])
        return (f"CChainReuse {tables} {C.clist(C.cz(r) for r in _session_rs(case))} "
                f"{_ccrit(case['runs'][0]['crit'])} {caps} {C.clist(exp)}")
    runs = C.clist(C.cpair(_ccrit(r["crit"]), C.cnat(r["cap"])) for r in case["runs"])
    return (f"CChain {tables} {C.clist(C.cz(r) for r in _session_rs(case))} {runs} {C.clist(exp)}")


# ---------------------------------------------------------------- property oracle (implementation only)
def _judge_run(crit, counts, outcome, last0, continued, cap, where):
    """The property, evaluated on what one run did.
    counts = rows of the criterion table created by the complete iterations that were executed
    (for `exhausted`/`runaway`: the iterations the cap allowed).
    Returns a list of (class, message); no finding is open for C07, every class is 'other'."""
    out = []
    n = len(counts)
    if crit is None or crit[0] == COUNT_REPS:
        k = 1 if crit is None else crit[1]
        if k < 1:
            return out                      # outside the property's domain
        if outcome[0] == "exhausted" and n < k:
            return out                      # the harness's iteration budget ended first: nothing to judge
        if outcome[0] != "stopped" or n != k:
            out.append(("other", f"{where}: repetition target {k} but the run did {outcome[0]} after {n} iterations"))
        return out
    name, big_n = crit
    if big_n < 1:
        return out
    sums = list(itertools.accumulate(counts))
    jstar = next((j + 1 for j, s in enumerate(sums) if s >= big_n), None)   # first boundary meeting N
    zero = next((j + 1 for j, c in enumerate(counts) if c == 0), None)      # first no-progress iteration
    zcls = "other"
    if outcome[0] == "stopped":
        if jstar is None or sums[n - 1] < big_n:
            out.append(("other", f"{where}: stopped after {n} iterations with only {sums[-1] if sums else 0} < {big_n} rows of {name} since the run started"))
        elif n != jstar:
            out.append(("other", f"{where}: stopped after {n} iterations, but {big_n} rows of {name} were reached after iteration {jstar} (counts {counts[:12]})"))
        if zero is not None and zero <= n:
            out.append((zcls, f"{where}: iteration {zero} created no row of {name} but the run went on (no error)"))
    elif outcome[0] == "failed":
        if outcome[2] != "RuntimeError":
            out.append(("other", f"{where}: ended with {outcome[2]} after {n} iterations"))
        else:
            if n == 0 or counts[n - 1] != 0:
                out.append(("other", f"{where}: progress error after iteration {n} which created {counts[n-1] if n else '?'} rows of {name}"))
            if jstar is not None and jstar < n:
                out.append(("other", f"{where}: target {big_n} met after iteration {jstar} but the run went on to iteration {n}"))
            if zero is not None and zero < n:
                out.append((zcls, f"{where}: iteration {zero} created no row of {name} but the run went on (error only after iteration {n})"))
    else:  # exhausted / runaway
        need = big_n + (1 if continued else 0)
        if zero is not None and (jstar is None or zero < jstar):
            out.append((zcls, f"{where}: iteration {zero} created no row of {name} but the run went on (still running after {n} iterations)"))
        elif jstar is not None:
            out.append(("other", f"{where}: {big_n} rows of {name} reached after iteration {jstar} but the run did not stop (still running after {n} iterations)"))
        elif n >= need:
            out.append(("other", f"{where}: still running after {n} iterations"))
    return out


def _violations(case, obs):
    if case["kind"] == "direct":
        crit, o = case["crit"], obs["outcome"]
        n = o[1]
        counts = list(case["rs"][:n])
        last0 = case["cont"] or 0
        v = _judge_run(crit, counts, o, last0, case["cont"] is not None, len(case["rs"]), "direct")
        if o[0] == "stopped" and o[2] != last0 + sum(counts):
            v.append(("other", f"direct: final id {o[2]} is not start id {last0} + rows created {sum(counts)}"))
        return v
    v = []
    total_t = 0
    for i, (run, ro) in enumerate(zip(case["runs"], obs["runs"])):
        where = (f"run {i + 1} of {len(case['runs'])} ({'continued' if i else 'fresh'}, {case['api']}"
                 f"{', one application object for all runs' if case.get('reuse') else ''})")
        # a reused application object carries its own (single) criterion
        crit = case["runs"][0]["crit"] if case.get("reuse") else run["crit"]
        counts, whole = parse_rows(ro["rows"])
        oc = ro["outcome"]
        known_tables = {"M", _tname(case), "E"} | ({"P"} if case["shape"] in ("friend", "field") else set()) \
            | ({"X"} if case.get("old_table") and i == 0 else set())
        if crit and crit[0] != COUNT_REPS and crit[0] not in known_tables:
            if oc != "DGE" or ro["rows"]:
                v.append(("other", f"{where}: target table {crit[0]!r} cannot be created by the recipe but the run "
                                   f"ended with {oc} after writing {len(ro['rows'])} rows"))
            break
        if not whole:
            v.append(("other", f"{where}: output is not a sequence of whole iterations: {ro['rows'][:60]}"))
        outcome = (["stopped", len(counts), 0] if oc == "ok" else
                   ["exhausted", len(counts)] if oc == "runaway" else ["failed", len(counts), oc])
        v.extend(_judge_run(crit, counts, outcome, total_t, i > 0, run["cap"], where))
        total_t += ro["rows"].count("T")
        if ro.get("no_continuation"):
            v.append(("other", f"{where}: no continuation file was written"))
    v.sort(key=lambda cm: cm[0] != "other")     # anything outside the known shapes first
    return v


def _interp_oracle(case, obs):
    """The property on a real recipe: the target run must equal the repetition run of the FIRST number
    of whole iterations after which >= N rows of T were created since this run's start; an iteration
    that creates no row of T before that ends the run with RuntimeError; a name no template creates
    is rejected with Snowfakery's error before any row."""
    from . import sfcore as S
    if obs.get("pre_failed"):
        return None
    crit, fin = case["crit"], obs["final"]
    if "err" in fin and fin["err"] not in ("DGE", "RuntimeError"):
        return f"internal-error: {fin['err']}: {fin.get('msg', '')[:120]}"
    if crit is None or crit[0] == COUNT_REPS:
        return None                      # compared with the model; the direct/e2e streams judge repetitions
    T, N = crit
    tables = {t["table"] for t in S.walk_templates(case["recipe"]) if not t["table"].startswith("__")}
    if T not in tables:          # hidden tables are not targets: none of their rows can reach an output
        if fin.get("err") != "DGE" or fin.get("rows"):
            return (f"unknown-target: target {T!r} is created by no template but the run gave "
                    f"{fin.get('err', 'ok')} after {len(fin.get('rows', fin.get('ok', [])))} rows")
        return None
    if "ladder" not in obs:
        return None
    ladder, start = obs["ladder"], obs["start_counter"]
    prev = start
    for i, step in enumerate(ladder, 1):
        if "err" in step:
            if fin.get("err") != step["err"]:
                return (f"interp-outcome: repetition run of {i} iterations fails with {step['err']} before the "
                        f"target is met, the target run gave {fin.get('err', 'ok')}")
            return None
        if step["counter"] == prev:
            if fin.get("err") != "RuntimeError":
                return (f"interp-no-progress: iteration {i} creates no row of {T} (counter {prev}) before the target "
                        f"{N} is met, but the run gave {fin.get('err', 'ok')}")
            return None
        if step["counter"] - start >= N:
            if "ok" not in fin:
                return (f"interp-outcome: {i} whole iterations create {step['counter'] - start} >= {N} rows of {T}, "
                        f"but the target run failed with {fin['err']}")
            if fin["ok"] != step["ok"]:
                return (f"interp-first-boundary: the target run ({T}, {N}) wrote {len(fin['ok'])} rows, the repetition "
                        f"run of {i} iterations (first boundary with >= {N} rows of {T}) wrote {len(step['ok'])}")
            if not T.startswith("__"):
                n_t = sum(1 for t, _ in fin["ok"] if t == T)
                if n_t != fin["counter"] - start:
                    return (f"interp-counter: the counter of {T} advanced by {fin['counter'] - start} but {n_t} rows "
                            f"of {T} were written")
            return None
        prev = step["counter"]
    return None


def oracle(case, obs):
    if case["kind"] == "interp":
        return _interp_oracle(case, obs)
    v = _violations(case, obs)
    if v:
        return f"{v[0][0]}: {v[0][1]}"
    return None


def violation_class(case, obs, msg):
    return msg.split(":")[0] + ":" + case["kind"]


FINDING_OF_CLASS = {}     # K7 and K10 were repaired in /repo (0afda32, d9d462f): nothing is suppressed


def match_finding(case, obs, msg, findings):
    """A case is covered by an open finding only if EVERY violation it shows has that finding's
    shape.  No finding is open for C07, so this returns None for every case."""
    if msg == "model-disagreement":
        return None
    try:
        v = _violations(case, obs)
    except Exception:
        return None
    if not v or v[0][0] == "other":
        return None
    fid = FINDING_OF_CLASS.get(v[0][0])
    if fid and any(f.get("id") == fid for f in findings):
        return fid
    return None


# ---------------------------------------------------------------- evidence
def nontrivial(case, obs):
    if case["kind"] == "interp":
        fin = obs.get("final") or {}
        return bool(case["crit"]) and ("ok" in fin and len(fin["ok"]) >= 2 or fin.get("err") == "RuntimeError")
    if case["kind"] == "direct":
        crit = case["crit"]
        if crit is None:
            return False
        o = obs["outcome"]
        return o[1] >= 2 or (case["cont"] or 0) > 0 or o[0] == "failed"
    runs = obs["runs"]
    return len(runs) >= 2 or any(r["rows"].count("E") >= 2 or r["outcome"] != "ok" for r in runs)


def _unknown_kind(name, tn):
    real = [tn, "M", "E"]
    nicks = NICKNAMES + ["pn", "xn"]
    if name in nicks:
        return "nickname"
    if name.lower() in nicks or name.strip().lower() in nicks:
        return "nickname_variant"
    if name in ("X", "x"):
        return "table_of_earlier_recipe"
    if name == "":
        return "empty"
    if any(name != r and name.lower() == r.lower() for r in real):
        return "case_variant"
    if any(name != r and name.strip() == r for r in real) or any(" " in name and name.replace(" ", "") == r for r in real):
        return "whitespace_variant"
    if any(r.startswith(name) or r.endswith(name) for r in real):
        return "prefix_or_suffix"
    if any(name.startswith(r) or name.endswith(r) for r in real):
        return "extension"
    return "other"


def stats(cases, obss):
    kinds = Counter(c["kind"] for c in cases)
    crit = Counter()
    outcomes = Counter()
    iters = Counter()
    conts = Counter()
    shapes = Counter()
    nruns = Counter()
    apis = Counter()
    feats = Counter()
    zeros = 0
    interp = Counter()
    for c, o in zip(cases, obss):
        if not isinstance(o, dict):
            continue
        if c["kind"] == "interp":
            k = c["crit"]
            fin = o.get("final") or {}
            interp["criterion:" + ("none" if k is None else "reps" if k[0] == COUNT_REPS else "target")] += 1
            interp["history:" + "+".join(map(str, c["pre"])) + "+target"] += 1
            interp["outcome:" + ("pre-failed" if o.get("pre_failed") else "ok" if "ok" in fin else fin.get("err", "?"))] += 1
            if k and k[0] != COUNT_REPS and "ladder" in o:
                interp["iterations_to_target:%d" % len(o["ladder"])] += 1
                if k[0].startswith("__"):
                    interp["hidden_criterion_table"] += 1
            for f in c.get("features", []):
                if f in ("forward_ref", "dual_forward_ref", "zero_count", "count_formula", "just_once", "random_reference"):
                    interp["feature:" + f] += 1
            continue
        if c["kind"] == "direct" and "outcome" in o:
            k = c["crit"]
            crit["none" if k is None else "reps" if k[0] == COUNT_REPS else "target"] += 1
            oc = o["outcome"]
            outcomes["direct:" + oc[0] + (":" + oc[2] if oc[0] == "failed" else "")] += 1
            iters[min(oc[1], 10)] += 1
            conts["fresh" if c["cont"] is None else "cont0" if c["cont"] == 0 else "cont>0"] += 1
            zeros += 1 if 0 in c["rs"] else 0
        elif c["kind"] == "e2e" and "runs" in o:
            shapes[c["shape"]] += 1
            nruns[len(c["runs"])] += 1
            apis[c["api"]] += 1
            feats["reused_application"] += 1 if c.get("reuse") else 0
            feats["first_recipe_has_extra_table"] += 1 if c.get("old_table") else 0
            for r in c["runs"]:
                k = r["crit"]
                if k and k[0] not in (COUNT_REPS, _tname(c)):
                    feats["unknown_target:" + _unknown_kind(k[0], _tname(c))] += 1
            for r, ro in zip(c["runs"], o["runs"]):
                k = r["crit"]
                crit["none" if k is None else "reps" if k[0] == COUNT_REPS else "target"] += 1
                outcomes["e2e:" + ro["outcome"]] += 1
                iters[min(ro["rows"].count("E"), 10)] += 1
    return {"kinds": dict(kinds), "interp_stream": dict(interp), "criteria": dict(crit), "outcomes": dict(outcomes),
            "iterations_per_run(10=10+)": {str(k): v for k, v in sorted(iters.items())},
            "direct_start": dict(conts), "direct_with_zero_iteration": zeros,
            "e2e_shapes": dict(shapes), "e2e_runs_per_session": {str(k): v for k, v in nruns.items()},
            "e2e_api": dict(apis), "e2e_features": dict(feats)}


def shrink(case):
    if case["kind"] == "interp":
        from . import sfcore as S
        if case["pre"]:
            yield dict(case, pre=case["pre"][1:])
        if case["crit"] and case["crit"][1] > 1:
            yield dict(case, crit=[case["crit"][0], case["crit"][1] - 1])
        for c2 in S.shrink_recipe_case({"recipe": case["recipe"], "reps": 1}):
            yield dict(case, recipe=c2["recipe"])
        return
    if case["kind"] == "direct":
        rs = case["rs"]
        for i in range(len(rs)):
            yield dict(case, rs=rs[:i] + rs[i + 1:])
        for i, r in enumerate(rs):
            if r > 1:
                yield dict(case, rs=rs[:i] + [r - 1] + rs[i + 1:])
        if case["cont"]:
            yield dict(case, cont=case["cont"] - 1)
            yield dict(case, cont=None, absent=False)
        if case["crit"] and case["crit"][1] > 1:
            yield dict(case, crit=[case["crit"][0], case["crit"][1] - 1])
    else:
        runs = case["runs"]
        if len(runs) > 1:
            yield dict(case, runs=runs[1:])
            yield dict(case, runs=runs[:-1])
        if len(case["seq"]) > 1:
            yield dict(case, seq=case["seq"][:-1])
            yield dict(case, seq=case["seq"][1:])
        if case.get("reuse"):
            c0 = runs[0]["crit"]
            if c0[1] > 1:
                yield dict(case, runs=[dict(r, crit=[c0[0], c0[1] - 1]) for r in runs])
            return
        for i, r in enumerate(runs):
            if r["crit"] and r["crit"][1] > 1:
                nr = dict(r, crit=[r["crit"][0], r["crit"][1] - 1])
                yield dict(case, runs=runs[:i] + [nr] + runs[i + 1:])


def directed_search(rng, disagreeing):
    out = gen_direct_boundaries()
    out.extend(gen_direct_exhaustive()[::7])
    out.extend(gen_direct_random(rng, 4000))
    out.extend(gen_e2e_fixed())
    out.extend(gen_e2e(rng) for _ in range(1500))
    out.extend(gen_interp(rng) for _ in range(1200))
    return out
