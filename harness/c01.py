"""C01 — row ids are unique and dense per table across iterations (and continuations).
Model: coq/theories/Interp.v; theorems: coq/props/C01.v (ids_dense for every recipe of the fragment)."""
from . import common as C
from . import sfcore as S

PROP = "C01"
MODEL = "Interp"
SHARD = 150
SKIPPED_FN = "case_unsupported"
CASE_TIMEOUT = 30
RULE = ("SF-core recipes weighted toward the id mechanism (forward references by nickname/table name, "
        "nicknames, zero counts, nested templates, friends, just_once, hidden tables), 1-4 iterations; "
        "compared projection: the (table, id) sequence and the run outcome.  non-trivial: the recipe has a "
        "forward reference, a zero count, a nickname or >= 2 iterations, and completes; distinct by recipe hash")
TRUSTED = ["harness/sfcore.py: recipe AST -> YAML / Coq printers; capture OutputStream reading .id at write time"]
ASSUMPTIONS = ["the theorems are about the SF-core fragment (Interp.v); recipes outside it are only checked by the "
               "direct oracle on the implementation"]
W = dict(fwd=0.5, nick=0.55, ref=0.32, zero_count=0.18, once=0.25, hidden_table=0.12, formula=0.25)


def generate(rng, tier):
    n = 380 if tier == "quick" else 10000
    cases = []
    for _ in range(n):
        r, feats = S.gen_recipe(rng, W)
        cases.append({"recipe": r, "reps": rng.choice([1, 2, 2, 3, 4]), "features": feats})
    return cases


def run_impl(case):
    return S.run_recipe(case["recipe"], reps=case["reps"])


def coq_case(case, obs):
    return S.proj_case_coq("PIds", case["recipe"], case["reps"], obs)


def oracle(case, obs):
    if "err" in obs:
        if obs["err"] != "DGE":
            return f"internal-error: {obs['err']}: {obs.get('msg','')[:120]}"
        return None
    for t, ids in S.ids_by_table(obs["ok"]).items():
        if sorted(ids) != list(range(1, len(ids) + 1)):
            return f"ids-not-dense: table {t}: emitted ids {ids[:30]} are not exactly 1..{len(ids)}"
    return None


def nontrivial(case, obs):
    f = set(case.get("features", []))
    return "ok" in obs and len(obs["ok"]) >= 2 and (bool(f & {"forward_ref", "zero_count", "nick"}) or case["reps"] >= 2)


stats = S.feature_stats
shrink = S.shrink_recipe_case


def directed_search(rng, disagreeing):
    out = []
    for _ in range(1500):
        r, feats = S.gen_recipe(rng, W)
        out.append({"recipe": r, "reps": rng.choice([1, 2, 3, 4]), "features": feats})
    return out


def match_finding(case, obs, msg, findings):
    return None
