"""C01 — row ids are unique and dense per table across iterations (and continuations).
Model: coq/theories/Interp.v; theorems: coq/props/C01.v (ids_dense for every recipe of the fragment)."""
from . import common as C
from . import sfcore as S

PROP = "C01"
MODEL = "Interp"
SHARD = 150
SKIPPED_FN = "case_unsupported"
CASE_TIMEOUT = 30
RULE = ("SF-core recipes weighted toward the id mechanism (forward references by nickname/table name, "
        "nicknames, zero counts, nested templates, friends, just_once, hidden tables), 1-4 iterations, half of them "
        "split into chains of continuation runs through real continuation files; "
        "compared projection: the (table, id) sequence and the run outcome.  non-trivial: the recipe has a "
        "forward reference, a zero count, a nickname or >= 2 iterations, and completes; distinct by recipe hash")
TRUSTED = ["harness/sfcore.py: recipe AST -> YAML / Coq printers; capture OutputStream reading .id at write time"]
ASSUMPTIONS = ["the theorems are about the SF-core fragment (Interp.v); recipes outside it are only checked by the "
               "direct oracle on the implementation"]
W = dict(hidden_nick=0.08, case_twin=0.07, dual_fwd=0.25, fwd=0.5, nick=0.55, ref=0.32, zero_count=0.18, once=0.25, hidden_table=0.12, formula=0.25, randref=0.08)


DIRECTED = [S.stream_dual_forward_underfilled, S.stream_history_rows_hold_once_refs, S.stream_late_forward_reference, S.stream_stale_slot, S.stream_idle_middle, S.stream_shared_nick_forward, S.stream_once_cluster, S.stream_randref_nicks, S.stream_nick_spelled_like_table, S.stream_captured_slot]


def gen_case(rng, stream=None):
    from .c04 import row_valued_in_once
    if stream is not None or rng.random() < 0.12:      # directed streams (DESIGN.md 11.4)
        r, feats = (stream or rng.choice(DIRECTED))(rng)
        k = rng.choice([2, 3, 4, 4])
        # (a just_once row holding a reference cannot be written to a continuation file: K1/K2 of C04/C05)
        cut = rng.random() < 0.8 and not row_valued_in_once(r)
        ks = S.random_cuts(rng, k) if cut else [k]
        return {"recipe": r, "ks": ks, "features": feats, "retry": len(ks) > 1 and rng.random() < 0.5}
    r, feats = S.gen_recipe(rng, W)
    k = rng.choice([1, 2, 2, 3, 4])
    ks = [k]
    if k >= 2 and rng.random() < 0.5 and not row_valued_in_once(r):
        # split the k iterations into a chain of continuation runs
        cut = sorted(rng.sample(range(1, k), rng.randint(1, k - 1)))
        ks = [b - a for a, b in zip([0] + cut, cut + [k])]
    return {"recipe": r, "ks": ks, "features": feats, "retry": len(ks) > 1 and rng.random() < 0.5}


def generate(rng, tier):
    import random
    n = 380 if tier == "quick" else 10000
    cases = [gen_case(rng) for _ in range(n)]
    # a fixed share per directed stream (own rng; see harness/c02.py generate)
    rng2 = random.Random(rng.getrandbits(48) ^ 0xC01)
    for stream in sorted(set(DIRECTED), key=lambda f: f.__name__):
        for _ in range(8 if tier == "quick" else 100):
            cases.append(gen_case(rng2, stream))
    return cases


def run_impl(case):
    runs, cont = [], None
    ks = case["ks"]
    retry = None
    for i, k in enumerate(ks):
        off = sum(len(r.get("draws", [])) for r in runs)
        o = S.run_recipe(case["recipe"], reps=k, continuation=cont, want_continuation=(i < len(ks) - 1),
                         draw_offset=off)
        if cont is not None and i == len(ks) - 1 and "ok" in o and case.get("retry"):
            # the same continuation file used a second time in this process (a retry): it must resume
            # numbering after the ids the FILE records, exactly as the first attempt did
            o2 = S.run_recipe(case["recipe"], reps=k, continuation=cont, want_continuation=False, draw_offset=off)
            retry = {kk: vv for kk, vv in o2.items() if kk not in ("cont", "draws")}
        cont = o.get("cont")
        runs.append({kk: vv for kk, vv in o.items() if kk != "cont"})
        if "ok" not in o:
            break
        if i < len(ks) - 1:
            import yaml
            runs[-1]["last_used_ids"] = yaml.safe_load(cont)["id_manager"]["last_used_ids"]
    out = {"runs": runs}
    if retry is not None:
        out["retry"] = retry
    return out


def coq_case(case, obs):
    runs = obs["runs"]
    if all("ok" in r for r in runs):
        if not all(S.comparable(r["ok"]) for r in runs):
            return None
        exp = "(Ok " + C.clist(S.rows_coq(r["ok"]) for r in runs) + ")"
    else:
        exp = f"(Err {C.cerr(runs[-1]['err'])})"
    return f"CHist PIds {S.recipe_coq(case['recipe'], S.obs_draws(obs))} {C.clist(C.cnat(k) for k in case['ks'])} {exp}"


def oracle(case, obs):
    runs = obs["runs"]
    for r in runs:
        if "err" in r:
            if r["err"] != "DGE":
                return f"internal-error: {r['err']}: {r.get('msg','')[:120]}"
            return None
    if "retry" in obs:
        rt = obs["retry"]
        if "ok" not in rt:
            return f"retry-differs: the last run of history {case['ks']} completes, a second run from the same continuation file fails with {rt.get('err')}"
        if S.ids_by_table(rt["ok"]) != S.ids_by_table(runs[-1]["ok"]):
            return (f"retry-differs: a second run from the same continuation file wrote ids {S.ids_by_table(rt['ok'])}, "
                    f"the first attempt {S.ids_by_table(runs[-1]['ok'])}")
    allrows = [row for r in runs for row in r["ok"]]
    for t, ids in S.ids_by_table(allrows).items():
        if sorted(ids) != list(range(1, len(ids) + 1)):
            return f"ids-not-dense: table {t}: ids emitted over the history {case['ks']} are {ids[:30]}, not exactly 1..{len(ids)}"
    # each continuation file records the highest id issued so far
    seen = {}
    for r in runs:
        for t, ids in S.ids_by_table(r["ok"]).items():
            seen[t] = max(seen.get(t, 0), max(ids))
        rec = r.get("last_used_ids")
        if rec is not None:
            for t, m in seen.items():
                if rec.get(t, 0) < m:
                    return f"continuation-file-counter: table {t}: file records {rec.get(t)} but id {m} was emitted"
    return None


def nontrivial(case, obs):
    f = set(case.get("features", []))
    runs = obs["runs"]
    return (all("ok" in r for r in runs) and sum(len(r["ok"]) for r in runs) >= 2
            and (bool(f & {"forward_ref", "zero_count", "nick"}) or sum(case["ks"]) >= 2))


def stats(cases, obss):
    from collections import Counter
    st = S.feature_stats(cases, [o["runs"][-1] for o in obss if isinstance(o, dict) and o.get("runs")])
    st["histories"] = dict(Counter("+".join(map(str, c["ks"])) for c in cases))
    st["retries_from_the_same_continuation_file"] = sum(1 for o in obss if isinstance(o, dict) and "retry" in o)
    return st


def shrink(case):
    from .c04 import shrink as sh
    yield from sh(case)


def directed_search(rng, disagreeing):
    return [gen_case(rng) for _ in range(1500)]


def match_finding(case, obs, msg, findings):
    return None
