"""Fail-closed importer: a recipe FILE of the repository (examples/, tests/, docs/) -> the SF-core recipe AST of
harness/sfcore.py (what Interp.v interprets), or None with the reason it is outside the fragment.

Used by the C03 check to tie the reference interpreter to recipes that people wrote, not only to generated ones:
every file that imports is run through /repo and through the Coq interpreter and the complete row sequences are
compared.  The importer accepts only what it can translate exactly: anything it does not recognise (functions,
plugins, macros, include files, filters, comparisons, booleans, floats, nulls, old-style `<<..>>` formulas)
rejects the whole file."""
import re


class Outside(Exception):
    pass


_TOKEN = re.compile(r"\s*(?:(\d+)|([A-Za-z_][A-Za-z0-9_]*)|(.))")


def _tokens(text):
    out, pos = [], 0
    text = text.strip()
    while pos < len(text):
        m = _TOKEN.match(text, pos)
        if not m:
            raise Outside("formula token")
        pos = m.end()
        if m.group(1) is not None:
            out.append(("int", int(m.group(1))))
        elif m.group(2) is not None:
            out.append(("id", m.group(2)))
        else:
            ch = m.group(3)
            if ch not in "+-*().":
                raise Outside(f"formula operator {ch!r}")
            out.append((ch, ch))
    return out


def parse_expr(text):
    """ints, names, a.b.c, + - * with the usual precedence, parentheses.  Everything else: Outside."""
    toks = _tokens(text)
    pos = [0]

    def peek():
        return toks[pos[0]][0] if pos[0] < len(toks) else None

    def take(kind=None):
        if pos[0] >= len(toks) or (kind and toks[pos[0]][0] != kind):
            raise Outside("formula syntax")
        t = toks[pos[0]]
        pos[0] += 1
        return t

    def primary():
        k = peek()
        if k == "int":
            e = ["int", take()[1]]
        elif k == "id":
            name = take()[1]
            if name in ("and", "or", "not", "if", "else", "in", "is", "true", "false", "none", "True", "False", "None"):
                raise Outside("formula keyword")
            e = ["var", name]
        elif k == "(":
            take()
            if peek() == "-":          # (-3)
                take()
                e = ["int", -take("int")[1]]
            else:
                e = sums()
            take(")")
        else:
            raise Outside("formula syntax")
        while peek() == ".":
            take()
            e = ["attr", e, take("id")[1]]
        if peek() == "(":
            raise Outside("function call")
        return e

    def products():
        e = primary()
        while peek() == "*":
            take()
            e = ["mul", e, primary()]
        return e

    def sums():
        e = products()
        while peek() in ("+", "-"):
            op = take()[0]
            e = ["add" if op == "+" else "sub", e, products()]
        return e

    e = sums()
    if pos[0] != len(toks):
        raise Outside("formula syntax")
    return e


def parse_text(s):
    """a YAML string scalar -> fdef"""
    if "<<" in s or "${%" in s or "{%" in s or "{#" in s:
        raise Outside("old-style / statement formula syntax")
    if "${{" not in s:
        if "{{" in s or "}}" in s:
            raise Outside("bare braces")
        if not all(32 <= ord(c) < 127 for c in s):
            raise Outside("non-ASCII text")
        return ["str", s]
    pieces, pos = [], 0
    for m in re.finditer(r"\$\{\{(.*?)\}\}", s, flags=re.S):
        if m.start() > pos:
            pieces.append(["t", s[pos:m.start()]])
        pieces.append(["e", parse_expr(m.group(1))])
        pos = m.end()
    if pos < len(s):
        pieces.append(["t", s[pos:]])
    for p in pieces:
        if p[0] == "t" and ("{{" in p[1] or "}}" in p[1] or not all(32 <= ord(c) < 127 for c in p[1])):
            raise Outside("text piece")
    return ["formula", pieces]


def fdef_of(v):
    if isinstance(v, bool) or v is None or isinstance(v, float):
        raise Outside(f"literal {type(v).__name__}")
    if isinstance(v, int):
        return ["int", v]
    if isinstance(v, str):
        return parse_text(v)
    if isinstance(v, dict):
        if len(v) != 1:
            raise Outside("function with several keys")
        (k, a), = v.items()
        if k == "reference" and isinstance(a, str) and re.fullmatch(r"[A-Za-z_][A-Za-z0-9_]*(\.[A-Za-z_][A-Za-z0-9_]*)*", a):
            return ["ref", a]
        if k == "random_reference" and isinstance(a, str) and re.fullmatch(r"[A-Za-z_][A-Za-z0-9_]*", a):
            return ["randref", a]
        raise Outside(f"function {k}")
    if isinstance(v, list):
        if len(v) == 1 and isinstance(v[0], dict) and "object" in v[0]:
            return ["nested", template_of(v[0])]
        raise Outside("list value")
    raise Outside(f"value {type(v).__name__}")


_NAME = re.compile(r"[A-Za-z_][A-Za-z0-9_ -]*")


def template_of(d):
    allowed = {"object", "nickname", "count", "just_once", "fields", "friends"}
    if set(d) - allowed:
        raise Outside(f"template keys {sorted(set(d) - allowed)}")
    table = d["object"]
    if not isinstance(table, str) or not _NAME.fullmatch(table):
        raise Outside("table name")
    nick = d.get("nickname")
    if nick is not None and (not isinstance(nick, str) or not _NAME.fullmatch(nick)):
        raise Outside("nickname")
    once = d.get("just_once", False)
    if not isinstance(once, bool):
        raise Outside("just_once")
    count = None
    if "count" in d:
        count = fdef_of(d["count"])
        if count[0] in ("ref", "randref"):
            raise Outside("count function")
        if count[0] == "int" and count[1] > 200:
            raise Outside("count beyond the fuel of the model's evaluator")
    fields = []
    fl = d.get("fields") or {}
    if not isinstance(fl, dict):
        raise Outside("fields shape")
    for n, v in fl.items():
        if not isinstance(n, str) or not _NAME.fullmatch(n) or n == "id":
            raise Outside("field name")
        fields.append([n, fdef_of(v)])
    friends = [stmt_of(x) for x in (d.get("friends") or [])]
    return {"table": table, "nick": nick, "count": count, "once": once, "fields": fields, "friends": friends}


def stmt_of(x):
    if not isinstance(x, dict):
        raise Outside("statement shape")
    if "object" in x:
        return ["obj", template_of(x)]
    if "var" in x:
        if set(x) - {"var", "value"} or not isinstance(x["var"], str) or not _NAME.fullmatch(x["var"]):
            raise Outside("var shape")
        return ["var", x["var"], fdef_of(x.get("value"))]
    raise Outside(f"statement {sorted(x)[:3]}")


def import_recipe_text(text):
    """-> recipe AST; raises Outside"""
    import yaml
    try:
        doc = yaml.safe_load(text)
    except yaml.YAMLError:
        raise Outside("yaml")
    if not isinstance(doc, list) or not doc:
        raise Outside("document shape")
    version, options, stmts = 2, [], []
    for x in doc:
        if not isinstance(x, dict):
            raise Outside("statement shape")
        if "snowfakery_version" in x:
            if x["snowfakery_version"] not in (2, 3) or len(x) != 1:
                raise Outside("version")
            version = x["snowfakery_version"]
        elif "option" in x:
            if set(x) - {"option", "default"} or "default" not in x:
                raise Outside("option without default")
            v = x["default"]
            if isinstance(v, bool) or not isinstance(v, (int, str)) or not isinstance(x["option"], str):
                raise Outside("option value")
            if isinstance(v, str) and ("${{" in v or not all(32 <= ord(c) < 127 for c in v)):
                raise Outside("option value")
            options.append([x["option"], v])
        elif "object" in x or "var" in x:
            stmts.append(stmt_of(x))
        else:
            raise Outside(f"statement {sorted(x)[:3]}")
    if not stmts:
        raise Outside("no statements")
    return {"version": version, "options": options, "stmts": stmts}


def repo_recipe_files(root):
    import os
    out = []
    for sub in ("examples", "tests", "docs"):
        for dp, dn, fn in os.walk(os.path.join(root, sub)):
            dn.sort()
            for f in sorted(fn):
                if f.endswith((".yml", ".yaml")) and not f.endswith((".load.yml", ".mapping.yml")):
                    out.append(os.path.join(dp, f))
    return out


def doc_snippets(root):
    """fenced yaml blocks of the markdown documentation: (path#offset, text)"""
    import glob
    import os
    out = []
    for f in sorted(glob.glob(os.path.join(root, "docs", "**", "*.md"), recursive=True)) + sorted(glob.glob(os.path.join(root, "*.md"))):
        try:
            t = open(f, encoding="utf-8").read()
        except (OSError, UnicodeDecodeError):
            continue
        for m in re.finditer(r"```(?:yaml|yml)?\n(.*?)```", t, flags=re.S):
            out.append((os.path.relpath(f, root) + "#%d" % m.start(), m.group(1)))
    return out


def import_all(root):
    """-> ([(relative path, recipe AST)], {reason: count})"""
    import os
    from collections import Counter
    ok, why = [], Counter()
    for name, text in doc_snippets(root):
        try:
            ok.append((name, import_recipe_text(text)))
        except Outside as e:
            why["doc snippet: " + str(e).split(" ")[0]] += 1
    for p in repo_recipe_files(root):
        try:
            text = open(p, encoding="utf-8").read()
            r = import_recipe_text(text)
            ok.append((os.path.relpath(p, root), r))
        except Outside as e:
            why[str(e).split(" ")[0] + " " + " ".join(str(e).split(" ")[1:2])] += 1
        except (OSError, UnicodeDecodeError):
            why["unreadable"] += 1
    return ok, dict(why)
