"""C16 — the generated CCI mapping is complete and loads parents before children.
Implementation: snowfakery/generate_mapping_from_recipe.py, cci_mapping_files/post_processes.py,
data_generator_runtime.py (dependency recording / persistence); model: coq/theories/Mapping.v."""
import io
import itertools
import os
import shutil
import sys
import tempfile
import types
from collections import Counter

from . import common as C

PROP = "C16"
MODEL = "Mapping Interp DepsCases"
CHECK_FN = "check_case16"
SKIPPED_FN = "case16_unsupported"
SHARD = 250
CASE_TIMEOUT = 60
RULE = ("cases: (i) recipe = reference graph over 2-7 tables (acyclic / self loops / 2- and 3-cycles / random; forward, "
        "nickname, nested, friend, random_reference, literal {object,id} and two-target references; update keys, hidden "
        "tables and fields, Account/PersonContact/Contact, record-type columns, count 0, optional load declaration file) "
        "run through generate_data(generate_cci_mapping_file=...) fresh (1, 2, 3 iterations) and as 1+1 / 1+1+1 continuation chains "
        "(just_once templates own friends / nested objects of other tables whose references exist in the first run only; "
        "references that first appear in the 2nd / 3rd iteration: `when: id > 1`, nested objects and friends with count "
        "`T.id - 1`, random references to rows of earlier iterations); "
        "the YAML is parsed back and compared with the model's mapping, the recorded dependencies with the references "
        "seen by the output stream; (ii) sort_dependencies on dependency graphs over <= 4 tables (exhaustive edge sets, "
        "sampled declared subsets, unknown targets); (iii) _table_is_free.  non-trivial: a recipe that completes and whose "
        "mapping has >= 1 lookup, or a sort/free case with >= 1 edge; distinct by case hash")
TRUSTED = ["harness/c16.py: recipe printer, post-order flattening of templates (registration order), YAML mapping parser, "
           "capture output stream (sfcore.make_capture), wrapper around snowfakery.api.mapping_from_recipe_templates that "
           "records summary.intertable_dependencies (skipped when the name is absent)"]
ASSUMPTIONS = ["PyYAML safe_dump/safe_load round-trips the mapping (dict of str/int/list)",
               "table and field names are ASCII (str.lower / sorted agree with the byte-wise model)",
               "load declaration files carry each of api/bulk_mode/batch_size at most once per sf_object "
               "(the priority merge of declaration_parser.unify is outside the model)"]
EXHAUSTIVE = {"quick": False, "thorough": False}

PLAIN_TABLES = ["A", "B", "C", "D", "E", "F", "G"]
HIDDEN_TABLE = "__H"
LIT_FIELDS = ["name", "f0", "f1", "f2", "_u1"]      # one leading underscore: visible
RT_FIELDS = ["RecordType", "RecordTypeId", "record_type", "Record_Type_Id"]
HIDDEN_FIELD = "__h"


# =============================================================================== generation
def gen_graph(rng, names):
    """edge list (a, b): a row of table a holds a reference to table b"""
    n = len(names)
    shape = rng.choice(["acyclic", "acyclic", "self", "cycle2", "cycle3", "random", "chain"])
    perm = names[:]
    rng.shuffle(perm)
    edges = set()
    if shape == "random":
        for a in names:
            for b in names:
                if rng.random() < (0.22 if a != b else 0.1):
                    edges.add((a, b))
    elif shape == "chain":
        for i in range(1, n):
            edges.add((perm[i], perm[i - 1]))
    else:
        p = rng.choice([0.2, 0.35, 0.6])
        for j in range(n):
            for i in range(j):
                if rng.random() < p:
                    edges.add((perm[j], perm[i]))
        if shape == "self":
            for a in rng.sample(names, rng.randint(1, min(2, n))):
                edges.add((a, a))
        if shape == "cycle2" and n >= 2:
            a, b = rng.sample(names, 2)
            edges.add((a, b))
            edges.add((b, a))
        if shape == "cycle3" and n >= 3:
            a, b, c = rng.sample(names, 3)
            edges |= {(a, b), (b, c), (c, a)}
    if rng.random() < 0.1:
        edges.add((rng.choice(names), rng.choice(names)))
    return shape, sorted(edges)


def gen_recipe(rng):
    feats = set()
    n = rng.randint(2, 7)
    names = rng.sample(PLAIN_TABLES, min(n, len(PLAIN_TABLES)))
    r = rng.random()
    if r < 0.22:
        names[0] = "Account"
        feats.add("Account")
        if rng.random() < 0.6 and n >= 2:
            names[1] = "PersonContact"
            feats.add("PersonContact")
        if rng.random() < 0.5 and n >= 3:
            names[2] = "Contact"
            feats.add("Contact")
    elif r < 0.30 and n >= 2:
        names[0] = "PersonContact"
        names[1] = "Contact"
        feats |= {"PersonContact", "Contact"}
    if rng.random() < 0.15:
        names[-1] = HIDDEN_TABLE
        feats.add("hidden_table")
    elif rng.random() < 0.08:
        names[-1] = "_T"                  # one leading underscore: a visible table
        feats.add("underscore_table")
    if rng.random() < 0.12:                # two tables whose names differ only in case (tables are case-sensitive)
        plain = [x for x in names if len(x) == 1]
        if len(plain) >= 2:
            names[names.index(plain[1])] = plain[0].lower()
            feats.add("case_twin_tables")
    rng.shuffle(names)
    shape, edges = gen_graph(rng, names)
    if "case_twin_tables" in feats and len(names) >= 3 and rng.random() < 0.7:
        # the twins at both ends of a cycle: one is loaded early, the other late
        up = next(x for x in names if len(x) == 1 and x.isupper() and x.lower() in names)
        other = next(x for x in names if x not in (up, up.lower()))
        edges = sorted(set(edges) | {(other, up), (up, other)})
    feats.add("shape_" + shape)

    order = names[:]                       # order of the top-level templates
    rng.shuffle(order)
    pos = {t: i for i, t in enumerate(order)}
    tpls = {}
    for t in order:
        once = rng.random() < 0.18
        cnt = rng.choice([None, None, None, 2, 3]) if rng.random() > 0.05 else 0
        if cnt == 0:
            feats.add("count0")
        nick = ("n" + t.strip("_").lower()) if rng.random() < 0.3 else None
        if nick and len(t) == 1 and t.islower():
            nick = "nn" + t
        if t == "_T":
            nick = None
        tpls[t] = {"table": t, "nick": nick, "once": once, "count": cnt, "ukey": None, "fields": [], "friends": []}
        if once:
            feats.add("just_once")
    nested_children = []        # (parent table, field name) realised as nested templates
    fcount = Counter()
    for (a, b) in edges:
        ta, tb = tpls[a], tpls[b]
        fname = f"r{fcount[a]}"
        fcount[a] += 1
        if rng.random() < 0.08:
            fname = HIDDEN_FIELD
            if any(f[0] == HIDDEN_FIELD for f in ta["fields"]):
                continue
            feats.add("hidden_field_ref")
        backward = pos[b] < pos[a] and (tb["count"] is None or tb["count"] > 0)
        kinds = ["ref"] * 5 + ["objref", "nested"]
        if backward and not tb["once"]:
            kinds += ["randref"] * 2
        if ta["once"]:
            # a just_once row holding anything but a plain row (forward reference slot, literal or random
            # reference) cannot be written to a continuation file (finding K2 of C04/C05): not this property
            kinds = ["ref", "nested"] if (backward or a == b) else ["nested"]
        k = rng.choice(kinds)
        if a == b and k in ("nested", "randref"):
            k = "ref"
        if k == "ref":
            target = tb["nick"] if (tb["nick"] and rng.random() < 0.5 and a != b) else b
            ta["fields"].append([fname, ["ref", target]])
            feats.add("self_ref" if a == b else ("backward_ref" if pos[b] < pos[a] else "forward_ref"))
            if target != b:
                feats.add("nick_ref")
        elif k == "objref":
            ta["fields"].append([fname, ["objref", b, rng.randint(1, 3)]])
            feats.add("literal_ref")
        elif k == "randref":
            ta["fields"].append([fname, ["randref", b]])
            feats.add("random_ref")
        else:
            child = {"table": b, "nick": None, "once": False, "count": rng.choice([None, None, 2]), "ukey": None,
                     "fields": [["name", ["lit", "nested"]]] if rng.random() < 0.5 else [], "friends": []}
            ta["fields"].append([fname, ["nested", child]])
            feats.add("nested")
    # extra reference flavours
    for t in order:
        tp = tpls[t]
        if rng.random() < 0.1 and not tp["once"]:
            tp["fields"].append(["lz", ["objref", rng.choice(["Zed", HIDDEN_TABLE, "PersonContact", "Contact"]), 5]])
            feats.add("unloaded_target")
        earlier = [u for u in order if pos[u] < pos[t] and (tpls[u]["count"] is None or tpls[u]["count"] > 0)]
        if len(earlier) >= 2 and rng.random() < 0.1 and not tp["once"]:
            x, y = rng.sample(earlier, 2)
            tp["count"] = 2
            tp["fields"].append(["two", ["cond", x, y]])
            feats.add("two_targets")
        if t == "Account" and rng.random() < 0.7:
            if "PersonContact" in names and pos["PersonContact"] < pos[t] and rng.random() < 0.6:
                tp["fields"].append(["PersonContactId", ["ref", "PersonContact"]])
            elif rng.random() < 0.5 and not tp["once"]:
                tp["fields"].append(["PersonContactId", ["objref", "PersonContact", 1]])
            else:
                tp["fields"].append(["PersonContactId", ["lit", "x"]])
            feats.add("PersonContactId")
        # literal fields
        for f in rng.sample(LIT_FIELDS, rng.randint(0, 3)):
            tp["fields"].append([f, ["lit", rng.choice(["x", 1, "abc"])]])
        if rng.random() < 0.12:
            tp["fields"].append([rng.choice(RT_FIELDS), ["lit", "rt"]])
            feats.add("record_type")
            if rng.random() < 0.1:
                other = rng.choice(RT_FIELDS)
                if all(f[0] != other for f in tp["fields"]):
                    tp["fields"].append([other, ["lit", "rt2"]])
                    feats.add("two_record_types")
        if rng.random() < 0.1 and all(f[0] != HIDDEN_FIELD for f in tp["fields"]):
            tp["fields"].append([HIDDEN_FIELD, ["lit", 3]])
            feats.add("hidden_field")
        rng.shuffle(tp["fields"])
        lits = [f[0] for f in tp["fields"] if f[1][0] == "lit" and not f[0].startswith("__")]
        if lits and rng.random() < 0.25:
            tp["ukey"] = rng.choice(lits)
            feats.add("update_key")
    # rows of OTHER tables that exist only because of a just_once template (its friends, objects nested in
    # its fields): they are created in the first run only, so the references they hold reach a continued run
    # solely through the continuation file
    for t in order:
        tp = tpls[t]
        if not tp["once"] or rng.random() < 0.25:
            continue
        earlier = [u for u in order if pos[u] < pos[t] and (tpls[u]["count"] is None or tpls[u]["count"] > 0)]
        targets = [t] + earlier
        nonce = [u for u in names if not u.startswith("__") and u != t]
        for k in range(rng.randint(1, 2)):
            # a dedicated table, or a table the recipe also fills elsewhere (the field name is unique either way)
            table = rng.choice(["K1", "K2"]) if (rng.random() < 0.6 or not nonce) else rng.choice(nonce)
            tgt = rng.choice(targets)
            kind = rng.choice(["ref", "ref", "ref", "objref"] + (["randref"] if tgt in earlier and not tpls[tgt]["once"] else []))
            fd = ["ref", tgt] if kind == "ref" else (["objref", tgt, 1] if kind == "objref" else ["randref", tgt])
            child = {"table": table, "nick": None, "once": False, "count": rng.choice([None, None, 2]), "ukey": None,
                     "fields": [[f"o{k}", fd]] + ([["name", ["lit", "once-child"]]] if rng.random() < 0.5 else []),
                     "friends": []}
            if rng.random() < 0.6:
                tp["friends"].append(child)
                feats.add("friend_of_just_once")
            else:
                tp["fields"].append([f"on{k}", ["nested", child]])
                feats.add("nested_in_just_once")
            if rng.random() < 0.3:      # one level deeper: a friend of the friend
                child["friends"].append({"table": "K3", "nick": None, "once": False, "count": None, "ukey": None,
                                         "fields": [["o9", ["ref", table]]], "friends": []})
    # references that no row of the first iteration holds: null for the first row of a table and a reference
    # afterwards; nested objects / friends whose count is 0 for the first row (`${{T.id - 1}}`)
    for t in order:
        tp = tpls[t]
        if tp["once"] or t.startswith("_") or rng.random() > 0.3:
            continue
        earlier = [u for u in order if pos[u] < pos[t] and (tpls[u]["count"] is None or tpls[u]["count"] > 0)]
        for k in range(rng.randint(1, 2)):
            form = rng.choice(["late_ref", "late_ref", "late_prev", "late_nested", "late_friend", "late_literal"])
            if form == "late_ref" and earlier:
                tp["fields"].append([f"lt{k}", ["late", ["ref", rng.choice(earlier)]]])
            elif form == "late_prev":
                tp["fields"].append([f"lp{k}", ["late", ["prevref", t]]])
            elif form == "late_literal":
                tp["fields"].append([f"ll{k}", ["late", ["objref", rng.choice(names + ["Zed"]), 1]]])
            elif form == "late_nested":
                child = {"table": rng.choice(["L1", "L2"] + [u for u in names if not u.startswith("_") and u != t]),
                         "nick": None, "once": False, "count": "${{%s.id - 1}}" % t, "ukey": None,
                         "fields": [["name", ["lit", "late"]]], "friends": []}
                tp["fields"].append([f"ln{k}", ["nested", child]])
            elif form == "late_friend":
                child = {"table": rng.choice(["L1", "L2"]), "nick": None, "once": False,
                         "count": "${{%s.id - 1}}" % t, "ukey": None,
                         "fields": [[f"lf{k}", ["ref", t]]], "friends": []}
                tp["friends"].append(child)
            else:
                continue
            feats.add(form)
    stmts = []
    for t in order:
        stmts.append(tpls[t])
    # second template of a table (other update key / other fields), sometimes as a friend
    for t in order:
        if rng.random() < 0.18 and not t.startswith("__"):
            extra = {"table": t, "nick": None, "once": False, "count": None,
                     "ukey": rng.choice([None, "name", "f0", ""]), "fields": [["name", ["lit", "second"]]], "friends": []}
            if extra["ukey"] == "f0":
                extra["fields"].append(["f0", ["lit", 7]])
            if rng.random() < 0.5:
                extra["fields"].append([rng.choice(["f1", "f2", "extra"]), ["lit", 0]])
            if extra["ukey"] is not None:
                feats.add("update_key")
            feats.add("second_template")
            if rng.random() < 0.35:
                host = tpls[rng.choice(order)]
                if not host["once"]:
                    extra["fields"].append(["parent", ["ref", host["table"]]])
                    host["friends"].append(extra)
                    feats.add("friend")
                    continue
            stmts.insert(rng.randint(0, len(stmts)), extra)
    decls = []
    if rng.random() < 0.3:
        feats.add("declarations")
        pool = [t for t in names if not t.startswith("__")] + ["Zed"]
        for _ in range(rng.randint(1, 3)):
            d = {"sf_object": rng.choice(pool)}
            if rng.random() < 0.75:
                d["load_after"] = rng.choice(pool)
                feats.add("load_after")
            if rng.random() < 0.35 and not any(e["sf_object"] == d["sf_object"] and ("api" in e or "batch_size" in e) for e in decls):
                d["api"] = rng.choice(["bulk", "rest", "smart"])
                if rng.random() < 0.5:
                    d["batch_size"] = rng.choice([10, 200])
            if len(d) > 1:
                decls.append(d)
    chain3 = rng.random() < (0.6 if "just_once" in feats else 0.15)
    if chain3:
        feats.add("chain_1+1+1")
    return {"kind": "recipe", "recipe": {"stmts": stmts}, "decls": decls, "chain3": chain3, "features": sorted(feats)}


def gen_sort_case(rng, names, edges, declared_for=(), extra_targets=False, empty_inferred_keys=False):
    inferred, declared = {}, {}
    for (a, b) in edges:
        (declared if a in declared_for else inferred).setdefault(a, [])
        d = declared if a in declared_for else inferred
        if b not in d[a]:
            d[a].append(b)
    if extra_targets:
        t = rng.choice(names)
        d = declared if t in declared_for else inferred
        d.setdefault(t, []).append(rng.choice(["PersonContact", "Zed"]))
    if declared_for and rng.random() < 0.4:
        # an inferred entry that a declared one replaces
        t = rng.choice(list(declared_for))
        inferred.setdefault(t, []).append(rng.choice(names))
    if empty_inferred_keys:
        inferred.setdefault(rng.choice(names), [])
    return {"kind": "sort", "tables": list(names),
            "inferred": [[k, v] for k, v in inferred.items()], "declared": [[k, v] for k, v in declared.items()]}


def all_edge_sets(names, self_loops):
    pairs = [(a, b) for a in names for b in names if self_loops or a != b]
    for mask in range(1 << len(pairs)):
        yield [pairs[i] for i in range(len(pairs)) if mask >> i & 1]


DW = dict(ref=0.5, fwd=0.45, nick=0.5, nested=0.3, friend=0.5, dotted=0.25, once=0.25, hidden_table=0.12,
          hidden_field=0.15, formula=0.25, randref=0.12, zero_count=0.1, var_stmt=0.2)


def gen_interp_deps(rng):
    """SF-core recipes (sfcore generator: references of every kind between 2-4 tables, hidden tables and
    fields, just_once, variables holding rows) over 1-3 iterations, some cut into continuation chains;
    observed: Globals.intertable_dependencies as written to the continuation file after the last run"""
    from . import sfcore as S
    from .c04 import row_valued_in_once
    for _ in range(40):
        r, feats = S.gen_recipe(rng, DW)
        if not row_valued_in_once(r):      # K1/K2 (C04/C05): such a run cannot write its continuation file
            break
    k = rng.choice([1, 2, 2, 3])
    ks = S.random_cuts(rng, k) if (k >= 2 and rng.random() < 0.5) else [k]
    return {"kind": "interp_deps", "recipe": r, "ks": ks, "features": feats}


def generate(rng, tier):
    cases = []
    quick = tier == "quick"
    # ---- (ii) the sorter alone
    name_orders = [["B", "A"], ["C", "A", "B"], ["A", "B", "C"], ["C", "D", "A", "B"], ["B", "D", "C", "A"]]
    cases.append({"kind": "sort", "tables": [], "inferred": [], "declared": []})
    cases.append({"kind": "sort", "tables": ["A"], "inferred": [], "declared": []})
    cases.append({"kind": "sort", "tables": ["A"], "inferred": [["A", ["A"]]], "declared": []})
    for names in name_orders:
        n = len(names)
        sets = list(all_edge_sets(names, self_loops=(n <= 3)))
        if n == 3 and quick:
            sets = rng.sample(sets, 150)
        if n == 4:
            # thorough: every edge set over 4 tables (no self loops) for the first name order
            sets = rng.sample(sets, 150) if quick else (sets if names[0] == "C" else rng.sample(sets, 1000))
        for edges in sets:
            cases.append(gen_sort_case(rng, names, edges))
            if edges and rng.random() < (0.5 if quick else 1.0):
                k = rng.randint(1, n)
                cases.append(gen_sort_case(rng, names, edges, declared_for=tuple(rng.sample(names, k)),
                                           extra_targets=rng.random() < 0.15,
                                           empty_inferred_keys=rng.random() < 0.1))
            if rng.random() < 0.08:
                cases.append(gen_sort_case(rng, names, edges, extra_targets=True))
    for _ in range(40 if quick else 1500):          # larger graphs
        n = rng.randint(5, 7)
        names = rng.sample(PLAIN_TABLES, n)
        _, edges = gen_graph(rng, names)
        k = rng.choice([0, 0, 1, 2, n])
        cases.append(gen_sort_case(rng, names, edges, declared_for=tuple(rng.sample(names, k)),
                                   extra_targets=rng.random() < 0.2))
    # ---- (iii) _table_is_free
    for _ in range(150 if quick else 3000):
        names = rng.sample(PLAIN_TABLES, rng.randint(1, 5))
        t = rng.choice(names + ["Zed"])
        deps = {}
        for a in names:
            if rng.random() < 0.7:
                deps[a] = rng.sample(names + ["Zed"], rng.randint(0, min(3, len(names))))
        srt = rng.sample(names, rng.randint(0, len(names)))
        cases.append({"kind": "free", "table": t, "deps": [[k, v] for k, v in deps.items()], "sorted": srt})
    # ---- (i) recipes
    for _ in range(450 if quick else 12000):
        cases.append(gen_recipe(rng))
    # ---- (iv) the recorded dependencies themselves, against the SF-core interpreter model
    for _ in range(220 if quick else 5000):
        cases.append(gen_interp_deps(rng))
    return cases


# =============================================================================== recipe rendering / statics
def fdef_yaml(d):
    k = d[0]
    if k == "lit":
        return d[1]
    if k == "ref":
        return {"reference": d[1]}
    if k == "objref":
        return {"reference": {"object": d[1], "id": d[2]}}
    if k == "randref":
        return {"random_reference": d[1]}
    if k == "cond":
        return {"reference": "${{ '%s' if child_index == 0 else '%s' }}" % (d[1], d[2])}
    if k == "nested":
        return [tpl_yaml(d[1])]
    if k == "prevref":      # a row of an earlier iteration (or an earlier row of this one)
        return {"random_reference": {"to": d[1], "scope": "prior-and-current-iterations"}}
    if k == "late":         # null for the first row of the table, a reference from the second row on
        return {"if": [{"choice": {"when": "${{ id > 1 }}", "pick": fdef_yaml(d[1])}}, {"choice": {"pick": None}}]}
    raise ValueError(k)


def tpl_yaml(t):
    y = {"object": t["table"]}
    if t.get("nick"):
        y["nickname"] = t["nick"]
    if t.get("once"):
        y["just_once"] = True
    if t.get("count") is not None:
        y["count"] = t["count"]
    if t.get("ukey") is not None:
        y["update_key"] = t["ukey"]
    if t["fields"]:
        y["fields"] = {n: fdef_yaml(d) for n, d in t["fields"]}
    if t.get("friends"):
        y["friends"] = [tpl_yaml(s) for s in t["friends"]]
    return y


def recipe_yaml(r):
    import yaml
    return yaml.safe_dump([tpl_yaml(t) for t in r["stmts"]], sort_keys=False, default_flow_style=False, width=1000)


def decls_yaml(decls):
    import yaml
    return yaml.safe_dump(decls, sort_keys=False)


def flatten(recipe):
    """templates in registration order (parse_object_template: fields, friends, then the template)"""
    out = []

    def rec(t):
        for _, d in t["fields"]:
            if d[0] == "nested":
                rec(d[1])
        for s in t.get("friends", []):
            rec(s)
        out.append([t["table"], t.get("ukey"), [n for n, _ in t["fields"]]])
    for t in recipe["stmts"]:
        rec(t)
    return out


def statics(recipe):
    """what the recipe can emit: visible tables, their visible fields, their update keys"""
    fields, keys = {}, {}
    for table, ukey, fs in flatten(recipe):
        if table.startswith("__"):
            continue
        fields.setdefault(table, [])
        for f in fs:
            if not f.startswith("__") and f not in fields[table]:
                fields[table].append(f)
        keys.setdefault(table, set()).add(ukey or None)
    return fields, keys


def unify_decls(decls):
    """[(sf_object, load_after list, extras)] as declaration_parser.unify builds them (no priorities used)"""
    out = {}
    for d in decls:
        e = out.setdefault(d["sf_object"], {"load_after": [], "extras": {}})
        if d.get("load_after") is not None:
            e["load_after"].append(d["load_after"])
        for k in ("api", "bulk_mode", "batch_size", "anchor_date"):
            if d.get(k) is not None and k not in e["extras"]:
                e["extras"][k] = d[k]
    res = []
    for k, e in out.items():
        ex = [[kk, str(e["extras"][kk])] for kk in ("api", "bulk_mode", "batch_size", "anchor_date") if kk in e["extras"]]
        res.append([k, e["load_after"], ex])
    return res


# =============================================================================== implementation side
_ROWS = []
_REC = []
_SETUP = {}


def _setup():
    if _SETUP:
        return _SETUP
    from . import sfcore as S
    base = type(S.make_capture())

    class Capture(base):
        is_text = True

        def __init__(self, file=None, **kw):
            super().__init__()
            _ROWS.append(self.rows)

    m = types.ModuleType("sfv_c16_capture")
    m.Capture = Capture
    sys.modules["sfv_c16_capture"] = m
    import snowfakery.api as api
    wrapped = False
    orig = getattr(api, "mapping_from_recipe_templates", None)
    if callable(orig):
        def wrapper(summary, *a, **kw):
            rec = {"deps": None, "err": None}
            try:
                rec["deps"] = [[d.table_name_from, d.table_name_to, d.field_name]
                               for d in summary.intertable_dependencies]
            except Exception:
                rec["deps"] = None
            _REC.append(rec)
            try:
                return orig(summary, *a, **kw)
            except BaseException as e:
                rec["err"] = C.canon_exc(e)
                raise
        api.mapping_from_recipe_templates = wrapper
        wrapped = True
    _SETUP.update(wrapped=wrapped)
    return _SETUP


def parse_mapping(text):
    import yaml
    data = yaml.safe_load(text)
    if data is None:
        data = {}
    out = []
    for name, m in data.items():
        known = {"sf_object", "table", "fields", "lookups", "action", "update_key", "filters"}
        lookups = []
        for f, l in (m.get("lookups") or {}).items():
            lookups.append([f, l.get("table"), l.get("key_field"), l.get("after"),
                            sorted(k for k in l if k not in ("table", "key_field", "after"))])
        out.append([name, {
            "sf_object": m.get("sf_object"), "table": m.get("table"),
            "fields": [[k, v] for k, v in (m.get("fields") or {}).items()],
            "lookups": lookups,
            "extras": [[k, str(v)] for k, v in m.items() if k not in known],
            "action": m.get("action"), "update_key": m.get("update_key"),
            "filters": list(m.get("filters") or []),
        }])
    return out


def refs_of(rows):
    out = []
    for t, fs in rows:
        for k, v in fs:
            if v[0] == "ref":
                out.append([t, v[1], k])
    return out


def one_run(text, decl_path, reps, continuation=None, want_cont=False):
    from snowfakery import generate_data
    import yaml
    st = _setup()
    del _ROWS[:]
    del _REC[:]
    mp = io.StringIO()
    cont = io.StringIO() if want_cont else None
    kw = {}
    if decl_path:
        kw["load_declarations"] = [decl_path]
    res = {"wrapped": st["wrapped"]}
    try:
        generate_data(io.StringIO(text), output_format="sfv_c16_capture.Capture",
                      generate_cci_mapping_file=mp, target_number=("__REPS__", reps),
                      generate_continuation_file=cont,
                      continuation_file=io.StringIO(continuation) if continuation is not None else None, **kw)
        res["mapping"] = parse_mapping(mp.getvalue())
    except BaseException as e:
        if type(e).__name__ == "_CaseTimeout":
            raise
        res["err"] = C.canon_exc(e)
        res["msg"] = str(e)[:200]
        res["in_mapping"] = bool(_REC and _REC[-1]["err"])
    res["refs"] = refs_of(_ROWS[-1]) if _ROWS else []
    res["deps"] = _REC[-1]["deps"] if _REC else None
    if want_cont and "err" not in res:
        res["cont"] = cont.getvalue()
        try:
            saved = yaml.safe_load(res["cont"]).get("intertable_dependencies")
            res["cont_deps"] = [[d["table_name_from"], d["table_name_to"], d["field_name"]] for d in saved]
        except Exception:
            res["cont_deps"] = None
    return res


def _run_interp_deps(case):
    from . import sfcore as S
    import yaml
    runs, cont, off = [], None, 0
    for k in case["ks"]:
        o = S.run_recipe(case["recipe"], reps=k, continuation=cont, want_continuation=True, draw_offset=off)
        off += len(o.get("draws", []))
        cont = o.get("cont")
        runs.append({kk: vv for kk, vv in o.items() if kk != "cont"})
        if "ok" not in o:
            return {"runs": runs}
    st = yaml.safe_load(cont)
    deps = [[d.get("table_name_from"), d.get("table_name_to"), d.get("field_name")]
            for d in (st.get("intertable_dependencies") or [])]
    return {"runs": runs, "deps": deps}


def run_impl(case):
    kind = case["kind"]
    if kind == "interp_deps":
        return _run_interp_deps(case)
    if kind == "free":
        try:
            from snowfakery.generate_mapping_from_recipe import _table_is_free
            from snowfakery.data_generator_runtime import Dependency
            from snowfakery.utils.collections import OrderedSet
        except (ImportError, AttributeError):
            return {"skip": "internal name missing"}      # private helper renamed: nothing to compare
        deps = {}
        for k, v in case["deps"]:
            s = OrderedSet()
            for x in v:
                s.add(Dependency(k, x, "f"))
            deps[k] = s
        try:
            return {"ok": bool(_table_is_free(case["table"], deps, list(case["sorted"])))}
        except BaseException as e:
            return {"err": C.canon_exc(e)}
    if kind == "sort":
        try:
            from snowfakery.generate_mapping_from_recipe import sort_dependencies
            from snowfakery.data_generator_runtime import Dependency
            from snowfakery.utils.collections import OrderedSet
        except (ImportError, AttributeError):
            return {"skip": "internal name missing"}

        def mk(pairs, field):
            d = {}
            for k, v in pairs:
                s = OrderedSet()
                for x in v:
                    s.add(Dependency(k, x, field))
                d[k] = s
            return d
        try:
            out = sort_dependencies(mk(case["inferred"], "f"), mk(case["declared"], "(none)"),
                                    {t: None for t in case["tables"]})
            return {"ok": list(out)}
        except BaseException as e:
            if type(e).__name__ == "_CaseTimeout":
                raise
            return {"err": C.canon_exc(e)}
    if kind == "recipe":
        text = recipe_yaml(case["recipe"])
        d = None
        decl_path = None
        try:
            if case.get("decls"):
                d = tempfile.mkdtemp(prefix="sfv_c16_", dir="/var/tmp")
                decl_path = os.path.join(d, "decl.load.yml")
                with open(decl_path, "w") as f:
                    f.write(decls_yaml(case["decls"]))
            fresh2 = one_run(text, decl_path, 2)
            run1 = one_run(text, decl_path, 1, want_cont=True)
            run2 = None
            chain3 = bool(case.get("chain3"))
            if "err" not in run1:
                run2 = one_run(text, decl_path, 1, continuation=run1.pop("cont"), want_cont=chain3)
            run1.pop("cont", None)
            out = {"fresh2": fresh2, "run1": run1, "run2": run2}
            if chain3:
                out["fresh3"] = one_run(text, decl_path, 3)
                out["run3"] = None
                if run2 is not None and "err" not in run2:
                    out["run3"] = one_run(text, decl_path, 1, continuation=run2.pop("cont"))
            if run2 is not None:
                run2.pop("cont", None)
            return out
        finally:
            if d:
                shutil.rmtree(d, ignore_errors=True)
    raise ValueError(kind)


# =============================================================================== model side
def _s(x):
    return C.cstr(x)


def _assoc(pairs):
    return C.clist(C.cpair(_s(k), C.clist(_s(x) for x in v)) for k, v in pairs)


def _dep(d):
    return f"(mkDep {_s(d[0])} {_s(d[1])} {_s(d[2])})"


def _ascii_ok(*xs):
    def ok(x):
        if x is None:
            return True
        if isinstance(x, str):
            return all(32 <= ord(ch) < 127 for ch in x)
        if isinstance(x, (list, tuple)):
            return all(ok(y) for y in x)
        if isinstance(x, dict):
            return all(ok(k) and ok(v) for k, v in x.items())
        return True
    return all(ok(x) for x in xs)


def _mapping_coq(mp):
    steps = []
    for name, m in mp:
        for l in m["lookups"]:
            if l[2] != l[0] or l[4]:
                return None          # key_field differs from the field / unknown lookup keys: outside the model's record
        if not all(isinstance(x, str) for x in [m["sf_object"], m["table"]] + m["filters"]):
            return None
        fields = C.clist(C.cpair(_s(k), _s(str(v))) for k, v in m["fields"])
        lookups = C.clist(f"(mkLk {_s(l[0])} {_s(l[1])} {C.copt(l[3], _s)})" for l in m["lookups"])
        extras = C.clist(C.cpair(_s(k), _s(v)) for k, v in m["extras"])
        steps.append(C.cpair(_s(name), f"(mkStep {_s(m['sf_object'])} {_s(m['table'])} {fields} {lookups} {extras} "
                                       f"{C.copt(m['action'], _s)} {C.copt(m['update_key'], _s)} "
                                       f"{C.clist(_s(x) for x in m['filters'])})"))
    return C.clist(steps)


def _run_coq(run, start, continued):
    """run_obs term or None when this run cannot be compared"""
    if run is None or run.get("deps") is None:
        return None
    if "mapping" in run:
        mp = _mapping_coq(run["mapping"])
        if mp is None:
            return None
        exp = f"(Ok {mp})"
    elif run.get("in_mapping"):
        exp = f"(Err {C.cerr(run['err'])})"
    else:
        return None                  # the run itself failed: nothing was generated
    evs = (["SaveLoad"] if continued else []) + [f"(Obs {_dep(d)})" for d in run["refs"]]
    return (f"(mkRun {C.clist(_dep(d) for d in start)} {C.clist(evs)} "
            f"{C.clist(_dep(d) for d in run['deps'])} {exp})")


def coq_case(case, obs):
    t = _coq_case(case, obs)
    if t is None:
        return None
    return f"CInterpDeps ({t})" if case["kind"] == "interp_deps" else f"CMap ({t})"


def _interp_deps_coq(case, obs):
    from . import sfcore as S
    runs = obs["runs"]
    if "deps" in obs:
        if any(not isinstance(x, str) for d in obs["deps"] for x in d):
            return None
        exp = "(Ok " + C.clist(f"({C.cstr(a)}, {C.cstr(b)}, {C.cstr(f)})" for a, b, f in obs["deps"]) + ")"
    else:
        exp = f"(Err {C.cerr(runs[-1]['err'])})"
    draws = [d for r in runs for d in r.get("draws", [])]
    return f"CDepsRun {S.recipe_coq(case['recipe'], draws)} {C.clist(C.cnat(k) for k in case['ks'])} {exp}"


def _coq_case(case, obs):
    kind = case["kind"]
    if kind == "interp_deps":
        return _interp_deps_coq(case, obs)
    if not _ascii_ok(case) or obs.get("skip"):
        return None
    if kind == "free":
        if "ok" not in obs:
            return None
        return (f"CFree {_s(case['table'])} {_assoc(case['deps'])} {C.clist(_s(x) for x in case['sorted'])} "
                f"{C.cbool(obs['ok'])}")
    if kind == "sort":
        exp = C.cresult(obs, lambda l: C.clist(_s(x) for x in l))
        return (f"CSort {_assoc(case['inferred'])} {_assoc(case['declared'])} "
                f"{C.clist(_s(x) for x in case['tables'])} {exp}")
    if kind == "recipe":
        if not _ascii_ok(obs):
            return None
        runs = []
        r = _run_coq(obs["fresh2"], [], False)
        if r:
            runs.append(r)
        r = _run_coq(obs["run1"], [], False)
        if r:
            runs.append(r)
        r = _run_coq(obs.get("fresh3"), [], False)
        if r:
            runs.append(r)
        for prev, cur in (("run1", "run2"), ("run2", "run3")):
            pr, cu = obs.get(prev), obs.get(cur)
            if pr is None or pr.get("cont_deps") is None:
                continue
            if cu is not None:
                r = _run_coq(cu, pr["cont_deps"], True)
                if r:
                    runs.append(r)
        if not runs:
            return None
        tpls = C.clist(f"(mkTpl {_s(t)} {C.copt(k, _s)} {C.clist(_s(f) for f in fs)})"
                       for t, k, fs in flatten(case["recipe"]))
        decls = C.clist(f"(mkDecl {_s(o)} {C.clist(_s(x) for x in la)} "
                        f"{C.clist(C.cpair(_s(k), _s(v)) for k, v in ex)})"
                        for o, la, ex in unify_decls(case.get("decls") or []))
        return f"CRecipe {tpls} {decls} {C.clist(runs)}"
    raise ValueError(kind)


# =============================================================================== property oracle (implementation only)
def _first_index(lst, x):
    return lst.index(x) if x in lst else None


def _acyclic_closed(tables, dep_of):
    """merged dependency graph ignoring self loops: every target is a table, and no cycle"""
    for t in tables:
        for x in dep_of(t):
            if x != t and x not in tables:
                return False
    state = {}

    def visit(t):
        if state.get(t) == 1:
            return False
        if state.get(t) == 2:
            return True
        state[t] = 1
        for x in dep_of(t):
            if x != t and not visit(x):
                return False
        state[t] = 2
        return True
    return all(visit(t) for t in tables)


def check_mapping_rules(recipe, mapping, refs, label):
    """the four rules of the property on one parsed mapping; refs = references seen in emitted rows"""
    fields, keys = statics(recipe)
    vt = set(fields)
    # R1: one step per (visible table, update key)
    got = Counter((m["table"], m["update_key"]) for _, m in mapping)
    want = Counter((t, k) for t in fields for k in keys[t])
    if got != want:
        missing = sorted(str(x) for x in (want - got))
        extra = sorted(str(x) for x in (got - want))
        return f"steps[{label}]: load steps differ from (visible table, update key) pairs: missing {missing} extra {extra}"
    names = [n for n, _ in mapping]
    if len(set(names)) != len(names):
        return f"steps[{label}]: duplicate step names {names}"
    loadable = {}
    for a, b, f in refs:
        if b in vt or b == "PersonContact":
            loadable.setdefault((a, f), set()).add(b)
    for name, m in mapping:
        t = m["table"]
        want_sf = "Contact" if t == "PersonContact" else t
        if m["sf_object"] != want_sf:
            return f"steps[{label}]: step {name!r} has sf_object {m['sf_object']!r} for table {t!r}"
        expected = [f for f in fields[t] if not (t == "Account" and f == "PersonContactId")]
        cols = [v for _, v in m["fields"]] + [l[0] for l in m["lookups"]]
        if Counter(cols) != Counter(expected):
            return (f"fields[{label}]: step {name!r}: columns {sorted(map(str, cols))} are not exactly the visible fields "
                    f"{sorted(expected)}")
        lk = {l[0]: l for l in m["lookups"]}
        for f in expected:
            tg = loadable.get((t, f))
            if tg and f not in lk:
                return f"fields[{label}]: step {name!r}: field {f!r} held references to {sorted(tg)} but is a plain field"
            if not tg and f in lk:
                return f"fields[{label}]: step {name!r}: field {f!r} never held a reference to a loaded table but is a lookup"
            if tg and lk[f][1] not in tg:
                return f"fields[{label}]: step {name!r}: lookup {f!r} names table {lk[f][1]!r}, observed targets {sorted(tg)}"
            if tg and lk[f][2] != f:
                return f"fields[{label}]: step {name!r}: lookup {f!r} has key_field {lk[f][2]!r}"
        # upsert bookkeeping
        if m["update_key"]:
            if m["action"] != "upsert" or m["filters"] != [f"_sf_update_key = '{m['update_key']}'"]:
                return f"steps[{label}]: step {name!r}: upsert step without action/filters: {m['action']!r} {m['filters']!r}"
        else:
            other = any(k for k in keys[t] if k)
            if m["action"] is not None or m["filters"] != (["_sf_update_key = NULL"] if other else []):
                return f"steps[{label}]: step {name!r}: insert step with action {m['action']!r} filters {m['filters']!r}"
    # R3: after rule
    for i, (name, m) in enumerate(mapping):
        for l in m["lookups"]:
            target = l[1]
            if target == "PersonContact":
                continue                 # "PersonContacts are not real": documented special case
            js = [j for j, (_, mj) in enumerate(mapping) if mj["table"] == target]
            if len(js) == 1:
                j = js[0]
                if not (j < i or l[3] == mapping[j][0]):
                    return (f"after[{label}]: step {i} {name!r} lookup {l[0]!r} -> {target!r}: the only step loading "
                            f"{target!r} is step {j} {mapping[j][0]!r}, after = {l[3]!r}")
            elif len(js) > 1 and l[3] is not None and l[3] not in names:
                return f"after[{label}]: step {name!r} lookup {l[0]!r}: after names unknown step {l[3]!r}"
    return None


def _interp_deps_oracle(case, obs):
    """every reference cell of every written row of a visible table has its (table, target, field)
    triple among the recorded dependencies; every recorded triple between visible tables over a
    visible field is backed by such a cell of some written row"""
    runs = obs["runs"]
    for r in runs:
        if "err" in r:
            if r["err"] != "DGE":
                return f"internal-error: {r['err']}: {r.get('msg', '')[:120]}"
            return None
    if "deps" not in obs:
        return None
    deps = {tuple(d) for d in obs["deps"]}
    seen = set()
    for r in runs:
        for t, fs in r["ok"]:
            for f, v in fs:
                if v[0] == "ref":
                    seen.add((t, v[1], f))
    missing = sorted(seen - deps)
    if missing:
        return f"deps-missing: written reference cells {missing[:4]} have no recorded dependency (recorded: {sorted(deps)[:8]})"
    # recorded but never written: legitimate only for hidden tables / fields (their rows / cells never
    # reach the output stream) and for literal-less cases - the model comparison decides those exactly
    extra = sorted(d for d in deps - seen if not d[0].startswith("__") and not d[2].startswith("__"))
    if extra:
        return f"deps-unbacked: recorded dependencies {extra[:4]} are not backed by any reference cell of a written row"
    return None


def oracle(case, obs):
    kind = case["kind"]
    if kind == "interp_deps":
        return _interp_deps_oracle(case, obs)
    if obs.get("skip"):
        return None
    if kind == "free":
        if "ok" not in obs:
            return f"free: _table_is_free raised {obs['err']}"
        deps = dict((k, v) for k, v in case["deps"])
        want = all((x in case["sorted"]) or x == case["table"] for x in deps.get(case["table"], []))
        if obs["ok"] != want:
            return f"free: _table_is_free({case['table']!r}) = {obs['ok']}, dependencies {deps.get(case['table'])}, sorted {case['sorted']}"
        return None
    if kind == "sort":
        if "ok" not in obs:
            return f"sort: sort_dependencies raised {obs['err']}"
        out, tables = obs["ok"], case["tables"]
        if set(out) != set(tables):
            return f"sort-covers: order {out} does not cover exactly the tables {tables}"
        inf, dec = dict(map(tuple, case["inferred"])), dict(map(tuple, case["declared"]))

        def dep_of(t):
            return dec[t] if t in dec else inf.get(t, [])
        if _acyclic_closed(tables, dep_of):
            if len(out) != len(tables):
                return f"sort-sound: acyclic graph but the order has duplicates: {out}"
            for t in tables:
                for x in dep_of(t):
                    if x != t and not (out.index(x) < out.index(t)):
                        return f"sort-sound: {t} depends on {x} but the order is {out}"
        return None
    if kind == "recipe":
        fresh2, run1, run2 = obs["fresh2"], obs["run1"], obs.get("run2")
        for label, r in (("fresh2", fresh2), ("run1", run1), ("run2", run2),
                         ("fresh3", obs.get("fresh3")), ("run3", obs.get("run3"))):
            # a failure of the run itself (before any mapping is generated) is not this property's subject
            if r is not None and "err" in r and r["err"] != "DGE" and r.get("in_mapping"):
                return f"internal-error[{label}]: mapping generation raised {r['err']}: {r.get('msg', '')[:120]}"
        if "mapping" in fresh2:
            msg = check_mapping_rules(case["recipe"], fresh2["mapping"], fresh2["refs"], "fresh2")
            if msg:
                return msg
        if "mapping" in run1:
            msg = check_mapping_rules(case["recipe"], run1["mapping"], run1["refs"], "run1")
            if msg:
                return msg
        if run2 is not None and "mapping" in run2 and "mapping" in run1:
            msg = check_mapping_rules(case["recipe"], run2["mapping"], run1["refs"] + run2["refs"], "continued")
            if msg:
                return msg
        if "mapping" in fresh2 and "mapping" in run1:
            if run2 is None or "mapping" not in run2:
                if run2 is not None and run2.get("err") == "DGE" and not run2.get("in_mapping"):
                    return None          # the continued run itself was rejected: C04's business
                return (f"continuation: fresh run wrote a mapping, the continued run did not: "
                        f"{run2 and run2.get('err')}: {run2 and run2.get('msg', '')[:100]}")
            if run2["mapping"] != fresh2["mapping"]:
                a, b = fresh2["mapping"], run2["mapping"]
                i = next((k for k, (x, y) in enumerate(zip(a, b)) if x != y), min(len(a), len(b)))
                return (f"continuation: mapping of 2 uninterrupted iterations differs from 1+1 continued: step {i}: "
                        f"{a[i] if i < len(a) else None} vs {b[i] if i < len(b) else None}")
        # (the content of the continuation file itself is not judged: a change that prunes dependencies which
        # the continued run is certain to record again keeps every mapping identical)
        # 1+1+1 chain against 3 uninterrupted iterations
        fresh3, run3 = obs.get("fresh3"), obs.get("run3")
        if fresh3 is not None and "mapping" in fresh3 and run2 is not None and "mapping" in run2:
            msg = check_mapping_rules(case["recipe"], fresh3["mapping"], fresh3["refs"], "fresh3")
            if msg:
                return msg
            if run3 is None or "mapping" not in run3:
                if run3 is not None and run3.get("err") == "DGE" and not run3.get("in_mapping"):
                    return None
                return (f"continuation: 3 uninterrupted iterations wrote a mapping, the 1+1+1 chain did not: "
                        f"{run3 and run3.get('err')}: {run3 and run3.get('msg', '')[:100]}")
            msg = check_mapping_rules(case["recipe"], run3["mapping"],
                                      run1["refs"] + run2["refs"] + run3["refs"], "continued3")
            if msg:
                return msg
            if run3["mapping"] != fresh3["mapping"]:
                a, b = fresh3["mapping"], run3["mapping"]
                i = next((k for k, (x, y) in enumerate(zip(a, b)) if x != y), min(len(a), len(b)))
                return (f"continuation: mapping of 3 uninterrupted iterations differs from the 1+1+1 chain: step {i}: "
                        f"{a[i] if i < len(a) else None} vs {b[i] if i < len(b) else None}")
        return None
    raise ValueError(kind)


def violation_class(case, obs, msg):
    return msg.split(":")[0].split("[")[0]


# =============================================================================== evidence
def nontrivial(case, obs):
    if case["kind"] == "interp_deps":
        return bool(obs.get("deps"))
    if case["kind"] == "recipe":
        m = obs.get("fresh2", {}).get("mapping")
        return bool(m) and any(s["lookups"] for _, s in m)
    if case["kind"] == "sort":
        return bool(case["inferred"] or case["declared"])
    return any(v for _, v in case["deps"])


def stats(cases, obss):
    kinds = Counter(c["kind"] for c in cases)
    feats = Counter(f for c in cases for f in c.get("features", []))
    outcomes, nsteps, nlook, afters, ntables = Counter(), Counter(), Counter(), Counter(), Counter()
    sortc = Counter()
    idp = Counter()
    for c, o in zip(cases, obss):
        if not isinstance(o, dict):
            continue
        if c["kind"] == "interp_deps":
            idp["history:" + "+".join(map(str, c["ks"]))] += 1
            idp["outcome:" + ("ok" if "deps" in o else (o.get("runs") or [{}])[-1].get("err", "?"))] += 1
            if "deps" in o:
                idp["recorded_dependencies:%d" % min(len(o["deps"]), 6)] += 1
                if any(d[0].startswith("__") or d[1].startswith("__") or d[2].startswith("__") for d in o["deps"]):
                    idp["with_hidden_table_or_field"] += 1
            continue
        if c["kind"] == "recipe" and "fresh2" in o:
            f2 = o["fresh2"]
            outcomes["ok" if "mapping" in f2 else ("mapping:" if f2.get("in_mapping") else "run:") + f2.get("err", "?")] += 1
            if o.get("run2") is not None:
                outcomes["continued:" + ("ok" if "mapping" in o["run2"] else o["run2"].get("err", "?"))] += 1
            if "mapping" in f2:
                nsteps[min(len(f2["mapping"]), 9)] += 1
                lk = [l for _, s in f2["mapping"] for l in s["lookups"]]
                nlook[min(len(lk), 10)] += 1
                afters["with_after" if any(l[3] for l in lk) else "no_after"] += 1
            ntables[len(statics(c["recipe"])[0])] += 1
        elif c["kind"] == "sort":
            sortc[f"n={len(c['tables'])}" + (",declared" if c["declared"] else "")] += 1
            if "ok" in o and len(o["ok"]) != len(c["tables"]):
                sortc["order_with_duplicates"] += 1
            if "err" in o:
                sortc["err:" + o["err"]] += 1
    return {"kinds": dict(kinds), "interp_deps_stream": dict(idp), "recipe_features": dict(feats), "recipe_outcomes": dict(outcomes),
            "steps_per_mapping": {str(k): v for k, v in sorted(nsteps.items())},
            "lookups_per_mapping": {str(k): v for k, v in sorted(nlook.items())},
            "after_directives": dict(afters), "visible_tables": {str(k): v for k, v in sorted(ntables.items())},
            "sort_cases": dict(sortc)}


def shrink(case):
    if case["kind"] == "interp_deps":
        from . import sfcore as S
        if len(case["ks"]) > 1:
            yield dict(case, ks=[sum(case["ks"])])
        for c2 in S.shrink_recipe_case({"recipe": case["recipe"], "reps": 1}):
            yield dict(case, recipe=c2["recipe"])
        return
    if case["kind"] == "recipe":
        r = case["recipe"]
        st = r["stmts"]
        if case.get("decls"):
            yield dict(case, decls=[])
            for i in range(len(case["decls"])):
                yield dict(case, decls=case["decls"][:i] + case["decls"][i + 1:])
        for i in range(len(st)):
            if len(st) > 1:
                yield dict(case, recipe={"stmts": st[:i] + st[i + 1:]})
        for i, t in enumerate(st):
            for j in range(len(t["fields"])):
                t2 = dict(t, fields=t["fields"][:j] + t["fields"][j + 1:])
                yield dict(case, recipe={"stmts": st[:i] + [t2] + st[i + 1:]})
            if t.get("friends"):
                yield dict(case, recipe={"stmts": st[:i] + [dict(t, friends=[])] + st[i + 1:]})
            for key, val in (("count", None), ("ukey", None), ("once", False), ("nick", None)):
                if t.get(key) not in (None, False):
                    yield dict(case, recipe={"stmts": st[:i] + [dict(t, **{key: val})] + st[i + 1:]})
    elif case["kind"] == "sort":
        for which in ("inferred", "declared"):
            pairs = case[which]
            for i, (k, v) in enumerate(pairs):
                yield dict(case, **{which: pairs[:i] + pairs[i + 1:]})
                for j in range(len(v)):
                    yield dict(case, **{which: pairs[:i] + [[k, v[:j] + v[j + 1:]]] + pairs[i + 1:]})


def directed_search(rng, disagreeing):
    out = []
    for _ in range(1500):
        out.append(gen_recipe(rng))
    for names in (["B", "A"], ["C", "A", "B"]):
        for edges in all_edge_sets(names, True):
            out.append(gen_sort_case(rng, names, edges))
    return out


def match_finding(case, obs, msg, findings):
    # former finding K16a (steps indexed by sf_object: a PersonContact step stood in for the Contact step) was
    # repaired by fix commit ae07041; its witnesses stay in corpus/C16 as regression cases and nothing is suppressed
    return None
