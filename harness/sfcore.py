"""SF-core recipes: Python-side AST, generator, YAML renderer, Coq-term renderer and the
implementation runner shared by the interpreter-level checks (C01, C02, C03, C04, C06, C09).

AST (JSON-serialisable):
  expr  : ["int", z] | ["var", n] | ["attr", e, f] | ["add"|"sub"|"mul", a, b]
  piece : ["t", s] | ["e", expr]
  fdef  : ["int", z] | ["str", s] | ["formula", [piece]] | ["ref", path] | ["nested", template]
  template: {"table","nick","count","once","fields":[[name,fdef]],"friends":[stmt]}
  stmt  : ["obj", template] | ["var", name, fdef]
  recipe: {"version": 2|3, "options": [[name, value]], "stmts": [stmt]}
"""
import io
import os

from . import common as C

import json

TABLES = ["A", "B", "C", "D"]
HIDDEN_TABLE = "__H"
NICKS = ["aa", "bb", "cc"]
FIELDS = ["f0", "f1", "f2", "f3", "f4"]
HIDDEN_FIELD = "__h0"
# hidden names that are not identifiers: only the prefix `__` makes a name hidden
EXOTIC_HIDDEN_FIELDS = ["__", "__-r", "__ t"]
EXOTIC_HIDDEN_TABLES = ["__-s", "__"]
VARS = ["v0", "v1", "v2"]
OPTS = ["o0", "o1"]
WORDS = ["x", "abc", "k", "row", "a b", "zz_top", "q9"]
DIGITS = ["12", "007", "0", "5", "00", "10"]


# ----------------------------------------------------------------------------- generator
class Gen:
    """Typed generation: every field/variable carries a guessed type ('int', 'str', 'row',
    'mixed') so that arithmetic is mostly applied to integers; a small share of ill-typed
    expressions is kept on purpose (error paths)."""

    def __init__(self, rng, weights=None):
        self.rng = rng
        self.w = dict(nested=0.14, ref=0.22, formula=0.36, friend=0.4, nick=0.4, once=0.18,
                      hidden_field=0.1, hidden_table=0.08, fwd=0.25, var_stmt=0.25, zero_count=0.1,
                      count=0.45, dotted=0.2, illtyped=0.03, randref=0.0)
        if weights:
            self.w.update(weights)
        self.features = set()
        # name-collision stream: one small pool shared by tables, nicknames, fields, variables
        # and options, so that the namespace precedence rules are exercised
        self.collide = rng.random() < self.w.get("collide", 0.2)
        if self.collide:
            self.features.add("name_collisions")
            self.TABLES, self.NICKS = ["A", "B"], ["A", "B", "aa"]
            self.FIELDS = ["f0", "A", "aa", "v0", "o0"]
            self.VARS, self.OPTS = ["v0", "A", "aa", "f0"], ["o0", "A", "v0", "f0", "aa"]
        elif rng.random() < self.w.get("case_twin", 0.0):
            # names that differ only in case are different names (tables, nicknames, variables);
            # only for checks that capture rows directly: SQL outputs cannot hold tables B and b
            self.features.add("case_twin_names")
            # (with random_reference too since /repo 5f8efc8: before, targets `B` and `b` collided inside the
            # row-history store, an sqlite database whose table names are case-insensitive)
            self.TABLES, self.NICKS = ["A", "a", "B", "b"], ["aa", "aA", "bb"]
            self.FIELDS, self.VARS, self.OPTS = FIELDS, ["v0", "V0", "v1"], OPTS
        else:
            self.TABLES, self.NICKS, self.FIELDS, self.VARS, self.OPTS = TABLES, NICKS, FIELDS, VARS, OPTS
            if rng.random() < self.w.get("hidden_nick", 0.0):
                # a NICKNAME that starts with two underscores hides nothing: hidden are tables and fields
                self.features.add("hidden_looking_nickname")
                self.NICKS = ["__nk", "__nk", "aa", "bb"]

    def p(self, k):
        return self.rng.random() < self.w[k]

    def hidden_table_name(self):
        if self.rng.random() < self.w.get("exotic_hidden", 0.25):
            self.features.add("exotic_hidden_name")
            return self.rng.choice(EXOTIC_HIDDEN_TABLES)
        return HIDDEN_TABLE

    def recipe(self):
        rng = self.rng
        ntop = rng.randint(1, 4)
        plan = []
        for _ in range(ntop):
            if self.p("var_stmt"):
                plan.append(("var", rng.choice(self.VARS)))
            else:
                table = self.hidden_table_name() if self.p("hidden_table") else rng.choice(self.TABLES)
                nick = rng.choice(self.NICKS) if self.p("nick") else None
                plan.append(("obj", table, nick))
        if not any(p[0] == "obj" for p in plan):
            plan.append(("obj", rng.choice(self.TABLES), None))
        self.all_top_names = [p[1] for p in plan if p[0] == "obj" and p[1].replace("_", "a").isalnum()] + \
                             [p[2] for p in plan if p[0] == "obj" and p[2]]
        self.options = []
        self.opt_types = {}
        if rng.random() < 0.25:
            v = rng.choice([3, 7, "abc", "12"])
            o = rng.choice(self.OPTS)
            self.options.append([o, v])
            self.opt_types[o] = "int" if isinstance(v, int) else "str"
            self.features.add("option")
        self.version = rng.choice([2, 3])
        self.known = {}        # name -> {field: type} for rows already created (tables and nicknames)
        self.vars = {}         # name -> type
        stmts = []
        for p in plan:
            if p[0] == "var":
                d, ty = self.fdef(0, [], allow_nested=True, in_var=True)
                stmts.append(["var", p[1], d])
                self.vars[p[1]] = ty
                self.features.add("var_top")
            else:
                stmts.append(["obj", self.template(0, p[1], p[2], top=True)])
        # dual forward reference: an earlier template refers to a later one both by nickname
        # and by table name (two slots reserved for one template)
        if rng.random() < self.w.get("dual_fwd", 0.08):
            objs = [i for i, st in enumerate(stmts) if st[0] == "obj"]
            targets = [i for i in objs[1:] if stmts[i][1].get("nick") and stmts[i][1]["table"] != HIDDEN_TABLE
                       and stmts[i][1]["nick"] not in self.TABLES]
            if targets:
                j = rng.choice(targets)
                i = rng.choice([k for k in objs if k < j])
                tgt = stmts[j][1]
                order = [["fz1", ["ref", tgt["nick"]]], ["fz2", ["ref", tgt["table"]]]]
                if rng.random() < 0.5:
                    order.reverse()
                stmts[i][1]["fields"].extend(order)
                if rng.random() < 0.7:
                    tgt["count"] = ["int", rng.randint(2, 3)]
                self.features.add("dual_forward_ref")
        return {"version": self.version, "options": self.options, "stmts": stmts}

    def template(self, depth, table=None, nick=None, top=False):
        rng = self.rng
        if table is None:
            table = self.hidden_table_name() if self.p("hidden_table") else rng.choice(self.TABLES)
            nick = rng.choice(self.NICKS) if self.p("nick") and depth < 2 else None
        if table.startswith("__"):
            self.features.add("hidden_table")
        if nick:
            self.features.add("nick")
        once = top and self.p("once")
        if once:
            self.features.add("just_once")
        count = None
        if self.p("count"):
            r = rng.random()
            if self.p("zero_count"):
                count = ["int", 0]
                self.features.add("zero_count")
            elif r < 0.5:
                count = ["int", rng.randint(1, 3)]
            elif r < 0.62:
                count = ["str", rng.choice(["2", "1", "03"])]
            elif r < 0.9 and depth > 0:
                count = ["formula", [["e", ["add", ["var", "child_index"], ["int", rng.randint(0, 1)]]]]]
                self.features.add("count_formula")
            else:
                count = ["formula", [["e", ["int", rng.randint(0, 2)]]]]
                self.features.add("count_formula")
        mine = []
        ident = lambda n: n.replace("_", "a").isalnum()      # usable as a Jinja identifier
        if ident(table):
            self.known.setdefault(table, {})
        if nick:
            self.known.setdefault(nick, {})
        saved_vars = dict(self.vars)
        self.vars["child_index"] = "int"
        fields = []
        nfields = rng.randint(0, 4)
        names = rng.sample(self.FIELDS, k=min(nfields, len(self.FIELDS)))
        if names and self.p("hidden_field"):
            hf = HIDDEN_FIELD
            if rng.random() < self.w.get("exotic_hidden", 0.25):
                hf = rng.choice(EXOTIC_HIDDEN_FIELDS)
                self.features.add("exotic_hidden_name")
            names[rng.randrange(len(names))] = hf
            self.features.add("hidden_field")
        for name in names:
            d, ty = self.fdef(depth, mine, allow_nested=(depth < 2))
            fields.append([name, d])
            if not ident(name):
                continue
            mine.append((name, ty))
            # several templates may feed one table / nickname: the type becomes uncertain
            for key in (([table] if ident(table) else []) + ([nick] if nick else [])):
                old = self.known[key].get(name)
                self.known[key][name] = ty if old in (None, ty) else "mixed"
        friends = []
        if depth < 2 and self.p("friend"):
            for _ in range(rng.randint(1, 2)):
                if self.p("var_stmt"):
                    v = rng.choice(self.VARS)
                    d, ty = self.fdef(depth + 1, [], allow_nested=False, in_var=True)
                    friends.append(["var", v, d])
                    old = self.vars.get(v)
                    self.vars[v] = ty if old in (None, ty) else "mixed"
                    self.features.add("var_in_friends")
                else:
                    friends.append(["obj", self.template(depth + 1)])
                    self.features.add("friend")
        # variables written inside the template die with its context
        for k in list(self.vars):
            if k not in saved_vars:
                del self.vars[k]
            elif self.vars[k] != saved_vars[k]:
                self.vars[k] = saved_vars[k]
        # names that certainly have rows once this template has run (for random_reference targets)
        certain = count is None or (count[0] == "int" and count[1] >= 1)
        if certain and depth == 0 and not hasattr(self, "rows_exist"):
            self.rows_exist = set()
        if certain and depth == 0:
            if ident(table):
                self.rows_exist.add(table)
            if nick:
                self.rows_exist.add(nick)
        return {"table": table, "nick": nick, "count": count, "once": once, "fields": fields, "friends": friends}

    def name_for_ref(self):
        rng = self.rng
        cands = list(self.known)
        if self.p("fwd") or not cands:
            self.features.add("forward_ref")
            cands = cands + self.all_top_names
        return rng.choice(cands) if cands else "A"

    def fdef(self, depth, mine, allow_nested, in_var=False):
        """returns (fdef, guessed type)"""
        rng = self.rng
        r = rng.random()
        if allow_nested and r < self.w["nested"]:
            self.features.add("nested")
            return ["nested", self.template(depth + 1)], "mixed"   # None when count is 0
        if self.w["randref"] and not in_var and self.p("randref") and (self.known or self.all_top_names):
            # random_reference to a name that has rows by now (mostly), else to any known / top-level name
            have = sorted(getattr(self, "rows_exist", ()))
            if have and rng.random() < 0.9:
                cands = have
            elif rng.random() < 0.25:       # error paths: a name without rows at this point
                cands = list(self.known) if (self.known and rng.random() < 0.6) else list(self.all_top_names)
            else:
                cands = []
            if cands:
                self.features.add("random_reference")
                return ["randref", rng.choice(cands)], "row"
        r = rng.random()
        if r < self.w["ref"]:
            name = self.name_for_ref()
            rowfields = [f for f, ty in self.known.get(name, {}).items() if ty == "row"]
            if self.p("dotted") and rowfields:
                self.features.add("dotted_ref")
                return ["ref", name + "." + rng.choice(sorted(rowfields))], "row"
            self.features.add("ref")
            return ["ref", name], "row"
        if r < self.w["ref"] + self.w["formula"]:
            self.features.add("formula")
            q = rng.random()
            if q < 0.3:
                pieces = [["t", rng.choice(WORDS)]]
                for _ in range(rng.randint(1, 2)):
                    pieces.append(["e", self.atom(mine, ("int", "str", "row") if rng.random() < 0.8 else None)])
                    if rng.random() < 0.4:
                        pieces.append(["t", rng.choice(["_", " ", "x"])])
                self.features.add("concat")
                return ["formula", pieces], "str"
            if q < 0.4:
                self.features.add("digit_concat")
                return ["formula", [["t", rng.choice(["1", "0", "2"])], ["e", self.int_expr(mine, 0)]]], "mixed"
            if q < 0.75:
                return ["formula", [["e", self.int_expr(mine, 2)]]], ("int" if self.version == 3 else "mixed")
            a = self.atom(mine, None)
            return ["formula", [["e", a]]], "mixed"
        if rng.random() < 0.5:
            return ["int", rng.choice([0, 1, 5, 42, -3])], "int"
        if rng.random() < 0.4:
            self.features.add("numeric_string")
            return ["str", rng.choice(DIGITS)], "mixed"
        return ["str", rng.choice(WORDS)], "str"

    def typed_atoms(self, mine):
        """(expr, type) for every name visible here"""
        out = [(["var", "id"], "int"), (["var", "child_index"], "int")]
        for f, ty in mine:
            out.append((["var", f], ty))
            out.append((["attr", ["var", "this"], f], ty))
        for v, ty in self.vars.items():
            out.append((["var", v], ty))
        for o, ty in self.opt_types.items():
            out.append((["var", o], ty))
        for name, fs in self.known.items():
            out.append((["attr", ["var", name], "id"], "int"))
            out.append((["var", name], "row"))
            for f, ty in sorted(fs.items()):
                out.append((["attr", ["var", name], f], ty))
        return out

    def atom(self, mine, types):
        rng = self.rng
        cands = [e for e, ty in self.typed_atoms(mine) if types is None or ty in types]
        if self.all_top_names and rng.random() < 0.1:
            n = rng.choice(self.all_top_names)
            cands.append(["attr", ["var", n], "id"])
            if types is None or "row" in types:
                cands.append(["var", n])
            self.features.add("forward_ref")
        cands.append(["int", rng.randint(0, 9)])
        return rng.choice(cands)

    def int_expr(self, mine, depth):
        rng = self.rng
        if depth > 0 and rng.random() < 0.45:
            return [rng.choice(["add", "add", "sub", "mul"]), self.int_expr(mine, depth - 1), self.int_expr(mine, depth - 1)]
        if self.p("illtyped"):
            return self.atom(mine, None)
        return self.atom(mine, ("int",))


def gen_recipe(rng, weights=None):
    g = Gen(rng, weights)
    r = g.recipe()
    # equivalent spellings / inputs (C14): a prefix of the recipe moved into an included file; option
    # values supplied by the user (falsy ones included) instead of taken from the declared default
    if rng.random() < g.w.get("include_spelling", 0.1) and r["stmts"]:
        r["include_prefix"] = rng.randint(0, len(r["stmts"]))
        g.features.add("include_file_spelling")
    if r["options"] and rng.random() < g.w.get("supply_options", 0.35):
        r["supplied"] = {n: rng.choice([0, 1, 3, "", "0", "7", "x y", v]) for n, v in r["options"] if rng.random() < 0.7}
        if r["supplied"]:
            g.features.add("options_supplied")
    if "random_reference" in g.features:       # parameters of the injected draw stream (chooser_for)
        r["raw"] = [rng.randint(0, 10 ** 6) for _ in range(60)]
        r["bias"] = rng.choice(["lo", "hi", "mix", "mix"])
    return r, sorted(g.features)


# ----------------------------------------------------------------------------- YAML rendering
def expr_text(e):
    k = e[0]
    if k == "int":
        return f"({e[1]})" if e[1] < 0 else str(e[1])
    if k == "var":
        return e[1]
    if k == "attr":
        return f"{expr_text(e[1])}.{e[2]}"
    op = {"add": "+", "sub": "-", "mul": "*"}[k]
    return f"({expr_text(e[1])} {op} {expr_text(e[2])})"


def fdef_yaml(d):
    k = d[0]
    if k in ("int", "str"):
        return d[1]
    if k == "formula":
        return "".join(p[1] if p[0] == "t" else "${{" + expr_text(p[1]) + "}}" for p in d[1])
    if k == "ref":
        return {"reference": d[1]}
    if k == "nested":
        return [template_yaml(d[1])]
    if k == "randref":
        return {"random_reference": d[1]}
    raise ValueError(k)


def template_yaml(t):
    y = {"object": t["table"]}
    if t.get("include"):
        y["include"] = ", ".join(t["include"])
    if t.get("nick"):
        y["nickname"] = t["nick"]
    if t.get("once"):
        y["just_once"] = True
    if t.get("update_key"):          # YAML only (C09 artefact scans); not part of the Coq term
        y["update_key"] = t["update_key"]
    if t.get("count") is not None:
        y["count"] = fdef_yaml(t["count"])
    own = t["own_fields"] if t.get("include") else t["fields"]
    if own:
        y["fields"] = {n: fdef_yaml(d) for n, d in own}
    if t["friends"]:
        y["friends"] = [stmt_yaml(s) for s in t["friends"]]
    return y


def stmt_yaml(s):
    if s[0] == "obj":
        return template_yaml(s[1])
    return {"var": s[1], "value": fdef_yaml(s[2])}


def recipe_docs(r):
    """(main document, included document or None): with r["include_prefix"] = k the option / macro
    declarations and the first k statements live in a file pulled in by `include_file` at the top of the
    main file - by C14 the same recipe as the inline spelling"""
    head = []
    for n, v in r["options"]:
        head.append({"option": n, "default": v})
    for name, fields in r.get("macros", []):
        head.append({"macro": name, "fields": {n: fdef_yaml(d) for n, d in fields}})
    stmts = [stmt_yaml(s) for s in r["stmts"]]
    k = r.get("include_prefix")
    if k is None:
        return [{"snowfakery_version": r["version"]}] + head + stmts, None
    k = max(0, min(int(k), len(stmts)))
    inc = head + stmts[:k]
    if not inc:
        return [{"snowfakery_version": r["version"]}] + stmts, None
    return [{"snowfakery_version": r["version"]}, {"include_file": "inc_part.yml"}] + stmts[k:], inc


def recipe_yaml(r):
    """the inline spelling (one document)"""
    import yaml
    main, _ = recipe_docs(dict(r, include_prefix=None))
    return yaml.safe_dump(main, sort_keys=False, default_flow_style=False, width=1000)


# ----------------------------------------------------------------------------- Coq rendering
def expr_coq(e):
    k = e[0]
    if k == "int":
        return f"(EInt {C.cz(e[1])})"
    if k == "var":
        return f"(EVar {C.cstr(e[1])})"
    if k == "attr":
        return f"(EAttr {expr_coq(e[1])} {C.cstr(e[2])})"
    c = {"add": "EAdd", "sub": "ESub", "mul": "EMul"}[k]
    return f"({c} {expr_coq(e[1])} {expr_coq(e[2])})"


def fdef_coq(d):
    k = d[0]
    if k == "int":
        return f"(FLitInt {C.cz(d[1])})"
    if k == "str":
        return f"(FLitStr {C.cstr(d[1])})"
    if k == "formula":
        ps = C.clist(f"(PText {C.cstr(p[1])})" if p[0] == "t" else f"(PExpr {expr_coq(p[1])})" for p in d[1])
        return f"(FFormula {ps})"
    if k == "ref":
        return f"(FRef {C.cstr(d[1])})"
    if k == "nested":
        return f"(FNested {template_coq(d[1])})"
    if k == "randref":
        return f"(FRandRef {C.cstr(d[1])})"
    raise ValueError(k)


def template_coq(t):
    fields = C.clist(C.cpair(C.cstr(n), fdef_coq(d)) for n, d in t["fields"])
    friends = C.clist(stmt_coq(s) for s in t["friends"])
    cnt = C.copt(t.get("count"), fdef_coq)
    return (f"(Tpl {C.cstr(t['table'])} {C.copt(t.get('nick'), C.cstr)} {cnt} "
            f"{C.cbool(bool(t.get('once')))} {fields} {friends})")


def stmt_coq(s):
    if s[0] == "obj":
        return f"(SObj {template_coq(s[1])})"
    return f"(SVar {C.cstr(s[1])} {fdef_coq(s[2])})"


def value_coq(v):
    if isinstance(v, bool):
        raise ValueError("bool")
    if isinstance(v, int):
        return f"(VInt {C.cz(v)})"
    if isinstance(v, str):
        return f"(VStr {C.cstr(v)})"
    if v is None:
        return "VNull"
    raise ValueError(type(v))


def recipe_coq(r, draws=()):
    """draws: the results of random.Random._randbelow recorded over the whole history"""
    sup = r.get("supplied") or {}
    opts = C.clist(C.cpair(C.cstr(n), value_coq(sup.get(n, v))) for n, v in r["options"])
    stmts = C.clist(stmt_coq(s) for s in r["stmts"])
    return f"(mkRecipe {r['version']} {opts} {stmts} {C.clist(C.cz(d) for d in draws)})"


def uses_random(recipe):
    return '"randref"' in json.dumps(recipe.get("stmts", []))


def chooser_for(recipe, offset=0):
    """deterministic stand-in for random.Random._randbelow: a function of the width and of the
    position of the draw in the whole history (so split and unsplit runs see the same stream)"""
    raw = recipe.get("raw") or [0]
    bias = recipe.get("bias", "mix")

    def chooser(n, idx):
        r = raw[(idx + offset) % len(raw)]
        if bias == "lo":
            return 0 if r % 3 else r % n
        if bias == "hi":
            return n - 1 if r % 3 else r % n
        return (0, n - 1, r % n)[r % 3]
    return chooser


def obs_draws(obs):
    """all recorded draws of an observation (one run or a chain), in order"""
    if isinstance(obs, dict) and "runs" in obs:
        out = []
        for r in obs["runs"]:
            out.extend(r.get("draws", []) if isinstance(r, dict) else [])
        return out
    return list(obs.get("draws", [])) if isinstance(obs, dict) else []


def ovalue_coq(v):
    """v: canonical observable value from the capture stream"""
    k = v[0]
    if k == "int":
        return f"(OInt {C.cz(v[1])})"
    if k == "str":
        return f"(OStr {C.cstr(v[1])})"
    if k == "none":
        return "ONull"
    if k == "ref":
        return f"(ORef {C.cstr(v[1])} {C.cz(v[2])})"
    raise ValueError(k)


def rows_coq(rows):
    return C.clist(C.cpair(C.cstr(t), C.clist(C.cpair(C.cstr(n), ovalue_coq(v)) for n, v in fs)) for t, fs in rows)


def comparable(rows):
    try:
        rows_coq(rows)
        return True
    except ValueError:
        return False


# ----------------------------------------------------------------------------- implementation runner
def make_capture():
    from snowfakery.output_streams import OutputStream
    from snowfakery.object_rows import ObjectRow, ObjectReference

    class Capture(OutputStream):
        """Sees the values as the interpreter hands them to write_row; reads `.id` of
        references in field order, exactly when a real stream would flatten them."""
        def __init__(self):
            self.rows = []
            self.marks = []

        def write_row(self, tablename, row_with_references):
            fs = []
            for k, v in row_with_references.items():
                if isinstance(v, (ObjectRow, ObjectReference)):
                    fs.append([k, ["ref", v._tablename, v.id]])
                elif isinstance(v, bool):
                    fs.append([k, ["other", "bool", repr(v)]])
                elif isinstance(v, int):
                    fs.append([k, ["int", v]])
                elif isinstance(v, str):
                    if " at 0x" in v:          # repr of an object inside a string: the address varies
                        import re as _re
                        v = _re.sub(r" at 0x[0-9a-fA-F]+", " at 0x", v)
                    fs.append([k, ["str", v]])
                elif v is None:
                    fs.append([k, ["none"]])
                else:
                    fs.append([k, ["other", type(v).__name__, repr(v)[:80]]])
            self.rows.append([tablename, fs])

        def write_single_row(self, *a):
            pass

        def close(self, **kw):
            return []

    return Capture()


def run_recipe(recipe, reps=1, user_options=None, continuation=None, want_continuation=False,
               target=None, draw_offset=0):
    """One run.  Returns {"ok": rows, "cont": yaml text|None} or {"err": kind, "rows": partial}.
    Recipes with random_reference run with injected draws (chooser_for) and report them."""
    if uses_random(recipe) and draw_offset is not None:
        from .oracle_random import injected_randbelow
        with injected_randbelow(chooser=chooser_for(recipe, draw_offset)) as rec:
            o = run_recipe(recipe, reps, user_options, continuation, want_continuation, target, draw_offset=None)
        o["draws"] = list(rec.values)
        return o
    from snowfakery.data_generator import generate
    from snowfakery.api import SnowfakeryApplication
    from snowfakery.data_generator_runtime import StoppingCriteria
    cap = make_capture()
    crit = StoppingCriteria(*target) if target else StoppingCriteria("__REPS__", reps)
    app = SnowfakeryApplication(crit)
    app.echo = lambda *a, **k: None
    out_cont = io.StringIO() if want_continuation else None
    opts = dict(recipe.get("supplied") or {})
    opts.update(user_options or {})
    tmpdir, stream = None, None
    try:
        main, inc = (None, None) if recipe.get("raw_yaml") else recipe_docs(recipe)
        if inc is not None:
            import tempfile
            import yaml
            tmpdir = tempfile.mkdtemp(prefix="sfv_inc_", dir="/var/tmp")
            with open(os.path.join(tmpdir, "inc_part.yml"), "w") as f:
                f.write(yaml.safe_dump(inc, sort_keys=False, default_flow_style=False, width=1000))
            with open(os.path.join(tmpdir, "main.yml"), "w") as f:
                f.write(yaml.safe_dump(main, sort_keys=False, default_flow_style=False, width=1000))
            stream = open(os.path.join(tmpdir, "main.yml"))
        else:
            stream = io.StringIO(recipe.get("raw_yaml") or recipe_yaml(recipe))
        generate(stream, opts, cap, app,
                 generate_continuation_file=out_cont,
                 continuation_file=io.StringIO(continuation) if continuation else None)
    except BaseException as e:
        if type(e).__name__ == "_CaseTimeout":
            raise
        return {"err": C.canon_exc(e), "msg": str(e)[:300], "rows": cap.rows}
    finally:
        if tmpdir:
            try:
                stream.close()
            except Exception:
                pass
            import shutil
            shutil.rmtree(tmpdir, ignore_errors=True)
    return {"ok": cap.rows, "cont": out_cont.getvalue() if out_cont else None}


# ----------------------------------------------------------------------------- shared pieces of the interpreter-level checks
def proj_case_coq(proj, recipe, reps, obs):
    """CProj term: the model and the expected rows are both projected by the model."""
    if "ok" in obs:
        if not comparable(obs["ok"]):
            return None
        exp = f"(Ok {rows_coq(obs['ok'])})"
    else:
        exp = f"(Err {C.cerr(obs['err'])})"
    return f"CProj {proj} {recipe_coq(recipe, obs.get('draws', []))} {C.cnat(reps)} {exp}"


def ids_by_table(rows):
    out = {}
    for t, fs in rows:
        d = dict((k, v) for k, v in fs)
        if "id" in d and d["id"][0] == "int":
            out.setdefault(t, []).append(d["id"][1])
    return out


def feature_stats(cases, obss):
    from collections import Counter
    feats = Counter(f for c in cases for f in c.get("features", []))
    outcomes = Counter(("ok" if "ok" in o else o.get("err", "?")) for o in obss if isinstance(o, dict))
    rows = Counter(min(len(o.get("ok", [])), 20) // 5 * 5 for o in obss if isinstance(o, dict) and "ok" in o)
    return {"features": dict(feats), "outcomes": dict(outcomes),
            "rows_per_recipe_bucket": {str(k): v for k, v in sorted(rows.items())},
            "versions": dict(Counter(c["recipe"]["version"] for c in cases)),
            "reps": dict(Counter(c.get("reps", 1) for c in cases))}


def shrink_recipe_case(case):
    r = case["recipe"]
    stmts = r["stmts"]
    for i in range(len(stmts)):
        if len(stmts) > 1:
            yield dict(case, recipe=dict(r, stmts=stmts[:i] + stmts[i + 1:]))
    if case.get("reps", 1) > 1:
        yield dict(case, reps=case["reps"] - 1)
    for i, s in enumerate(stmts):
        if s[0] == "obj":
            t = s[1]
            for j in range(len(t["fields"])):
                t2 = dict(t, fields=t["fields"][:j] + t["fields"][j + 1:])
                yield dict(case, recipe=dict(r, stmts=stmts[:i] + [["obj", t2]] + stmts[i + 1:]))
            for j in range(len(t["friends"])):
                t2 = dict(t, friends=t["friends"][:j] + t["friends"][j + 1:])
                yield dict(case, recipe=dict(r, stmts=stmts[:i] + [["obj", t2]] + stmts[i + 1:]))
            if t.get("count") is not None:
                yield dict(case, recipe=dict(r, stmts=stmts[:i] + [["obj", dict(t, count=None)]] + stmts[i + 1:]))


def walk_templates(recipe):
    def rec_t(t):
        yield t
        for _, d in t["fields"]:
            yield from rec_d(d)
        if t.get("count"):
            yield from rec_d(t["count"])
        for s in t["friends"]:
            yield from rec_s(s)

    def rec_d(d):
        if d[0] == "nested":
            yield from rec_t(d[1])

    def rec_s(s):
        if s[0] == "obj":
            yield from rec_t(s[1])
        else:
            yield from rec_d(s[2])

    for s in recipe["stmts"]:
        yield from rec_s(s)


def factor_into_macros(rng, recipe):
    """Metamorphic factoring used by C03: move leading fields of a top-level template into a
    macro it includes, optionally with a junk definition in the macro that the template's own
    field overrides.  The documented rule (macro fields first, own definitions win, every name
    at its first position) makes the expanded template — kept in "fields", which is what the
    model receives — identical to the original one."""
    cands = [s[1] for s in recipe["stmts"] if s[0] == "obj" and len(s[1]["fields"]) >= 2
             and not any(d[0] == "nested" for _, d in s[1]["fields"])]
    if not cands:
        return False
    t = rng.choice(cands)
    fields = t["fields"]
    k = rng.randint(1, len(fields) - 1)
    macro_fields = [list(f) for f in fields[:k]]
    own = [list(f) for f in fields[k:]]
    if rng.random() < 0.6:
        j = rng.randrange(k)                       # overridden field: junk in the macro, real one own
        real = macro_fields[j]
        macro_fields[j] = [real[0], ["int", 99]]
        own.insert(rng.randint(0, len(own)), real)
    name = "m%d" % (len(recipe.get("macros", [])) + 1)
    recipe.setdefault("macros", []).append([name, macro_fields])
    t["include"] = [name]
    t["own_fields"] = own
    return True


# ----------------------------------------------------------------------------- directed streams
# Small families of recipes aimed at interactions that the free generator reaches too rarely
# (each one was added after an independent seeded change slipped through; DESIGN.md 11.4).

def _T(table, nick=None, once=False, fields=(), count=None, friends=()):
    return {"table": table, "nick": nick, "count": count, "once": once,
            "fields": [list(f) for f in fields], "friends": [list(f) for f in friends]}


def _F(*pieces):
    return ["formula", [list(p) for p in pieces]]


def stream_once_hidden(rng):
    """a just_once row with hidden and visible fields (count 1-2, nickname or not), read by later
    ordinary templates through the nickname and through the table name, in formulas and references"""
    nick = rng.choice(["aa", "bb", None])
    hf = rng.choice([HIDDEN_FIELD, "__p"])
    cnt = rng.choice([None, ["int", 2]])
    once = _T(rng.choice(["A", HIDDEN_TABLE]), nick, True,
              [(hf, _F(["t", "k"], ["e", ["var", "child_index"]])),
               ("f0", _F(["e", ["var", hf]], ["t", "_"], ["e", ["int", 7]])),
               ("f1", ["int", rng.choice([5, 42])])], count=cnt)
    names = [once["table"]] + ([nick] if nick else [])
    names = [n for n in names if n.replace("_", "a").isalnum()]
    fields = []
    for q, nm in enumerate(names):
        fields.append(("r%d" % q, ["ref", nm]))
        fields.append(("h%d" % q, _F(["t", "x"], ["e", ["attr", ["var", nm], hf]])))
        fields.append(("s%d" % q, _F(["e", ["attr", ["var", nm], hf]])))
        fields.append(("v%d" % q, _F(["e", ["add", ["attr", ["var", nm], "f1"], ["var", "id"]]])))
    reader = _T("C", None, False, fields)
    stmts = [["obj", once], ["obj", reader]]
    if rng.random() < 0.4:      # an ordinary row of the same table between them
        stmts.insert(1, ["obj", _T(once["table"], None, False, [("f1", ["int", 1])])])
    return {"version": rng.choice([2, 3]), "options": [], "stmts": stmts}, \
        ["just_once", "hidden_field", "once_hidden_reader"] + (["nick"] if nick else [])


def stream_idle_middle(rng):
    """a table whose template produces rows in some iterations only (count is a formula of the
    driver row's id: 1,0,1,.. / 0,1,0 / 1,0,0,1), next to a table fed every iteration"""
    shape = rng.choice(["101", "010", "1001", "0110"])
    a = ["attr", ["var", "A"], "id"]
    if shape == "101":
        cnt = ["mul", ["sub", a, ["int", 2]], ["sub", a, ["int", 2]]]          # 1,0,1,4,..
    elif shape == "010":
        cnt = ["sub", ["int", 1], ["mul", ["sub", a, ["int", 2]], ["sub", a, ["int", 2]]]]   # 0,1,0,-3
    elif shape == "1001":
        cnt = ["sub", ["int", 1], ["mul", ["sub", a, ["int", 1]], ["sub", ["int", 4], a]]]   # 1,-1,-1,1
    else:
        cnt = ["mul", ["sub", a, ["int", 1]], ["sub", ["int", 4], a]]          # 0,2,2,0
    stmts = [["obj", _T("A", None, False, [("f0", ["int", 1])])],
             ["obj", _T("B", rng.choice([None, "bb"]), False, [("r", ["ref", "A"])], count=_F(["e", cnt]))]]
    if rng.random() < 0.5:
        stmts.append(["obj", _T("C", None, False, [("f1", _F(["e", a]))], friends=[["obj", _T("B", None, False, [], count=_F(["e", cnt]))]])])
    if rng.random() < 0.3:
        stmts.insert(0, ["obj", _T("B", "jj", True, [("f0", ["int", 9])])])
    return {"version": rng.choice([2, 3]), "options": [], "stmts": stmts}, ["count_formula", "idle_table", "shape_" + shape]


def stream_shared_nick_forward(rng):
    """one nickname declared on templates of two tables, one or both of them producing no row
    (count 0), and a forward reference to the nickname (and/or the tables) before them"""
    t1, t2 = rng.sample(["A", "B", "C"], 2)
    c1, c2 = rng.choice([(0, 1), (1, 0), (0, 0), (1, 1), (0, 2)])
    first = _T("D", None, False,
               [("w", ["ref", "who"])] + ([("u", ["ref", rng.choice([t1, t2])])] if rng.random() < 0.4 else []))
    stmts = [["obj", first],
             ["obj", _T(t1, "who", False, [("f0", ["int", 1])], count=["int", c1])],
             ["obj", _T(t2, "who", False, [("f0", ["int", 2])], count=["int", c2])]]
    if rng.random() < 0.3:
        stmts.append(["obj", _T("D", None, False, [("w2", ["ref", "who"])])])
    return {"version": rng.choice([2, 3]), "options": [], "stmts": stmts}, ["nick", "forward_ref", "shared_nick_forward", "zero_count"]


def stream_var_before_definition(rng):
    """top-level variables read before the statement that defines them (undefined in the first
    iteration, the previous iteration's value afterwards), also from nested contexts"""
    v = rng.choice(["v0", "v1"])
    reader_fields = [("p", _F(["t", "p"], ["e", ["var", v]])),
                     ("f0", ["int", 1])]
    if rng.random() < 0.5:
        reader_fields.append(("q", _F(["t", "1"], ["e", ["var", v]])))
    stmts = [["obj", _T("A", None, False, reader_fields,
                        friends=([["obj", _T("B", None, False, [("g", _F(["t", "k"], ["e", ["var", v]], ["t", "_"]))])]]
                                 if rng.random() < 0.5 else []))],
             ["var", v, rng.choice([_F(["e", ["mul", ["attr", ["var", "A"], "id"], ["int", 10]]]),
                                    _F(["t", "w"], ["e", ["attr", ["var", "A"], "id"]]),
                                    ["int", 7]])]]
    if rng.random() < 0.5:
        stmts.append(["obj", _T("C", None, False, [("z", _F(["t", "z"], ["e", ["var", v]]))])])
    return {"version": rng.choice([2, 3]), "options": [], "stmts": stmts}, ["var_top", "var_before_definition", "formula"]


def stream_once_cluster(rng):
    """2-3 just_once templates over 1-2 tables, with and without nicknames (ids coincide across
    tables), then ordinary templates that use them by table name, by nickname and in formulas"""
    tables = ["A", "B"] if rng.random() < 0.7 else ["A"]
    nicks = ["zz", "aa", "mm"]
    rng.shuffle(nicks)
    stmts, names = [], []
    for j in range(rng.randint(2, 3)):
        tb = rng.choice(tables)
        nk = nicks[j] if rng.random() < 0.6 else None
        stmts.append(["obj", _T(tb, nk, True, [("f0", ["int", 10 + j]), ("f1", ["str", rng.choice(WORDS)])],
                              count=(["int", 2] if rng.random() < 0.2 else None))])
        names.append(tb)
        if nk:
            names.append(nk)
    for j in range(rng.randint(1, 2)):
        fields = []
        for q, nm in enumerate(rng.sample(names, k=min(len(names), rng.randint(1, 3)))):
            fields.append(("r%d" % q, ["ref", nm]))
            fields.append(("v%d" % q, ["formula", [["e", ["attr", ["var", nm], rng.choice(["f0", "id"])]]]]))
        stmts.append(["obj", _T(rng.choice(["C", "D"]), None, False, fields)])
    if rng.random() < 0.4:        # an ordinary template of the same table shadows the table name locally
        stmts.insert(rng.randint(len(stmts) - 1, len(stmts)), ["obj", _T(rng.choice(tables), None, False, [("f0", ["int", 77])])])
    return {"version": rng.choice([2, 3]), "options": [], "stmts": stmts}, ["just_once", "nick", "once_cluster"]


def random_cuts(rng, k):
    """a random composition of k into >= 1 positive parts"""
    if k < 2:
        return [k]
    cut = sorted(rng.sample(range(1, k), rng.randint(1, k - 1)))
    return [b - a for a, b in zip([0] + cut, cut + [k])]


def stream_randref_nicks(rng):
    """one table fed by several templates with different nicknames (some just_once, some in friends),
    then pickers with random_reference to every nickname and to the table itself"""
    nicks = rng.sample(["jo", "aa", "zz", "kid"], rng.randint(2, 3))
    stmts, names = [], []
    order = list(nicks)
    rng.shuffle(order)
    for j, nk in enumerate(order):
        once = (nk == "jo") or rng.random() < 0.2
        cnt = rng.choice([None, ["int", 2], ["int", 3]])
        t = _T("A", nk, once, [("tag", ["str", nk]), ("n", ["int", 10 * (j + 1)])], count=cnt)
        if nk == "kid" and not once:      # declared on a friend template only
            stmts.append(["obj", _T("W", None, False, [("w", ["int", 1])], friends=[["obj", t]])])
        else:
            stmts.append(["obj", t])
        names.append(nk)
    if rng.random() < 0.5:
        stmts.insert(rng.randint(0, len(stmts)), ["obj", _T("A", None, False, [("tag", ["str", "plain"])])])
    names.append("A")
    fields = []
    for q, nm in enumerate(names):
        fields.append(("r%d" % q, ["randref", nm]))
    stmts.append(["obj", _T("P", None, False, fields, count=["int", rng.randint(1, 3)])])
    return {"version": rng.choice([2, 3]), "options": [], "stmts": stmts,
            "raw": [rng.randint(0, 10 ** 6) for _ in range(60)], "bias": rng.choice(["lo", "hi", "mix", "mix"])}, \
        ["random_reference", "nick", "just_once", "randref_nicks"]


def stream_nick_spelled_like_table(rng):
    """a nickname on a friend / nested template that is spelled like the name of ANOTHER table; both
    tables are random_reference targets (nickname ordinals and table ids are different namespaces)"""
    n_b = rng.randint(1, 2)
    holder = _T("W", None, False, [("w", ["int", 1])], count=["int", rng.randint(2, 3)])
    inner = _T("C", "B", False, [("tag", ["str", "kid"])], count=rng.choice([None, ["int", 2]]))
    if rng.random() < 0.5:
        holder["friends"] = [["obj", inner]]
    else:
        holder["fields"].append(["kid", ["nested", inner]])
    stmts = [["obj", _T("B", None, False, [("n", ["str", "only"])], count=["int", n_b])], ["obj", holder],
             ["obj", _T("P", None, False, [("r", ["randref", "B"]), ("q", ["randref", "C"])], count=["int", rng.randint(2, 4)])]]
    if rng.random() < 0.5:
        stmts[0], stmts[1] = stmts[1], stmts[0]
    return {"version": rng.choice([2, 3]), "options": [], "stmts": stmts,
            "raw": [rng.randint(0, 10 ** 6) for _ in range(60)], "bias": rng.choice(["lo", "hi", "mix", "hi"])}, \
        ["random_reference", "nick", "nick_spelled_like_table"]


def stream_stale_slot(rng):
    """a forward-reference slot that outlives its iteration without having been used there - held by a
    hidden field of a just_once row, or by a top-level variable that reads its own previous value - and
    is first used (.id / written as a reference) by a template that is idle in the first iteration.
    Before /repo fix d3f3d81 the id drawn through the stale slot was never taken by a row (gap in the
    table's ids, dangling reference); now the iteration fails with Snowfakery's error."""
    a = ["attr", ["var", "A"], "id"]
    idle_then_busy = _F(["e", ["sub", a, ["int", 1]]])                       # 0,1,2,..
    keeper = rng.choice(["once_hidden", "self_var"])
    use = rng.choice(["id", "ref"])
    stmts = []
    if keeper == "once_hidden":
        stmts.append(["obj", _T("D", "jj", True, [("__r", _F(["e", ["var", "B"]])), ("f0", ["int", 3])])])
        held = ["attr", ["var", "jj"], "__r"]
    else:
        nm = "B" if rng.random() < 0.5 else "bb"
        stmts.append(["var", nm, _F(["e", ["var", nm]])])            # ${{B}}: the slot object itself (dialect 3)
        held = ["var", stmts[-1][1]]
    stmts.append(["obj", _T("A", None, False, [("f0", ["int", 1])])])
    fld = ("x", _F(["e", ["attr", held, "id"]])) if use == "id" else ("x", _F(["e", held]))
    stmts.append(["obj", _T("C", None, False, [fld], count=idle_then_busy)])
    stmts.append(["obj", _T("B", "bb", False, [("f1", ["int", 2])], count=rng.choice([None, ["int", 2]]))])
    return {"version": 3, "options": [], "stmts": stmts}, \
        ["stale_slot", "count_formula", "forward_ref", "nick"] + (["just_once", "hidden_field"] if keeper == "once_hidden" else ["var_top"])


def stream_once_cluster_randref(rng):
    """just_once rows of several tables with and without nicknames (their ids coincide across tables:
    ids are per table), picked by random_reference by table name / nickname in later iterations and
    continued runs, and READ through the picked reference (field lookup loads the row from the history).
    Before /repo fix 0aad1fc a continued run re-saved such rows skipping every bare id already seen."""
    r, feats = stream_once_cluster(rng)
    onces = [s[1] for s in r["stmts"] if s[0] == "obj" and s[1]["once"]]
    for s in r["stmts"]:            # a hidden field whose value is a function of the visible f0: __h0 = f0 + 90
        if s[0] == "obj" and any(f == "f0" and d[0] == "int" for f, d in s[1]["fields"]):
            f0 = next(d[1] for f, d in s[1]["fields"] if f == "f0")
            s[1]["fields"].append(["__h0", ["int", f0 + 90]])
    fields = []
    for q, t in enumerate(rng.sample(onces, k=min(len(onces), rng.randint(1, 2)))):
        nm = t["nick"] if (t["nick"] and rng.random() < 0.4) else t["table"]
        fields.append(("p%d" % q, ["randref", nm]))
        fields.append(("q%d" % q, _F(["e", ["attr", ["var", "p%d" % q], rng.choice(["f0", "f1", "id", "__h0", "__h0"])]])))
    r["stmts"].append(["obj", _T("E", None, False, fields, count=rng.choice([None, ["int", 2]]))])
    r["raw"] = [rng.randint(0, 10 ** 6) for _ in range(60)]
    r["bias"] = rng.choice(["lo", "hi", "mix", "mix"])
    return r, feats + ["random_reference", "randref_field_lookup"]


def stream_late_forward_reference(rng):
    """a forward reference that is made for the first time in a LATER iteration (its template is idle in
    the first one) while its target produces no row in that iteration: the iteration must fail with
    'Reference not fulfilled' exactly as it would in the first iteration; with a target that does produce
    a row the reference must name the row of the SAME iteration"""
    a = ["attr", ["var", "A"], "id"]
    idle_then_busy = _F(["e", ["sub", a, ["int", 1]]])                                   # 0,1,2
    sq = ["mul", ["sub", a, ["int", 2]], ["sub", a, ["int", 2]]]                          # 1,0,1,4
    tgt_count = rng.choice([["int", 0], _F(["e", sq]), _F(["e", sq]), None, ["int", 2]])
    nick = rng.choice(["bb", "bb", None])
    name = nick if (nick and rng.random() < 0.6) else "B"
    how = rng.choice(["ref", "ref", "formula_id", "friend"])
    if how == "ref":
        c = _T("C", None, False, [("r", ["ref", name])], count=idle_then_busy)
    elif how == "formula_id":
        c = _T("C", None, False, [("r", _F(["e", ["attr", ["var", name], "id"]]))], count=idle_then_busy)
    else:
        c = _T("C", None, False, [("f0", ["int", 1])], count=idle_then_busy,
               friends=[["obj", _T("D", None, False, [("r", ["ref", name])])]])
    stmts = [["obj", _T("A", None, False, [("f0", ["int", 1])])], ["obj", c],
             ["obj", _T("B", nick, False, [("f1", ["int", 2])], count=tgt_count)]]
    if rng.random() < 0.3:         # another template of the target table that does not carry the nickname
        stmts.append(["obj", _T("B", None, False, [("f1", ["int", 3])])])
    return {"version": rng.choice([2, 3]), "options": [], "stmts": stmts}, \
        ["late_forward_ref", "forward_ref", "count_formula"] + (["nick"] if nick else []) + \
        (["zero_count"] if tgt_count == ["int", 0] else [])


def stream_first_statement_names(rng):
    """the FIRST thing evaluated in an iteration - a top-level variable, or the count of the first
    template - mentions a name of a row that is created later in the iteration (table name or
    nickname, directly or through a just_once singleton of another table): from the second
    iteration on it must still denote this iteration's row / forward reference, never a row of the
    previous iteration"""
    nick = rng.choice(["bb", None])
    name = nick if (nick and rng.random() < 0.6) else "B"
    idv = ["attr", ["var", name], "id"]
    stmts = []
    kind = rng.choice(["var_id", "var_id", "count", "var_then_count"])
    if kind in ("var_id", "var_then_count"):
        stmts.append(["var", "v0", _F(["e", idv])])
    first_fields = [("f0", _F(["e", ["var", "v0"]]))] if kind in ("var_id", "var_then_count") else [("f0", ["int", 1])]
    first_fields.append(("r", ["ref", name]))
    cnt = None
    if kind in ("count", "var_then_count"):
        cnt = _F(["e", ["add", ["mul", idv, ["int", 0]], ["int", rng.choice([1, 2])]]])
    stmts.append(["obj", _T("A", None, False, first_fields, count=cnt)])
    if rng.random() < 0.4:
        stmts.append(["obj", _T("C", "cc", True, [("f2", ["int", 5])])])
    stmts.append(["obj", _T("B", nick, False, [("f1", _F(["e", ["attr", ["var", "A"], "id"]]))],
                           count=rng.choice([None, None, ["int", 2]]))])
    if rng.random() < 0.4:
        stmts.append(["obj", _T("D", None, False, [("back", ["ref", name]), ("a", ["ref", "A"])])])
    return {"version": rng.choice([2, 3]), "options": [], "stmts": stmts}, \
        ["first_statement_names", "forward_ref", "var_top"] + (["nick"] if nick else [])


def stream_hidden_table_nicks(rng):
    """templates of a hidden table with nicknames declared at top level, in friends and nested in a
    field, used from visible rows through `reference`, dotted reads, formulas and random_reference (by
    nickname and by the hidden table's name): everything must behave as for a visible table"""
    ht = rng.choice([HIDDEN_TABLE, HIDDEN_TABLE, "__K"])
    where = rng.choice(["top", "friend", "nested", "friend", "nested"])
    nk = rng.choice(["hh", "kid", "aa"])
    tpl = _T(ht, nk, False, [("v", ["int", rng.choice([3, 8])]), ("w", ["str", rng.choice(WORDS)])],
             count=rng.choice([None, ["int", 2]]))
    stmts = []
    if where == "top":
        stmts.append(["obj", tpl])
    elif where == "friend":
        stmts.append(["obj", _T("W", None, False, [("w0", ["int", 1])], friends=[["obj", tpl]])])
    else:
        stmts.append(["obj", _T("W", None, False, [("w0", ["int", 1]), ("__c", ["nested", tpl]), ("w1", _F(["e", ["attr", ["var", "__c"], "v"]]))])])
    fields = []
    uses = rng.sample(["ref_nick", "ref_table", "attr", "rr_nick", "rr_table"], rng.randint(2, 4))
    for q, u in enumerate(uses):
        if u == "ref_nick":
            fields.append(("a%d" % q, _F(["e", ["attr", ["var", nk], "v"]])))
        elif u == "ref_table" and ht.replace("_", "a").isalnum():
            fields.append(("b%d" % q, _F(["e", ["attr", ["var", ht], "id"]])))
        elif u == "attr":
            fields.append(("__r%d" % q, ["ref", nk]))
            fields.append(("c%d" % q, _F(["e", ["attr", ["var", "__r%d" % q], "v"]])))
        elif u == "rr_nick":
            fields.append(("__p%d" % q, ["randref", nk]))
            fields.append(("d%d" % q, _F(["e", ["attr", ["var", "__p%d" % q], "id"]])))
        elif u == "rr_table":
            fields.append(("__q%d" % q, ["randref", ht]))
            fields.append(("e%d" % q, _F(["e", ["attr", ["var", "__q%d" % q], "id"]])))
    stmts.append(["obj", _T("P", None, False, fields, count=["int", rng.randint(1, 2)])])
    return {"version": rng.choice([2, 3]), "options": [], "stmts": stmts,
            "raw": [rng.randint(0, 10 ** 6) for _ in range(60)], "bias": rng.choice(["lo", "hi", "mix"])}, \
        ["hidden_table", "nick", "hidden_field", "hidden_table_nicks"] + (["random_reference"] if any(u.startswith("rr") for u in uses) else [])


def stream_once_same_table_nick_order(rng):
    """two or three just_once templates on ONE table, each with its own nickname, the nicknames in every
    alphabetical order relative to their creation order (a continuation file sorts its keys), plus
    readers by table name (the LAST created row), by each nickname and through formulas; to be run over
    continuation chains"""
    pool = [["zurich", "athens"], ["athens", "zurich"], ["mm", "aa", "zz"], ["zz", "mm", "aa"], ["b2", "b10"], ["Zed", "alpha"]]
    nicks = rng.choice(pool)
    tb = rng.choice(["A", "B"])
    stmts = []
    for j, nk in enumerate(nicks):
        stmts.append(["obj", _T(tb, nk, True, [("f0", ["int", 10 + j]), ("f1", ["str", nk])],
                              count=(["int", 2] if rng.random() < 0.15 else None))])
    if rng.random() < 0.3:          # an un-nicknamed just_once template of the same table, somewhere
        stmts.insert(rng.randint(0, len(stmts)), ["obj", _T(tb, None, True, [("f0", ["int", 77]), ("f1", ["str", "plain"])])])
    feats_extra = []
    if rng.random() < 0.4:          # a row created BEFORE them refers forward to a later nickname: that row's id
        fw = rng.choice(nicks[1:])  # is allotted first, so "registered last" and "highest id" come apart
        stmts.insert(0, ["obj", _T("F", None, False, [("fw", ["ref", fw])])])
        feats_extra = ["forward_ref", "once_nick_order_forward"]
    fields = [("t", ["ref", tb]), ("tv", _F(["e", ["attr", ["var", tb], "f0"]])), ("ts", _F(["t", "s"], ["e", ["attr", ["var", tb], "f1"]]))]
    for q, nk in enumerate(nicks):
        fields.append(("n%d" % q, ["ref", nk]))
        fields.append(("v%d" % q, _F(["e", ["attr", ["var", nk], "f0"]])))
    stmts.append(["obj", _T("C", None, False, fields)])
    return {"version": rng.choice([2, 3]), "options": [], "stmts": stmts}, ["just_once", "nick", "once_cluster", "once_nick_order"] + feats_extra


def stream_history_rows_hold_once_refs(rng):
    """rows that go into the row history (their table is a random_reference target) and that hold
    references to just_once rows (restored from the continuation file in a continued run), to ordinary
    rows and to nested rows; pickers by table name and by nickname; to be run over continuation chains"""
    once = _T("C", rng.choice(["co", None]), True, [("f0", ["int", 5]), ("f1", ["str", "hq"])])
    oname = once["nick"] or "C"
    pfields = [("boss", ["ref", oname]), ("f0", _F(["e", ["attr", ["var", oname], "f0"]]))]
    if rng.random() < 0.5:
        pfields.append(("kid", ["nested", _T("K", None, False, [("k", ["int", 1])])]))
    pn = rng.choice(["pp", None])
    person = _T("P", pn, False, pfields, count=rng.choice([None, ["int", 2]]))
    picker_fields = [("who", ["randref", "P"])]
    if pn and rng.random() < 0.6:
        picker_fields.append(("who2", ["randref", pn]))
    if rng.random() < 0.5:
        picker_fields.append(("wid", _F(["e", ["attr", ["var", "who"], "id"]])))
    stmts = [["obj", once], ["obj", person], ["obj", _T("D", None, False, picker_fields, count=rng.choice([None, ["int", 2]]))]]
    if rng.random() < 0.3:
        stmts.append(["obj", _T("P", None, False, [("boss", ["ref", oname])])])
    return {"version": rng.choice([2, 3]), "options": [], "stmts": stmts,
            "raw": [rng.randint(0, 10 ** 6) for _ in range(60)], "bias": rng.choice(["lo", "hi", "mix", "mix"])}, \
        ["just_once", "random_reference", "history_rows_hold_once_refs"] + (["nick"] if (pn or once["nick"]) else [])


def stream_dual_forward_underfilled(rng):
    """a template referenced forward by its nickname AND by its table name (two slots reserved) that
    creates fewer rows than slots were reserved (count absent / 1 / 0), ordinary or just_once, alone or
    followed by another template of the table: whenever a reserved id finds no row the iteration must
    fail; when a later template of the table takes it the run completes with dense ids"""
    once = rng.random() < 0.5
    cnt = rng.choice([None, None, ["int", 1], ["int", 0], ["int", 2]])
    nick = rng.choice(["pp", "aa"])
    order = [("r1", ["ref", nick]), ("r2", ["ref", "B"])]
    if rng.random() < 0.5:
        order.reverse()
    if rng.random() < 0.3:
        order = order[:1] + [("m", ["int", 4])] + order[1:]
    stmts = [["obj", _T("A", None, False, order)], ["obj", _T("B", nick, once, [("f1", ["int", 2])], count=cnt)]]
    if rng.random() < 0.35:       # a second template of the table, without the nickname
        stmts.append(["obj", _T("B", None, rng.random() < 0.3, [("f1", ["int", 3])])])
    if rng.random() < 0.3:
        stmts.append(["obj", _T("C", None, False, [("back", ["ref", nick])])])
    return {"version": rng.choice([2, 3]), "options": [], "stmts": stmts}, \
        ["dual_forward_ref", "forward_ref", "nick", "dual_forward_underfilled"] + (["just_once"] if once else []) + \
        (["zero_count"] if cnt == ["int", 0] else [])


def stream_randref_hidden_child(rng):
    """rows of a random_reference target that hold child rows (nested templates) in hidden AND visible
    fields plus hidden scalars; the picker reads the children THROUGH the picked reference (formula
    `${{who.__kid.k}}`, dotted `reference: who.__kid`), i.e. from the copy the row history loads, in the
    same iteration, in later iterations and in continued runs"""
    hf = rng.choice(["__kid", HIDDEN_FIELD, "__p"])
    kid_h = _T("K", None, False, [("k", ["int", rng.choice([3, 8])]), ("__s", ["int", 6])])
    kid_v = _T(rng.choice(["K", "L"]), None, False, [("k", ["int", 4])])
    pfields = [("f0", ["int", 5]), (hf, ["nested", kid_h]), ("__n", ["int", 17])]
    if rng.random() < 0.6:
        pfields.insert(rng.randint(0, 2), ("vkid", ["nested", kid_v]))
    pn = rng.choice(["pp", None])
    once = rng.random() < 0.25
    parent = _T("P", pn, once, pfields, count=rng.choice([None, ["int", 2]]))
    who = rng.choice(["who", "__who"])
    dfields = [(who, ["randref", pn if (pn and rng.random() < 0.4) else "P"])]
    uses = [("a", _F(["e", ["attr", ["attr", ["var", who], hf], "k"]])),
            ("b", ["ref", who + "." + hf]),
            ("c", _F(["e", ["attr", ["var", who], "__n"]])),
            ("d", _F(["t", "s"], ["e", ["attr", ["attr", ["var", who], hf], "__s"]])),
            ("e", _F(["e", ["attr", ["attr", ["var", who], hf], "id"]]))]
    if any(f == "vkid" for f, _ in pfields):
        uses.append(("f", _F(["e", ["attr", ["attr", ["var", who], "vkid"], "k"]])))
        uses.append(("g", ["ref", who + ".vkid"]))
    rng.shuffle(uses)
    dfields += uses[:rng.randint(2, len(uses))]
    stmts = [["obj", parent], ["obj", _T("D", None, False, dfields, count=rng.choice([None, ["int", 2]]))]]
    return {"version": rng.choice([2, 3]), "options": [], "stmts": stmts,
            "raw": [rng.randint(0, 10 ** 6) for _ in range(60)], "bias": rng.choice(["lo", "hi", "mix", "mix"])}, \
        ["random_reference", "hidden_field", "nested", "randref_hidden_child"] + (["nick"] if pn else []) + (["just_once"] if once else [])


def stream_once_nick_like_once_table(rng):
    """two just_once templates where the NICKNAME of one is spelled like the TABLE of the other (legal, a
    warning only), in both orders, with and without counts; readers use that name (reference, formula)
    in every iteration and in continued runs - from the second iteration on the per-iteration names are
    gone and the two persistent maps (by nickname, by table) both hold the name"""
    tb, other = rng.choice([("B", "A"), ("A", "B"), ("B", "C")])
    a = _T(other, tb, True, [("f0", ["int", 31]), ("f1", ["str", "byname"])], count=rng.choice([None, ["int", 2]]))
    b = _T(tb, rng.choice([None, None, "own"]), True, [("f0", ["int", 47]), ("f1", ["str", "bytable"])],
           count=rng.choice([None, None, ["int", 2]]))
    stmts = [["obj", a], ["obj", b]]
    if rng.random() < 0.5:
        stmts.reverse()
    fields = [("r", ["ref", tb]), ("v", _F(["e", ["attr", ["var", tb], "f0"]])), ("s", _F(["t", "x"], ["e", ["attr", ["var", tb], "f1"]]))]
    if rng.random() < 0.5:
        fields.append(("o", ["ref", other]))
        fields.append(("ov", _F(["e", ["attr", ["var", other], "f0"]])))
    stmts.append(["obj", _T("D", None, False, fields)])
    if rng.random() < 0.25:       # an ordinary row of the table, AFTER the reader (shadows nothing for it)
        stmts.append(["obj", _T(tb, None, False, [("f0", ["int", 1])])])
    return {"version": rng.choice([2, 3]), "options": [], "stmts": stmts}, \
        ["just_once", "nick", "once_nick_like_once_table"]


def stream_captured_slot(rng):
    """dialect 3: a formula `${{B}}` evaluated before any row named B exists in the iteration yields the
    forward-reference slot OBJECT without reserving an id; the captured object (in a variable, or in a
    field of a row that is written after its nested children) is written / asked for its id only AFTER
    a row named B was created (or never is, or B produces no row).  Every id that is eventually drawn
    through the captured object must be the id of a row or the iteration must fail."""
    name, nick = rng.choice([("B", None), ("bb", "bb"), ("B", "bb")])
    target = _T("B", nick, False, [("f1", ["int", 2])], count=rng.choice([None, None, ["int", 2], ["int", 0]]))
    shape = rng.choice(["var", "var", "nested", "friend_reader"])
    stmts = []
    if shape == "var":
        stmts.append(["var", "later", _F(["e", ["var", name]])])
        mid = [["obj", target]]
        if rng.random() < 0.4:
            mid.insert(rng.randint(0, 1), ["obj", _T("C", None, False, [("f0", ["int", 1])])])
        stmts += mid
        use = rng.choice([("b", _F(["e", ["var", "later"]])), ("b", _F(["e", ["attr", ["var", "later"], "id"]]))])
        stmts.append(["obj", _T("A", None, False, [("f0", ["int", 1]), use])])
        if rng.random() < 0.3:
            stmts.append(["obj", _T("B", None, False, [("f1", ["int", 3])])])
    elif shape == "nested":
        stmts.append(["obj", _T("A", None, False, [("b", _F(["e", ["var", name]])), ("kid", ["nested", target])],
                                count=rng.choice([None, ["int", 2]]))])
    else:
        stmts.append(["obj", _T("A", None, False, [("__c", _F(["e", ["var", name]])), ("f0", ["int", 1])],
                                friends=[["obj", target],
                                         ["obj", _T("D", None, False, [("b", _F(["e", ["attr", ["var", "A"], "__c"]]))])]])])
    if shape != "var":        # only top-level names have slots: a top-level template of that name comes later
        stmts.append(["obj", _T("B", nick, False, [("f1", ["int", 5])], count=rng.choice([None, ["int", 0]]))])
    return {"version": 3, "options": [], "stmts": stmts}, \
        ["captured_slot", "forward_ref", "formula"] + (["nick"] if nick else []) + (["var_top"] if shape == "var" else ["nested" if shape == "nested" else "friend"])


def stream_randref_idle_target(rng):
    """the target of a random_reference gets rows in SOME iterations only (count is a formula of the
    driver row's id: 1,0,1,.. / 1,0,0,1 / 2,0,0,2), the picker runs in every iteration - by table name and
    by nickname: with no row in the current iteration the pick falls back to all rows so far; over
    continuation chains the bounds come from the restored counters.  Every picked id must be the id of a
    row that exists."""
    shape = rng.choice(["101", "1001", "2002"])
    a = ["attr", ["var", "A"], "id"]
    if shape == "101":
        cnt = ["mul", ["sub", a, ["int", 2]], ["sub", a, ["int", 2]]]                          # 1,0,1,4
    elif shape == "1001":
        cnt = ["sub", ["int", 1], ["mul", ["sub", a, ["int", 1]], ["sub", ["int", 4], a]]]     # 1,-1,-1,1
    else:
        cnt = ["sub", ["int", 2], ["mul", ["sub", a, ["int", 1]], ["sub", ["int", 4], a]]]     # 2,0,0,2
    nick = rng.choice(["bb", None])
    stmts = [["obj", _T("A", None, False, [("f0", ["int", 1])])],
             ["obj", _T("B", nick, False, [("f1", ["int", 2])], count=_F(["e", cnt]))]]
    pf = [("r", ["randref", "B"])]
    if nick and rng.random() < 0.6:
        pf.append(("q", ["randref", nick]))
    if rng.random() < 0.4:
        pf.append(("i", _F(["e", ["attr", ["var", "r"], "id"]])))
    stmts.append(["obj", _T("P", None, False, pf, count=rng.choice([None, ["int", 2]]))])
    if rng.random() < 0.3:      # a just_once row of the target table as well (re-saved in continued runs)
        stmts.insert(1, ["obj", _T("B", "jj", True, [("f1", ["int", 9])])])
    return {"version": rng.choice([2, 3]), "options": [], "stmts": stmts,
            "raw": [rng.randint(0, 10 ** 6) for _ in range(60)], "bias": rng.choice(["lo", "hi", "hi", "mix"])}, \
        ["random_reference", "count_formula", "idle_table", "randref_idle_target"] + (["nick"] if nick else [])


def stream_name_is_nick_and_table_forward(rng):
    """one spelling is the NICKNAME of a template of one table and the NAME of another table, and it is
    referenced forward (before either row exists), by an earlier row or by a friend; templates in both
    orders, with counts, ordinary or just_once; the reserved id must be taken by a row of the table the
    slot belongs to (the table name wins the slot) or the iteration must fail"""
    tb, other = rng.choice([("B", "A"), ("B", "C")])
    nicked = _T(other, tb, rng.random() < 0.25, [("f0", ["int", 3])], count=rng.choice([None, None, ["int", 2]]))
    plain = _T(tb, rng.choice([None, None, "own"]), rng.random() < 0.2, [("f1", ["int", 4])], count=rng.choice([None, None, ["int", 2], ["int", 0]]))
    pair = [["obj", nicked], ["obj", plain]]
    if rng.random() < 0.5:
        pair.reverse()
    first = _T("V", None, False, [("r", ["ref", tb])] + ([("m", ["int", 1])] if rng.random() < 0.3 else []))
    if rng.random() < 0.3:
        first["fields"].append(["r2", ["ref", tb]])
    stmts = [["obj", first]] + pair
    if rng.random() < 0.4:
        stmts.append(["obj", _T("D", None, False, [("back", ["ref", tb]), ("o", ["ref", other])])])
    if rng.random() < 0.25:     # only the nicknamed template exists below the reference: the table's own template comes first
        stmts = [pair[1], ["obj", first], pair[0]]
    return {"version": rng.choice([2, 3]), "options": [], "stmts": stmts}, \
        ["forward_ref", "nick", "name_collisions", "name_is_nick_and_table_forward"]


def stream_once_idle_first(rng):
    """a just_once template that makes NO row in the first iteration (its count is a formula of the driver
    row's id: 0 in iteration 1, positive later; or of a variable): just_once means "the first iteration
    only", so it never makes a row - neither in later iterations nor in continued runs; next to a just_once
    template that does make its row, and readers of both tables"""
    a = ["attr", ["var", "A"], "id"]
    cnt = rng.choice([["sub", a, ["int", 1]],                                   # 0,1,2,..
                      ["mul", ["sub", a, ["int", 1]], ["int", 2]],               # 0,2,4
                      ["sub", ["int", 1], ["mul", ["sub", a, ["int", 2]], ["sub", a, ["int", 2]]]]])   # 0,1,0
    nick = rng.choice(["jj", None])
    stmts = [["obj", _T("A", None, False, [("f0", ["int", 1])])],
             ["obj", _T("J", nick, True, [("f1", _F(["e", a]))], count=_F(["e", cnt]))]]
    if rng.random() < 0.6:
        stmts.append(["obj", _T("K", "kk", True, [("f2", ["int", 5])])])
    if rng.random() < 0.5:      # an ordinary template of the idle table: its ids must stay dense
        stmts.append(["obj", _T("J", None, False, [("f1", ["int", 70])])])
    if rng.random() < 0.5 and any(s[1]["table"] == "K" for s in stmts if s[0] == "obj"):
        stmts.append(["obj", _T("C", None, False, [("k", ["ref", "kk"]), ("v", _F(["e", ["attr", ["var", "kk"], "f2"]]))])])
    return {"version": rng.choice([2, 3]), "options": [], "stmts": stmts}, \
        ["just_once", "count_formula", "once_idle_first"] + (["nick"] if nick else [])


def stream_once_after_lookup(rng):
    """names are looked up (a formula, a reference, a variable) BEFORE the just_once templates of the recipe
    run in the first iteration; the just_once templates come with and without nicknames; later templates use
    them by table name and by nickname in every iteration and in continued runs; sometimes an ordinary
    template of the same table follows (it takes forward-reserved ids)"""
    first = rng.choice(["formula", "ref_back", "var"])
    stmts = []
    if first == "var":
        stmts.append(["var", "v0", _F(["e", ["add", ["int", 1], ["int", 1]]])])
        stmts.append(["obj", _T("A", None, False, [("f0", _F(["e", ["var", "v0"]]))])])
    elif first == "formula":
        stmts.append(["obj", _T("A", None, False, [("f0", _F(["t", "a"], ["e", ["var", "id"]]))])])
    else:
        stmts.append(["obj", _T("A", "aa", False, [("f0", ["int", 1])])])
        stmts.append(["obj", _T("D", None, False, [("r", ["ref", "aa"])])])
    n1 = rng.choice([None, None, "jj"])
    stmts.append(["obj", _T("J", n1, True, [("f1", ["str", "cfg"]), ("f2", ["int", 8])])])
    if rng.random() < 0.5:
        stmts.append(["obj", _T("K", rng.choice([None, "kk"]), True, [("f1", ["str", "k"]), ("f2", ["int", 3])])])
    names = ["J"] + ([n1] if n1 else [])
    fields = []
    for q, nm in enumerate(names):
        fields.append(("r%d" % q, ["ref", nm]))
        fields.append(("v%d" % q, _F(["e", ["attr", ["var", nm], "f2"]])))
        fields.append(("s%d" % q, _F(["t", "x"], ["e", ["attr", ["var", nm], "f1"]])))
    stmts.append(["obj", _T("C", None, False, fields)])
    if rng.random() < 0.5:
        stmts.append(["obj", _T("J", None, False, [("f1", ["str", "plain"]), ("f2", ["int", 1])])])
    return {"version": rng.choice([2, 3]), "options": [], "stmts": stmts}, \
        ["just_once", "once_after_lookup"] + (["nick"] if n1 else []) + (["var_top"] if first == "var" else [])


def stream_constant_vars(rng):
    """top-level variables whose value is a plain constant (a number, a text) or a formula of constants,
    defined before the templates that read them (in fields, counts, friends, nested templates); every
    iteration of every run - the first iteration of a continued run too - must see them"""
    vals = [["int", rng.choice([3, 19, 0])], ["str", rng.choice(["eu", "x y"])], _F(["e", ["add", ["int", 2], ["int", 5]]]),
            ["int", 2]]
    rng.shuffle(vals)
    names = ["v0", "v1", "v2"][:rng.randint(1, 3)]
    stmts = [["var", nm, vals[i]] for i, nm in enumerate(names)]
    if rng.random() < 0.3:
        stmts.insert(rng.randint(0, len(stmts)), ["obj", _T("J", "jj", True, [("f0", ["int", 9])])])
    fields = [("a%d" % i, _F(["e", ["var", nm]])) for i, nm in enumerate(names)]
    fields.append(("s", _F(["t", "p"], ["e", ["var", names[0]]], ["t", "q"])))
    cnt = None
    for i, nm in enumerate(names):
        if vals[i] == ["int", 2] and rng.random() < 0.6:
            cnt = _F(["e", ["var", nm]])
    t = _T("A", None, False, fields, count=cnt)
    if rng.random() < 0.4:
        t["friends"] = [["obj", _T("B", None, False, [("g", _F(["e", ["var", names[-1]]]))])]]
    if rng.random() < 0.3:
        t["fields"].append(["kid", ["nested", _T("K", None, False, [("k", _F(["e", ["var", names[0]]]))])]])
    stmts.append(["obj", t])
    if rng.random() < 0.4:       # a later variable that builds on an earlier one
        stmts.append(["var", "w0", _F(["e", ["var", names[0]]], ["t", "-"], ["e", ["attr", ["var", "A"], "id"]])])
        stmts.append(["obj", _T("C", None, False, [("h", _F(["e", ["var", "w0"]]))])])
    return {"version": rng.choice([2, 3]), "options": [], "stmts": stmts}, ["var_top", "constant_vars", "formula"]


def stream_once_holds_forward_ref(rng):
    """a just_once row holds a FORWARD reference (the referenced template comes later in the recipe) in a
    visible or hidden field; later templates read the row and the held reference (dotted reference,
    `.id`) in every iteration of ONE run (such a row cannot be written to a continuation file: findings
    K1 / K2).  The held reference denotes the same row in every iteration."""
    hf = rng.choice(["lead", "lead", "__lead"])
    target = rng.choice(["B", "bb"])
    once = _T("J", "jj", True, [("f0", ["int", 4]), (hf, ["ref", target])])
    b = _T("B", "bb", False, [("f1", ["int", 2])], count=rng.choice([None, ["int", 2]]))
    fields = [("r", ["ref", "jj"]), ("x", ["ref", "jj." + hf]), ("v", _F(["e", ["attr", ["var", "jj"], "f0"]]))]
    if rng.random() < 0.6:
        fields.append(("i", _F(["e", ["attr", ["attr", ["var", "jj"], hf], "id"]])))
    stmts = [["obj", once], ["obj", b], ["obj", _T("C", None, False, fields)]]
    if rng.random() < 0.3:
        stmts.insert(0, ["obj", _T("A", None, False, [("f0", ["int", 1])])])
    return {"version": rng.choice([2, 3]), "options": [], "stmts": stmts, "single_run": True}, \
        ["just_once", "forward_ref", "nick", "once_holds_forward_ref"] + (["hidden_field"] if hf.startswith("__") else [])
