"""Generic check driver: proof obligations + correspondence + oracle + verdict + evidence."""
import argparse
import importlib
import json
import os
import random
import sys
import time
from collections import Counter
from pathlib import Path

from . import common as C


def load_corpus(prop):
    d = C.CORPUS / prop
    out = []
    if d.exists():
        for p in sorted(d.glob("*.json")):
            data = json.loads(p.read_text())
            for c in data.get("cases", [data.get("case")] if "case" in data else []):
                if c is not None:
                    c = dict(c)
                    c.setdefault("_corpus", p.name)
                    out.append(c)
    return out


def evaluate(mod, cases, timeout, with_model=True):
    """run implementation, oracle, model comparison on `cases`.
    returns (obss, oracle_failures[(i,msg)], disagreements[i], coq_errors, harness_errors[(i,msg)])"""
    obss = C.run_impl_all(mod, cases, timeout=timeout) if cases else []
    oracle_fail, harness_err = [], []
    terms, term_idx = [], []
    for i, (c, o) in enumerate(zip(cases, obss)):
        if isinstance(o, dict) and ("harness_error" in o):
            harness_err.append((i, o["harness_error"]))
            continue
        if isinstance(o, dict) and o.get("hang"):
            oracle_fail.append((i, "implementation did not finish within the time limit"))
            continue
        try:
            msg = mod.oracle(c, o)
        except Exception as e:  # an oracle crash is a harness defect; surface it
            harness_err.append((i, f"oracle crashed: {type(e).__name__}: {e}"))
            continue
        if msg:
            oracle_fail.append((i, msg))
        t = mod.coq_case(c, o) if with_model else None
        if t is not None:
            terms.append(t)
            term_idx.append(i)
    failing, coq_errors = ([], [])
    if terms:
        failing, coq_errors = C.check_cases_in_coq(
            mod.PROP, mod.MODEL, terms, shard=getattr(mod, "SHARD", 300),
            check_fn=getattr(mod, "CHECK_FN", "check_case"),
            extra_imports=getattr(mod, "COQ_IMPORTS", ()),
            skipped_fn=getattr(mod, "SKIPPED_FN", None))
    disagreements = [term_idx[j] for j in failing]
    return obss, oracle_fail, disagreements, coq_errors, harness_err, len(terms)


def shrink(mod, case, still_fails, budget=60):
    if not hasattr(mod, "shrink"):
        return case
    cur = case
    improved = True
    n = 0
    while improved and n < budget:
        improved = False
        for cand in mod.shrink(cur):
            n += 1
            if n >= budget:
                break
            if still_fails(cand):
                cur = cand
                improved = True
                break
    return cur


def main(argv=None):
    ap = argparse.ArgumentParser()
    ap.add_argument("prop")
    ap.add_argument("--tier", default=os.environ.get("VERIF_TIER", "quick"), choices=["quick", "thorough"])
    ap.add_argument("--replay")
    ap.add_argument("--no-proof", action="store_true", help="(development) skip step 1")
    args = ap.parse_args(argv)
    prop = args.prop.upper()
    seed = int(os.environ.get("VERIF_SEED", "0") or 0)
    tier = args.tier
    t0 = time.time()
    mod = importlib.import_module(f"harness.{prop.lower()}")
    findings = C.load_findings()
    open_findings = [f for f in findings.get("open", []) if f["property"] == prop]

    # ---- step 1: proof obligations
    if args.no_proof:
        proof = {"obligations": 0, "discharged": 0, "theorems": [], "assumptions": {}, "problems": [], "built": True}
    else:
        import re as _re
        _mods = str(getattr(mod, "MODEL", "")).split()
        for _imp in getattr(mod, "COQ_IMPORTS", ()):      # e.g. "From SFV Require Import StreamParse StreamCases."
            _m = _re.match(r"\s*From SFV Require Import ([A-Za-z0-9_ ]+)\.", _imp)
            if _m:
                _mods += _m.group(1).split()
        proof = C.build_props(prop, models=_mods)
        if tier == "thorough" and proof["built"] and not args.replay and not os.environ.get("SFV_NO_COQCHK"):
            proof["coqchk"], chk_problems = C.run_coqchk(prop)
            proof["problems"].extend(chk_problems)

    # ---- steps 2-4
    rng = random.Random(seed * 1000003 + 17)
    if args.replay:
        payload = json.loads(Path(args.replay).read_text())
        cases = payload.get("cases") or [payload["case"]]
        corpus_n = 0
    else:
        corpus = load_corpus(prop)
        corpus_n = len(corpus)
        cases = corpus + mod.generate(rng, tier)
    timeout = getattr(mod, "CASE_TIMEOUT", 20)
    obss, oracle_fail, disagreements, coq_errors, harness_err, n_terms = evaluate(mod, cases, timeout)

    # ---- step 5: verdict
    violations = []       # (kind, case index, message)
    known_hits = {}
    def classify(i, msg):
        fid = mod.match_finding(cases[i], obss[i], msg, open_findings) if hasattr(mod, "match_finding") else None
        if fid:
            known_hits.setdefault(fid, (i, msg))
        else:
            violations.append(("oracle", i, msg))
    for i, msg in oracle_fail:
        classify(i, msg)

    lines = []
    exit_code = 0
    replay_paths = []

    def single_fails(kind):
        def f(cand):
            ob, of, dis, ce, he, _ = evaluate(mod, [cand], timeout, with_model=(kind != "oracle"))
            if kind == "oracle":
                return bool(of) and not (hasattr(mod, "match_finding") and mod.match_finding(cand, ob[0], of[0][1], open_findings))
            return bool(dis) or bool(ce)
        return f

    if violations:
        # report the first violation per distinct message class, shrunk
        seen = set()
        for kind, i, msg in violations:
            cls = getattr(mod, "violation_class", lambda c, o, m: m.split(":")[0])(cases[i], obss[i], msg)
            if cls in seen:
                continue
            seen.add(cls)
            small = shrink(mod, cases[i], single_fails("oracle")) if not args.replay else cases[i]
            p = C.write_replay(prop, seed, {"property": prop, "kind": "property-violated-on-implementation",
                                            "message": msg, "case": small, "original_case": cases[i],
                                            "observed": obss[i], "seed": seed})
            replay_paths.append(str(p))
            lines.append(f"VIOLATION property={prop} replay={p}")
            if len(seen) >= 5:
                break
        exit_code = 1
    broken = []
    if proof["problems"]:
        broken.append(("proof", proof["problems"]))
    # disagreements that coincide with a known finding's witness are part of that finding
    real_dis = []
    for i in disagreements:
        fid = mod.match_finding(cases[i], obss[i], "model-disagreement", open_findings) if hasattr(mod, "match_finding") else None
        if fid:
            known_hits.setdefault(fid, (i, "model-disagreement"))
        else:
            real_dis.append(i)
    if real_dis or coq_errors or harness_err:
        broken.append(("correspondence", {"disagreeing_cases": real_dis[:20], "coq_errors": coq_errors[:3],
                                          "harness_errors": harness_err[:5]}))
    if real_dis and getattr(mod, "DIFFERENTIAL_IS_PROPERTY", False) and not violations:
        # the property itself is "output equals the reference interpreter": a disagreeing
        # recipe is the concrete failing input
        i = real_dis[0]
        small = shrink(mod, cases[i], single_fails("correspondence")) if not args.replay else cases[i]
        p = C.write_replay(prop, seed, {"property": prop, "kind": "implementation-differs-from-reference-interpreter",
                                        "message": "rows delivered by /repo differ from the Coq reference interpreter (model %s)" % mod.MODEL,
                                        "case": small, "original_case": cases[i], "observed": obss[i],
                                        "other_disagreeing_cases": len(real_dis), "seed": seed})
        lines.append(f"VIOLATION property={prop} replay={p}")
        violations.append(("differential", i, "differs from reference interpreter"))
        exit_code = 1
    if broken and not violations:
        # directed search for a concrete failing input on the implementation
        found = None
        if not args.replay and hasattr(mod, "directed_search"):
            extra = mod.directed_search(random.Random(seed + 99), [cases[i] for i in real_dis[:10]])
            if extra:
                ob2 = C.run_impl_all(mod, extra, timeout=timeout)
                for c2, o2 in zip(extra, ob2):
                    if isinstance(o2, dict) and ("harness_error" in o2):
                        continue
                    m2 = "implementation did not finish within the time limit" if (isinstance(o2, dict) and o2.get("hang")) else mod.oracle(c2, o2)
                    if m2 and not (hasattr(mod, "match_finding") and mod.match_finding(c2, o2, m2, open_findings)):
                        found = (c2, o2, m2)
                        break
        if found:
            c2, o2, m2 = found
            small = shrink(mod, c2, single_fails("oracle"))
            p = C.write_replay(prop, seed, {"property": prop, "kind": "property-violated-on-implementation",
                                            "message": m2, "case": small, "original_case": c2, "observed": o2,
                                            "found_by": "directed search after a broken proof/correspondence",
                                            "broken": broken, "seed": seed})
            lines.append(f"VIOLATION property={prop} replay={p}")
        else:
            first = real_dis[0] if real_dis else (harness_err[0][0] if harness_err else None)
            small = None
            if first is not None and real_dis and not args.replay:
                small = shrink(mod, cases[first], single_fails("correspondence"))
            p = C.write_replay(prop, seed, {
                "property": prop, "kind": "proof-or-correspondence-no-longer-checks",
                "what_no_longer_checks": [
                    (f"correspondence lemma `agree` (coq/cases/{prop}_s*.v): model {mod.MODEL}.{getattr(mod, 'CHECK_FN', 'check_case')} "
                     f"disagrees with /repo on the case below") if b[0] == "correspondence" else
                    f"proof obligations of coq/props/{prop}.v: {[q.get('theorem', q['kind']) for q in b[1]]}"
                    for b in broken],
                "details": broken,
                "case": small if small is not None else (cases[first] if first is not None else None),
                "observed": obss[first] if first is not None else None,
                "seed": seed})
            lines.append(f"VIOLATION property={prop} replay={p} no-failing-input-found")
        exit_code = 1
    elif broken and violations:
        pass  # already reported with a concrete failing input

    for fid, (i, msg) in sorted(known_hits.items()):
        what = next((f["what"] for f in open_findings if f["id"] == fid), msg)
        lines.append(f"KNOWN-FINDING: property={prop} {fid} {what}")

    # ---- step 6: evidence
    nontrivial_keys = set()
    for c, o in zip(cases, obss):
        try:
            if mod.nontrivial(c, o):
                cc = {k: v for k, v in c.items() if not k.startswith("_")}
                nontrivial_keys.add(C.case_key(cc))
        except Exception:
            pass
    stats = mod.stats(cases, obss) if hasattr(mod, "stats") else {}
    samples = [{"case": {k: v for k, v in c.items() if not k.startswith("_")}, "observed": o}
               for c, o in list(zip(cases, obss))[corpus_n:corpus_n + 3]] or \
              [{"case": c, "observed": o} for c, o in list(zip(cases, obss))[:3]]
    samples = json.loads(json.dumps(samples, default=str)[:200000]) if len(json.dumps(samples, default=str)) < 200000 else samples[:1]
    coverage = {
        "obligations": max(1, proof["obligations"]),
        "discharged": proof["discharged"],
        "checker_cmd": f"make -C coq props/{prop}.vo (coqc 8.16.1, full .vo) + Print Assumptions per theorem; "
                       f"coqc on coq/cases/{prop}_s*.v (Lemma agree, vm_compute)",
        "trusted_base": [
            "Coq 8.16.1 kernel incl. vm_compute conversion (no native_compute, no disabled checks)",
            "no axioms: Print Assumptions per theorem = " + json.dumps(
                {k: (v.splitlines()[0] if v else "") for k, v in proof["assumptions"].items()}),
            "correspondence harness (harness/common.py, harness/driver.py, harness/%s.py): generators, "
            "Python->Coq term printer, canonicalisers" % prop.lower(),
        ] + list(getattr(mod, "TRUSTED", [])),
        "theorems": proof["theorems"],
        "coqchk": proof.get("coqchk", "not run in the quick tier (thorough tier runs coqchk -o on the property's .vo closure)"),
        "programs": len(cases),
        "disagreements_checked": n_terms,
        "disagreements_found": len(real_dis),
        "outside_model_fragment": C.LAST_SKIPPED.get(prop, 0),
        "evaluations": len(cases),
        "distinct_nontrivial": len(nontrivial_keys),
        "rule": getattr(mod, "RULE", ""),
        "samples": samples,
        "corpus_cases": corpus_n,
        "distribution": stats,
        "known_findings_reproduced": sorted(known_hits),
        "repo_fingerprint": C.repo_fingerprint(),
        "exhaustive": bool(getattr(mod, "EXHAUSTIVE", {}).get(tier, False)),
    }
    C.write_evidence(prop, tier, seed, time.time() - t0, coverage,
                     list(getattr(mod, "ASSUMPTIONS", [])), sum(1 for l in lines if l.startswith("VIOLATION")))
    for l in lines:
        print(l)
    print(f"{prop} {tier}: theorems {proof['discharged']}/{proof['obligations']}, cases {len(cases)} "
          f"(model-compared {n_terms}, disagreements {len(real_dis)}, oracle failures {len(oracle_fail)}, "
          f"known {len(known_hits)}), {time.time() - t0:.1f}s -> exit {exit_code}")
    return exit_code
